/-
  C04 — corrupt or hostile input is contained; failed ingestion leaves no trace.

  Model: Model/Ingest.lean (its constants and the guards it depends on come from Gen/Ingest.lean, regenerated
  from /repo on every run).  zlib (`inflate`), the hash (`H`), zlib.compress (`deflate`) and the object-content
  parser (`valid`) are parameters; what is assumed about them is an explicit hypothesis of the theorem that
  needs it.  Only property theorems, non-vacuity examples and negation witnesses live here.
-/
import DulwichModel.Model.Ingest

namespace Dulwich.Props.C04
open Dulwich Dulwich.Ingest

/-- What is assumed of zlib where a theorem needs it: the unread rest it reports is not longer than what it was given. -/
def InflateShrinks (inflate : Inflate) : Prop :=
  ∀ i o r, inflate i = some (o, r) → r.length ≤ i.length

/-! ## 1. framing: progress, totality, the guards -/

theorem takeMsb_shrinks : ∀ (inp raw rest : Bytes), takeMsb inp = some (raw, rest) →
    rest.length < inp.length ∧ 1 ≤ raw.length := by
  intro inp
  induction inp with
  | nil => intro raw rest h; simp [takeMsb] at h
  | cons b bs ih =>
    intro raw rest h
    simp only [takeMsb] at h
    split at h
    · simp only [Option.some.injEq, Prod.mk.injEq] at h
      obtain ⟨rfl, rfl⟩ := h
      simp
    · split at h
      · cases h
      · rename_i bs' r hrec
        simp only [Option.some.injEq, Prod.mk.injEq] at h
        obtain ⟨rfl, rfl⟩ := h
        have := ih _ _ hrec
        simp only [List.length_cons]
        omega

theorem inflateSized_spec {inflate : Inflate} {size : Nat} {inp out rest : Bytes}
    (h : inflateSized inflate size inp = .ok (out, rest)) :
    inflate inp = some (out, rest) ∧ out.length = size ∧ rest ≠ [] := by
  have hs : Gen.Ingest.zlibSizeChecked = true := rfl
  unfold inflateSized at h
  split at h
  · cases h
  · split at h
    · cases h
    · rename_i o r hi
      simp only [hs, Bool.true_and] at h
      split at h
      · cases h
      · rename_i hsz
        split at h
        · cases h
        · rename_i hne
          simp only [Except.ok.injEq, Prod.mk.injEq] at h
          obtain ⟨rfl, rfl⟩ := h
          refine ⟨hi, ?_, ?_⟩
          · simpa using hsz
          · intro hn; apply hne; simp [hn]

/-- **Size header vs payload.**  An entry is accepted only if the stream inflates to exactly the declared size
and at least one byte follows it (as coded: the reader waits for zlib to report unused data). -/
theorem size_header_agrees {inflate : Inflate} {size : Nat} {inp out rest : Bytes}
    (h : inflateSized inflate size inp = .ok (out, rest)) : out.length = size ∧ rest ≠ [] :=
  ⟨(inflateSized_spec h).2.1, (inflateSized_spec h).2.2⟩

/-- **Progress.**  Every entry consumes at least one byte, whatever zlib does with the payload. -/
theorem parse_progress {inflate : Inflate} (hz : InflateShrinks inflate) {off : Nat} {inp rest : Bytes} {e : Entry}
    (h : parseEntry inflate off inp = .ok (e, rest)) : rest.length < inp.length := by
  unfold parseEntry at h
  split at h
  · cases h
  · rename_i raw r1 h1
    have l1 := (takeMsb_shrinks _ _ _ h1).1
    simp only at h
    split at h
    · split at h
      · cases h
      · rename_i raw2 r2 h2
        have l2 := (takeMsb_shrinks _ _ _ h2).1
        split at h
        · cases h
        · split at h
          · cases h
          · rename_i d r3 h3
            simp only [Except.ok.injEq, Prod.mk.injEq] at h
            obtain ⟨_, rfl⟩ := h
            have := hz _ _ _ (inflateSized_spec h3).1
            omega
    · split at h
      · split at h
        · cases h
        · split at h
          · cases h
          · rename_i d r3 h3
            simp only [Except.ok.injEq, Prod.mk.injEq] at h
            obtain ⟨_, rfl⟩ := h
            have := hz _ _ _ (inflateSized_spec h3).1
            simp only [List.length_drop] at this
            omega
      · split at h
        · cases h
        · rename_i d r3 h3
          simp only [Except.ok.injEq, Prod.mk.injEq] at h
          obtain ⟨_, rfl⟩ := h
          have := hz _ _ _ (inflateSized_spec h3).1
          omega

/-- **OFS offset 0 is rejected** (and so is every offset the varint cannot produce): an OFS_DELTA entry that
the parser yields has `k ≥ 1`, i.e. its base lies strictly before it.  Depends on the guard the translator
found in `_decode_delta_base_offset` (`Gen.Ingest.ofsZeroRejected`). -/
theorem parse_ofs_pos {inflate : Inflate} {off : Nat} {inp rest : Bytes} {o k : Nat} {d : Bytes}
    (h : parseEntry inflate off inp = .ok (⟨o, .ofs k d⟩, rest)) : 1 ≤ k := by
  have hg : Gen.Ingest.ofsZeroRejected = true := rfl
  unfold parseEntry at h
  split at h
  · cases h
  · simp only at h
    split at h
    · split at h
      · cases h
      · simp only [hg, Bool.true_and] at h
        split at h
        · cases h
        · rename_i hk
          split at h
          · cases h
          · simp only [Except.ok.injEq, Prod.mk.injEq, Entry.mk.injEq, Kind.ofs.injEq] at h
            obtain ⟨⟨_, rfl, _⟩, _⟩ := h
            simp only [beq_iff_eq] at hk
            omega
    · split at h
      · split at h
        · cases h
        · split at h
          · cases h
          · simp at h
      · split at h
        · cases h
        · simp at h

/-- … and so for every entry of every parsed pack. -/
theorem parsed_entries_ofs_pos {inflate : Inflate} (total : Nat) :
    ∀ (fuel count : Nat) (inp rest : Bytes) (es : List Entry),
      parseEntries inflate total fuel count inp = .ok (es, rest) →
      ∀ e ∈ es, ∀ k d, e.kind = .ofs k d → 1 ≤ k := by
  intro fuel
  induction fuel with
  | zero =>
    intro count inp rest es h
    cases count with
    | zero => simp only [parseEntries, Except.ok.injEq, Prod.mk.injEq] at h; obtain ⟨rfl, _⟩ := h; simp
    | succ c => simp [parseEntries] at h
  | succ fuel ih =>
    intro count inp rest es h
    cases count with
    | zero => simp only [parseEntries, Except.ok.injEq, Prod.mk.injEq] at h; obtain ⟨rfl, _⟩ := h; simp
    | succ c =>
      simp only [parseEntries] at h
      split at h
      · cases h
      · rename_i e r he
        split at h
        · cases h
        · rename_i es' r' hrec
          simp only [Except.ok.injEq, Prod.mk.injEq] at h
          obtain ⟨rfl, _⟩ := h
          intro e' he' k d hk
          rcases List.mem_cons.mp he' with rfl | hm
          · obtain ⟨eo, ek⟩ := e'
            simp only at hk
            subst hk
            exact parse_ofs_pos he
          · exact ih c r r' es' hrec e' hm k d hk

/-- The object loop is a total function of the input: with `fuel > inp.length` it never runs out of fuel —
the number of iterations is bounded by the length of the remaining input, NOT by the (attacker-chosen,
up to 2^32-1) object count. -/
theorem parseEntries_no_fuel {inflate : Inflate} (hz : InflateShrinks inflate) (total : Nat) :
    ∀ (fuel count : Nat) (inp : Bytes), inp.length < fuel →
      parseEntries inflate total fuel count inp ≠ .error .fuel := by
  intro fuel
  induction fuel with
  | zero => intro count inp h; omega
  | succ fuel ih =>
    intro count inp hf
    cases count with
    | zero => simp [parseEntries]
    | succ count =>
      simp only [parseEntries]
      split
      · rename_i e he
        intro hc
        simp only [Except.error.injEq] at hc
        subst hc
        -- parseEntry never reports `.fuel`
        unfold parseEntry at he
        split at he
        · cases he
        · simp only at he
          split at he
          · split at he
            · cases he
            · split at he
              · cases he
              · split at he
                · rename_i e' hi
                  simp only [Except.error.injEq] at he; subst he
                  unfold inflateSized at hi
                  split at hi
                  · cases hi
                  · split at hi
                    · cases hi
                    · split at hi
                      · cases hi
                      · split at hi <;> cases hi
                · cases he
          · split at he
            · split at he
              · cases he
              · split at he
                · rename_i e' hi
                  simp only [Except.error.injEq] at he; subst he
                  unfold inflateSized at hi
                  split at hi
                  · cases hi
                  · split at hi
                    · cases hi
                    · split at hi
                      · cases hi
                      · split at hi <;> cases hi
                · cases he
            · split at he
              · rename_i e' hi
                simp only [Except.error.injEq] at he; subst he
                unfold inflateSized at hi
                split at hi
                · cases hi
                · split at hi
                  · cases hi
                  · split at hi
                    · cases hi
                    · split at hi <;> cases hi
              · cases he
      · rename_i e rest he
        have hl := parse_progress hz he
        have := ih count rest (by omega)
        split
        · rename_i e' he'
          intro hc
          simp only [Except.error.injEq] at hc
          subst hc
          exact this he'
        · simp

/-- **parse_total.**  `parsePackStream` is a total function on every byte string and every outcome is one the
real reader has: entries, or a format / delta (OFS offset 0) / checksum error — never "out of fuel". -/
theorem parse_total {inflate : Inflate} (hz : InflateShrinks inflate) (H : Hash) (inp : Bytes) :
    parsePackStream inflate H inp ≠ .error .other := by
  unfold parsePackStream
  split
  · rename_i e he
    intro hc
    simp only [Except.error.injEq] at hc
    subst hc
    unfold parseHeader at he
    split at he
    · cases he
    · split at he
      · cases he
      · split at he <;> cases he
  · rename_i count _
    simp only
    split
    · rename_i e he
      intro hc
      simp only [Except.error.injEq] at hc
      have hnf := parseEntries_no_fuel hz inp.length ((inp.drop Gen.Ingest.packHeaderLen).length + 1) count
        (inp.drop Gen.Ingest.packHeaderLen) (by omega)
      cases e with
      | fuel => exact hnf he
      | hdr => cases hc
      | zlib => cases hc
      | delta => cases hc
    · unfold checkTrailer
      split
      · split <;> simp
      · simp

/-- The same for the buffer reader (`PackData` + `iter_unpacked`). -/
theorem parse_data_total {inflate : Inflate} (hz : InflateShrinks inflate) (inp : Bytes) :
    parsePackData inflate inp ≠ .error .other := by
  unfold parsePackData parsePackDataX
  split
  · rename_i e he
    intro hc
    simp only [Except.error.injEq] at hc
    split at he
    · simp only [Except.error.injEq] at he; subst he; cases hc
    · split at he
      · simp only [Except.error.injEq] at he; subst he; cases hc
      · rename_i count _
        have hnf := parseEntries_no_fuel hz inp.length ((inp.drop Gen.Ingest.packHeaderLen).length + 1) count
          (inp.drop Gen.Ingest.packHeaderLen) (by omega)
        cases e with
        | fuel => exact hnf he
        | hdr => cases hc
        | zlib => cases hc
        | delta => cases hc
  · simp

/-- **Object count too high.**  A stream is accepted only if it really contains `count` entries, and `count`
entries need at least `count` bytes: the header cannot promise more objects than the input has bytes. -/
theorem parse_count_bound {inflate : Inflate} (hz : InflateShrinks inflate) (total : Nat) :
    ∀ (fuel count : Nat) (inp rest : Bytes) (es : List Entry),
      parseEntries inflate total fuel count inp = .ok (es, rest) →
      es.length = count ∧ count + rest.length ≤ inp.length := by
  intro fuel
  induction fuel with
  | zero =>
    intro count inp rest es h
    cases count with
    | zero => simp only [parseEntries, Except.ok.injEq, Prod.mk.injEq] at h; obtain ⟨rfl, rfl⟩ := h; simp
    | succ c => simp [parseEntries] at h
  | succ fuel ih =>
    intro count inp rest es h
    cases count with
    | zero => simp only [parseEntries, Except.ok.injEq, Prod.mk.injEq] at h; obtain ⟨rfl, rfl⟩ := h; simp
    | succ c =>
      simp only [parseEntries] at h
      split at h
      · cases h
      · rename_i e r he
        split at h
        · cases h
        · rename_i es' r' hrec
          simp only [Except.ok.injEq, Prod.mk.injEq] at h
          obtain ⟨rfl, rfl⟩ := h
          have hl := parse_progress hz he
          have := ih c r r' es' hrec
          simp only [List.length_cons]
          omega

/-- **Wrong trailer.**  An accepted stream carries, right after the bytes read from the wire, the hash of those
bytes (the whole input once an object was read; header + 20 bytes for an empty pack). -/
theorem stream_trailer_verified {inflate : Inflate} {H : Hash} {inp : Bytes} {es : List Entry}
    (h : parsePackStream inflate H inp = .ok es) :
    ∃ count, parseHeader inp = .ok count ∧
      lastN Gen.Ingest.oidLen (streamConsumed count inp) = H (butLastN Gen.Ingest.oidLen (streamConsumed count inp)) := by
  have hv : Gen.Ingest.trailerVerified = true := rfl
  unfold parsePackStream at h
  split at h
  · cases h
  · rename_i count hc
    refine ⟨count, hc, ?_⟩
    simp only at h
    split at h
    · cases h
    · unfold checkTrailer at h
      simp only [hv, Bool.true_and] at h
      split at h
      · split at h <;> cases h
      · rename_i hne
        simpa using hne

/-! ## 2. forward chaining: terminates, resolves each entry at most once, names are hashes -/

/-- A work item as `resolveAll` builds them: full entries without a base, deltas with one. -/
def WorkOK (w : Work0) : Prop :=
  match w with
  | (⟨_, .full _ _⟩, none) => True
  | (⟨_, .ofs _ _⟩, some _) => True
  | (⟨_, .ref _ _⟩, some _) => True
  | _ => False

theorem resolveOne_hash {H : Hash} {valid : Obj → Bool} {w : Work0} {o : Obj}
    (h : resolveOne H valid w = .ok o) : HashOK H o := by
  have mk : ∀ ty data, (match mkObj H ty data with
      | none => Except.error Err.format
      | some o => if valid o then Except.ok o else Except.error Err.format) = .ok o → HashOK H o := by
    intro ty data hm
    split at hm
    · cases hm
    · rename_i o' ho'
      split at hm
      · simp only [Except.ok.injEq] at hm
        subst hm
        unfold mkObj at ho'
        simp only [Option.map_eq_some_iff] at ho'
        obtain ⟨hd, hh, rfl⟩ := ho'
        exact ⟨hd, hh, rfl⟩
      · cases hm
  have app : ∀ ty base d, (match Delta.applyDelta base d with
      | .error _ => Except.error Err.delta
      | .ok data =>
        if Gen.Ingest.emptyGuard && ty != Gen.Ingest.blobType && data.isEmpty then Except.error Err.delta
        else (match mkObj H ty data with
          | none => Except.error Err.format
          | some o => if valid o then Except.ok o else Except.error Err.format)) = .ok o → HashOK H o := by
    intro ty base d ha
    split at ha
    · cases ha
    · split at ha
      · cases ha
      · exact mk _ _ ha
  unfold resolveOne at h
  simp only at h
  split at h
  · exact mk _ _ h
  · exact app _ _ _ h
  · exact app _ _ _ h
  · cases h

theorem resolveOne_no_other {H : Hash} {valid : Obj → Bool} {w : Work0} (hw : WorkOK w) :
    resolveOne H valid w ≠ .error .other := by
  have mk : ∀ ty data, (match mkObj H ty data with
      | none => Except.error Err.format
      | some o => if valid o then Except.ok o else Except.error Err.format) ≠ .error .other := by
    intro ty data
    split
    · simp
    · split <;> simp
  have app : ∀ ty base d, (match Delta.applyDelta base d with
      | .error _ => Except.error Err.delta
      | .ok data =>
        if Gen.Ingest.emptyGuard && ty != Gen.Ingest.blobType && data.isEmpty then Except.error Err.delta
        else (match mkObj H ty data with
          | none => Except.error Err.format
          | some o => if valid o then Except.ok o else Except.error Err.format)) ≠ .error .other := by
    intro ty base d
    split
    · simp
    · split
      · simp
      · exact mk _ _
  unfold resolveOne
  simp only
  split
  · exact mk _ _
  · exact app _ _ _
  · exact app _ _ _
  · rename_i h1 h2 h3
    exfalso
    obtain ⟨⟨off, k⟩, b⟩ := w
    cases k with
    | full ty data => cases b with
      | none => exact h1 off ty data rfl
      | some _ => exact hw
    | ofs kk d => cases b with
      | none => exact hw
      | some tb => exact h2 off kk d tb.1 tb.2 rfl
    | ref n d => cases b with
      | none => exact hw
      | some tb => exact h3 off n d tb.1 tb.2 rfl

/-- Splitting `pending` into the entries a resolved object unblocks and the rest loses nothing and duplicates
nothing (an entry is an OFS delta or a REF delta, never both). -/
theorem unblock_partition (off : Nat) (name : Bytes) : ∀ (pending : List Entry),
    (pending.filter (isOfsFor off) ++ pending.filter (isRefFor name)).length
      + (pending.filter fun e => !(isOfsFor off e || isRefFor name e)).length = pending.length := by
  intro pending
  induction pending with
  | nil => simp
  | cons e es ih =>
    have hex : ¬ (isOfsFor off e = true ∧ isRefFor name e = true) := by
      intro ⟨h1, h2⟩
      unfold isOfsFor at h1
      unfold isRefFor at h2
      cases hk : e.kind <;> simp [hk] at h1 h2
    simp only [List.filter_cons, List.length_append] at ih ⊢
    by_cases h1 : isOfsFor off e = true
    · have h2 : isRefFor name e = false := by
        cases hh : isRefFor name e
        · rfl
        · exact absurd ⟨h1, hh⟩ hex
      simp only [h1, h2, Bool.or_false, Bool.not_true, if_true, List.length_cons, Bool.false_eq_true, if_false]
      omega
    · have h1' : isOfsFor off e = false := by simpa using h1
      by_cases h2 : isRefFor name e = true
      · simp only [h1', h2, Bool.false_or, Bool.not_true, Bool.false_eq_true, if_false, if_true, List.length_cons]
        omega
      · have h2' : isRefFor name e = false := by simpa using h2
        simp only [h1', h2', Bool.or_false, Bool.not_false, Bool.false_eq_true, if_false, if_true, List.length_cons]
        omega

theorem filter_split {α : Type} (p : α → Bool) (l : List α) :
    (l.filter p).length + (l.filter fun x => !p x).length = l.length := by
  induction l with
  | nil => simp
  | cons a l ih =>
    simp only [List.filter_cons]
    by_cases h : p a = true
    · simp only [h, if_true, Bool.not_true, Bool.false_eq_true, if_false, List.length_cons]; omega
    · have : p a = false := by simpa using h
      simp only [this, Bool.false_eq_true, if_false, Bool.not_false, if_true, List.length_cons]; omega

/-- What is recorded with every yielded object: it is named by the hash of its header ++ data, and (when the
walk refuses deltas onto their own chain) its name is none of the ids it was a delta against. -/
def YieldOK (rej : Bool) (H : Hash) (p : Obj × List Bytes) : Prop :=
  HashOK H p.1 ∧ (rej = true → p.1.name ∉ p.2)

/-- Invariants of `_follow_chain`, all at once.  With `fuel ≥ |todo| + |pending|`:
never out of fuel; every object is yielded with the hash of its header ++ data as its name and (with `rej`)
under a name that occurs nowhere on its own delta chain; `pending` only shrinks; yielded + still-pending never
exceeds what there was (each entry is resolved AT MOST ONCE), with equality when the walk was not stopped. -/
theorem chainLoop_inv (rej : Bool) (H : Hash) (valid : Obj → Bool) :
    ∀ (fuel : Nat) (todo : List Work) (pending : List Entry) (acc : List (Obj × List Bytes)),
    todo.length + pending.length ≤ fuel → (∀ w ∈ todo, WorkOK w.1) → (∀ e ∈ pending, isFull e = false) →
    (∀ p ∈ acc, YieldOK rej H p) →
    (chainLoop rej H valid fuel todo pending acc).2.2 ≠ some .other ∧
    (∀ p ∈ (chainLoop rej H valid fuel todo pending acc).1, YieldOK rej H p) ∧
    (∀ e ∈ (chainLoop rej H valid fuel todo pending acc).2.1, isFull e = false) ∧
    (chainLoop rej H valid fuel todo pending acc).2.1.length ≤ pending.length ∧
    (chainLoop rej H valid fuel todo pending acc).1.length + (chainLoop rej H valid fuel todo pending acc).2.1.length
      ≤ acc.length + todo.length + pending.length ∧
    ((chainLoop rej H valid fuel todo pending acc).2.2 = none →
      (chainLoop rej H valid fuel todo pending acc).1.length + (chainLoop rej H valid fuel todo pending acc).2.1.length
        = acc.length + todo.length + pending.length) := by
  intro fuel
  induction fuel with
  | zero =>
    intro todo pending acc hf hw hp ha
    cases todo with
    | nil => simp [chainLoop]; exact ⟨fun a b h => ha (a, b) h, hp⟩
    | cons w t => simp at hf
  | succ fuel ih =>
    intro todo pending acc hf hw hp ha
    cases todo with
    | nil => simp [chainLoop]; exact ⟨fun a b h => ha (a, b) h, hp⟩
    | cons w t =>
      simp only [chainLoop]
      split
      · rename_i e he
        refine ⟨?_, ha, hp, Nat.le_refl _, by simp only [List.length_cons]; omega, by intro h; cases h⟩
        intro hc
        simp only [Option.some.injEq] at hc
        subst hc
        exact resolveOne_no_other (hw w (List.mem_cons_self)) he
      · rename_i o ho
        split
        · -- the delta resolves to an object of its own chain: ApplyDeltaError
          refine ⟨by simp, ha, hp, Nat.le_refl _, by simp only [List.length_cons]; omega, by intro h; cases h⟩
        · rename_i hnr
          have hpart := unblock_partition w.1.1.off o.name pending
          have hdelta : ∀ e ∈ (pending.filter (isOfsFor w.1.1.off) ++ pending.filter (isRefFor o.name)), isFull e = false := by
            intro e he
            simp only [List.mem_append, List.mem_filter] at he
            rcases he with ⟨h, _⟩ | ⟨h, _⟩ <;> exact hp e h
          have := ih
            (((pending.filter (isOfsFor w.1.1.off) ++ pending.filter (isRefFor o.name)).map
                fun e => ((e, some (o.ty, o.data)), o.name :: w.2)).reverse ++ t)
            (pending.filter fun e => !(isOfsFor w.1.1.off e || isRefFor o.name e)) (acc ++ [(o, w.2)])
            (by
              simp only [List.length_append, List.length_reverse, List.length_map, List.length_cons] at hf hpart ⊢
              omega)
            (by
              intro w' hw'
              simp only [List.mem_append, List.mem_reverse, List.mem_map] at hw'
              rcases hw' with ⟨e, he, rfl⟩ | h
              · have hd := hdelta e (by simpa using he)
                obtain ⟨eo, ek⟩ := e
                cases ek with
                | full _ _ => simp [isFull] at hd
                | ofs _ _ => trivial
                | ref _ _ => trivial
              · exact hw w' (List.mem_cons_of_mem _ h))
            (by
              intro e he
              exact hp e (List.mem_filter.mp he).1)
            (by
              intro p' hp'
              simp only [List.mem_append, List.mem_singleton] at hp'
              rcases hp' with h | rfl
              · exact ha p' h
              · refine ⟨resolveOne_hash ho, ?_⟩
                intro hr
                simp only [hr, Bool.true_and, Bool.not_eq_true] at hnr
                simpa using hnr)
          obtain ⟨h1, h2, h3, hm, h4, h5⟩ := this
          have hfl : (pending.filter fun e => !(isOfsFor w.1.1.off e || isRefFor o.name e)).length ≤ pending.length :=
            List.length_filter_le _ _
          refine ⟨h1, h2, h3, by omega, ?_, ?_⟩
          · simp only [List.length_append, List.length_reverse, List.length_map, List.length_cons, List.length_nil] at h4 hpart ⊢
            omega
          · intro hn
            have := h5 hn
            simp only [List.length_append, List.length_reverse, List.length_map, List.length_cons, List.length_nil] at this hpart ⊢
            omega

/-- Number of `full` jobs (each of them resolves one more entry than was pending). -/
def nFull : List Job → Nat
  | [] => 0
  | .full _ :: js => nFull js + 1
  | .ext _ :: js => nFull js

/-- The same invariants for the outer loops of `_walk_all_chains` (full objects, then external bases). -/
theorem runJobs_inv (rej : Bool) (H : Hash) (valid : Obj → Bool) (ext : Bytes → Option (Nat × Bytes)) (fuel : Nat) :
    ∀ (jobs : List Job) (pending : List Entry) (acc : List (Obj × List Bytes)),
    nFull jobs + pending.length ≤ fuel → (∀ j ∈ jobs, ∀ e, j = .full e → isFull e = true) →
    (∀ e ∈ pending, isFull e = false) → (∀ p ∈ acc, YieldOK rej H p) →
    (runJobs rej H valid ext fuel jobs pending acc).2.2 ≠ some .other ∧
    (∀ p ∈ (runJobs rej H valid ext fuel jobs pending acc).1, YieldOK rej H p) ∧
    (∀ e ∈ (runJobs rej H valid ext fuel jobs pending acc).2.1, isFull e = false) ∧
    (runJobs rej H valid ext fuel jobs pending acc).2.1.length ≤ pending.length ∧
    (runJobs rej H valid ext fuel jobs pending acc).1.length + (runJobs rej H valid ext fuel jobs pending acc).2.1.length
      ≤ acc.length + nFull jobs + pending.length ∧
    ((runJobs rej H valid ext fuel jobs pending acc).2.2 = none →
      (runJobs rej H valid ext fuel jobs pending acc).1.length + (runJobs rej H valid ext fuel jobs pending acc).2.1.length
        = acc.length + nFull jobs + pending.length) := by
  intro jobs
  induction jobs with
  | nil => intro pending acc _ _ hp ha; simp [runJobs, nFull]; exact ⟨fun a b h => ha (a, b) h, hp⟩
  | cons j js ih =>
    intro pending acc hf hj hp ha
    -- one job
    have hone : (runJob rej H valid ext fuel j pending acc).2.2 ≠ some .other ∧
        (∀ p ∈ (runJob rej H valid ext fuel j pending acc).1, YieldOK rej H p) ∧
        (∀ e ∈ (runJob rej H valid ext fuel j pending acc).2.1, isFull e = false) ∧
        (runJob rej H valid ext fuel j pending acc).2.1.length ≤ pending.length ∧
        (runJob rej H valid ext fuel j pending acc).1.length + (runJob rej H valid ext fuel j pending acc).2.1.length
          ≤ acc.length + nFull [j] + pending.length ∧
        ((runJob rej H valid ext fuel j pending acc).2.2 = none →
          (runJob rej H valid ext fuel j pending acc).1.length + (runJob rej H valid ext fuel j pending acc).2.1.length
            = acc.length + nFull [j] + pending.length) := by
      cases j with
      | full e =>
        have hfull := hj (.full e) (List.mem_cons_self) e rfl
        have := chainLoop_inv rej H valid fuel [((e, none), [])] pending acc
          (by simp only [nFull, List.length_cons, List.length_nil] at hf ⊢; omega)
          (by
            intro w hw
            simp only [List.mem_singleton] at hw
            subst hw
            obtain ⟨eo, ek⟩ := e
            cases ek with
            | full _ _ => trivial
            | ofs _ _ => simp [isFull] at hfull
            | ref _ _ => simp [isFull] at hfull)
          hp ha
        simpa [runJob, nFull] using this
      | ext name =>
        simp only [runJob, nFull]
        cases hext : ext name with
        | none => simp; exact ⟨fun a b h => ha (a, b) h, hp⟩
        | some base =>
          simp only
          have hsplit := filter_split (isRefFor name) pending
          have := chainLoop_inv rej H valid fuel ((pending.filter (isRefFor name)).map fun e => ((e, some base), [name]))
            (pending.filter fun e => !isRefFor name e) acc
            (by simp only [List.length_map, nFull] at hf ⊢; omega)
            (by
              intro w hw
              simp only [List.mem_map, List.mem_filter] at hw
              obtain ⟨e, ⟨he, hr⟩, rfl⟩ := hw
              obtain ⟨eo, ek⟩ := e
              cases ek with
              | full _ _ => simp [isRefFor] at hr
              | ofs _ _ => trivial
              | ref _ _ => trivial)
            (by intro e he; exact hp e (List.mem_filter.mp he).1)
            ha
          simp only [List.length_map] at this
          obtain ⟨h1, h2, h3, hm, h4, h5⟩ := this
          refine ⟨h1, h2, h3, by omega, by omega, ?_⟩
          intro hn
          have := h5 hn
          omega
    simp only [runJobs]
    generalize hr : runJob rej H valid ext fuel j pending acc = r at hone
    obtain ⟨acc', pending', err⟩ := r
    simp only at hone
    obtain ⟨h1, h2, h3, hm, h4, h5⟩ := hone
    have hnf : nFull (j :: js) = nFull [j] + nFull js := by
      cases j <;> simp [nFull] <;> omega
    cases err with
    | some e =>
      simp only
      refine ⟨h1, h2, h3, hm, ?_, by intro h; cases h⟩
      rw [hnf]
      omega
    | none =>
      simp only
      have hlen := h5 rfl
      have hfuel : nFull js + pending'.length ≤ fuel := by
        rw [hnf] at hf
        omega
      have := ih pending' acc' hfuel (fun j' hj' => hj j' (List.mem_cons_of_mem _ hj')) h3 h2
      obtain ⟨g1, g2, g3, gm, g4, g5⟩ := this
      refine ⟨g1, g2, g3, by omega, ?_, ?_⟩
      · rw [hnf]; omega
      · intro hn; have := g5 hn; rw [hnf]; omega

theorem nFull_map_full (l : List Entry) : nFull (l.map Job.full) = l.length := by
  induction l with
  | nil => rfl
  | cons a l ih => simp [nFull, ih]

theorem nFull_map_ext (l : List Bytes) : nFull (l.map Job.ext) = 0 := by
  induction l with
  | nil => rfl
  | cons a l ih => simp [nFull, ih]

/-- Everything `resolveAll` guarantees, for EVERY list of entries (cyclic, self-referential, dangling, …). -/
theorem resolveAll_inv (rej : Bool) (H : Hash) (valid : Obj → Bool) (ext : Bytes → Option (Nat × Bytes)) (entries : List Entry) :
    (resolveAll rej H valid ext entries).status ≠ .failed .other ∧
    (∀ p ∈ (resolveAll rej H valid ext entries).chains, YieldOK rej H p) ∧
    (resolveAll rej H valid ext entries).chains.length ≤ entries.length ∧
    ((resolveAll rej H valid ext entries).status = .done → (resolveAll rej H valid ext entries).chains.length = entries.length) := by
  have hsplit := filter_split isFull entries
  have hjobs1 : ∀ j ∈ (entries.filter isFull).map Job.full, ∀ e, j = .full e → isFull e = true := by
    intro j hj e he
    simp only [List.mem_map, List.mem_filter] at hj
    obtain ⟨e', ⟨_, hf⟩, rfl⟩ := hj
    simp only [Job.full.injEq] at he
    subst he
    exact hf
  have h1 := runJobs_inv rej H valid ext entries.length ((entries.filter isFull).map Job.full)
    (entries.filter fun e => !isFull e) []
    (by rw [nFull_map_full]; omega) hjobs1
    (by intro e he; simpa using (List.mem_filter.mp he).2)
    (by intro o ho; simp at ho)
  rw [nFull_map_full] at h1
  simp only [List.length_nil, Nat.zero_add] at h1
  unfold resolveAll
  simp only
  generalize runJobs rej H valid ext entries.length ((entries.filter isFull).map Job.full)
    (entries.filter fun e => !isFull e) [] = r1 at h1
  obtain ⟨acc, pending, err⟩ := r1
  simp only at h1
  obtain ⟨a1, a2, a3, am, a4, a5⟩ := h1
  cases err with
  | some e =>
    simp only
    refine ⟨?_, a2, by omega, by intro h; cases h⟩
    intro hc
    simp only [Status.failed.injEq] at hc
    subst hc
    exact a1 rfl
  | none =>
    simp only
    have hlen := a5 rfl
    have h2 := runJobs_inv rej H valid ext entries.length ((refNames pending).map Job.ext) pending acc
      (by rw [nFull_map_ext]; omega)
      (by
        intro j hj e he
        simp only [List.mem_map] at hj
        obtain ⟨n, _, rfl⟩ := hj
        cases he)
      a3 a2
    rw [nFull_map_ext] at h2
    generalize runJobs rej H valid ext entries.length ((refNames pending).map Job.ext) pending acc = r2 at h2
    obtain ⟨acc', pending', err'⟩ := r2
    simp only at h2
    obtain ⟨b1, b2, b3, bm, b4, b5⟩ := h2
    cases err' with
    | some e =>
      simp only
      refine ⟨?_, b2, by omega, by intro h; cases h⟩
      intro hc
      simp only [Status.failed.injEq] at hc
      subst hc
      exact b1 rfl
    | none =>
      simp only
      have hlen' := b5 rfl
      split
      · refine ⟨by simp, b2, by show acc'.length ≤ _; omega, by intro h; cases h⟩
      · split
        · refine ⟨by simp, b2, by show acc'.length ≤ _; omega, by intro h; cases h⟩
        · rename_i _ hemp
          refine ⟨by simp, b2, by show acc'.length ≤ _; omega, ?_⟩
          intro _
          have : pending' = [] := by simpa using hemp
          subst this
          simp only [List.length_nil] at hlen'
          show acc'.length = _
          omega

/-- **ingested_objects_hash_to_name.**  Whatever the input bytes — damaged, crafted, cyclic — every object
forward chaining yields carries as its name the hash of `"<type> <len>\0" ++ data`, for an ARBITRARY hash `H`
(no property of SHA-1 is used).  REF deltas are only ever applied to a base that was yielded under the name
they ask for, or that the store holds under that name. -/
theorem ingested_objects_hash_to_name (rej : Bool) (H : Hash) (valid : Obj → Bool) (ext : Bytes → Option (Nat × Bytes))
    (entries : List Entry) : ∀ o ∈ (resolveAll rej H valid ext entries).objs, HashOK H o := by
  intro o ho
  simp only [ChainOut.objs, List.mem_map] at ho
  obtain ⟨p, hp, rfl⟩ := ho
  exact ((resolveAll_inv rej H valid ext entries).2.1 p hp).1

/-- **chain_iterator_terminates.**  For EVERY list of entries — self-references, cycles of REF deltas, OFS
deltas pointing anywhere, bases that do not exist — forward chaining ends within its budget of one step per
entry (the out-of-fuel outcome `.failed .other` is unreachable), yields each entry at most once, and ends
either with every entry resolved (`done` ⇒ as many objects as entries) or with an explicit report
(`unresolved names` = UnresolvedDeltas, `.failed e` = the error that stopped it). -/
theorem chain_iterator_terminates (rej : Bool) (H : Hash) (valid : Obj → Bool) (ext : Bytes → Option (Nat × Bytes))
    (entries : List Entry) :
    (resolveAll rej H valid ext entries).status ≠ .failed .other ∧
    (resolveAll rej H valid ext entries).objs.length ≤ entries.length ∧
    ((resolveAll rej H valid ext entries).status = .done → (resolveAll rej H valid ext entries).objs.length = entries.length) := by
  have h := resolveAll_inv rej H valid ext entries
  simp only [ChainOut.objs, List.length_map]
  exact ⟨h.1, h.2.2.1, h.2.2.2⟩

/-- **accepted_chains_never_return** (full since the fix).  In everything the object stores accept
(`reject_delta_cycles`), no object is named like an object of its own delta chain — neither like the entries it
is a delta against, directly or indirectly, nor like the external base its chain starts from.  Such a name is
what gives a pack two entries of one name of which one needs that very name to be resolved (lookups by name then
run in a circle: `F-C04-ref-delta-named-like-its-base`). -/
theorem accepted_chains_never_return (H : Hash) (valid : Obj → Bool) (ext : Bytes → Option (Nat × Bytes))
    (entries : List Entry) : ∀ p ∈ (resolveAll true H valid ext entries).chains, p.1.name ∉ p.2 := by
  intro p hp
  exact ((resolveAll_inv true H valid ext entries).2.1 p hp).2 rfl

/-! ### toy instantiation of the parameters (non-vacuity examples and `decide` witnesses) -/

/-- "zlib": one length byte `n`, then `n` bytes of output. -/
def toyInflate : Inflate
  | [] => none
  | n :: rest => if n.toNat ≤ rest.length then some (rest.take n.toNat, rest.drop n.toNat) else none

/-- "hash": twenty copies of one byte (0x3F = entry header "blob, 15 bytes"). -/
def toyH : Hash := fun _ => List.replicate 20 0x3F

def toyDeflate : Bytes → Bytes := fun d => UInt8.ofNat d.length :: d

example : InflateShrinks toyInflate := by
  intro i o r h
  cases i with
  | nil => simp [toyInflate] at h
  | cons n rest =>
    simp only [toyInflate] at h
    split at h
    · simp only [Option.some.injEq, Prod.mk.injEq] at h
      obtain ⟨_, rfl⟩ := h
      simp only [List.length_drop, List.length_cons]; omega
    · cases h

/-- A two-entry pack (blob "ab", OFS delta turning it into "abc") with its trailer: header, entries at offsets
12 and 16, 20 trailer bytes. -/
def toyPack : Bytes :=
  [80, 65, 67, 75, 0, 0, 0, 2, 0, 0, 0, 2,          -- PACK, version 2, 2 objects
   0x32, 2, 97, 98,                                  -- blob, size 2: "ab"
   0x66, 4, 6, 2, 3, 0x90, 2, 1, 99] ++              -- OFS_DELTA size 6, offset 4: src 2, dst 3, copy 0..2, insert "c"
  List.replicate 20 0x3F

example : (parsePackStream toyInflate toyH toyPack).toOption
    = some [⟨12, .full 3 [97, 98]⟩, ⟨16, .ofs 4 [2, 3, 0x90, 2, 1, 99]⟩] := by decide

/-- a "hash" that tells objects of different length apart (the constant `toyH` gives every object one name) -/
def lenH : Hash := fun b => List.replicate 20 (UInt8.ofNat b.length)

example : (resolveAll true lenH (fun _ => true) (fun _ => none)
      [⟨12, .full 3 [97, 98]⟩, ⟨16, .ofs 4 [2, 3, 0x90, 2, 1, 99]⟩]).status = .done ∧
    (resolveAll true lenH (fun _ => true) (fun _ => none)
      [⟨12, .full 3 [97, 98]⟩, ⟨16, .ofs 4 [2, 3, 0x90, 2, 1, 99]⟩]).objs.map (·.data) = [[97, 98], [97, 98, 99]] := by decide

/-- The attack of `F-C04-ref-delta-named-like-its-base` at the level of entries: the store holds X = "ab" (named
`lenH "blob 2\0ab"` = twenty 9s); the pack has a REF_DELTA against that name whose result is "ab" again (identity
delta: source 2, target 2, copy 0..2) and a new blob.  Refused with the delta error when the stores ask for it … -/
example : (resolveAll true lenH (fun _ => true) (fun n => if n = List.replicate 20 9 then some (3, [97, 98]) else none)
      [⟨12, .ref (List.replicate 20 9) [2, 2, 0x90, 2]⟩, ⟨40, .full 3 [120, 121, 122]⟩]).status = .failed .delta := by decide

/-- … and resolved under the name of its own base — twice that name in the completed pack — when they do not
(the code before the fix; `PackData.create_index` still). -/
theorem old_delta_named_like_its_base_accepted :
    (resolveAll false lenH (fun _ => true) (fun n => if n = List.replicate 20 9 then some (3, [97, 98]) else none)
      [⟨12, .ref (List.replicate 20 9) [2, 2, 0x90, 2]⟩, ⟨40, .full 3 [120, 121, 122]⟩]).status = .done ∧
    (resolveAll false lenH (fun _ => true) (fun n => if n = List.replicate 20 9 then some (3, [97, 98]) else none)
      [⟨12, .ref (List.replicate 20 9) [2, 2, 0x90, 2]⟩, ⟨40, .full 3 [120, 121, 122]⟩]).chains.any
        (fun p => p.2.contains p.1.name) = true := by decide

/-- A longer circle (X → Y → X through an external X) is refused as well. -/
example : (resolveAll true lenH (fun _ => true) (fun n => if n = List.replicate 20 9 then some (3, [97, 98]) else none)
      [⟨12, .ref (List.replicate 20 9) [2, 3, 0x90, 2, 1, 99]⟩, ⟨40, .ref (List.replicate 20 10) [3, 2, 0x90, 2]⟩]).status
    = .failed .delta := by decide

/-- Cycles and self-references in forward chaining: two REF deltas naming each other, one OFS delta whose
offset is its own position, one REF delta to a missing name — reported as unresolved, nothing yielded. -/
example : (resolveAll true toyH (fun _ => true) (fun _ => none)
      [⟨12, .ref [1] [0]⟩, ⟨40, .ref [2] [0]⟩, ⟨70, .ofs 0 [0]⟩, ⟨90, .ref [7] [0]⟩]).status
    = .unresolved [[1], [2], [7]] := by decide

/-! ## 3. random access (`Pack.get_raw`): terminates for every pack and every index -/

theorem resolveAt_app_ne_none {d : Bytes} {r : Option (Except Err (Nat × Bytes))} (h : r ≠ none) :
    (r.map fun x => match x with
      | .error e => Except.error e
      | .ok (ty, base) => match Delta.applyDelta base d with
        | .error _ => Except.error Err.delta
        | .ok data => (Except.ok (ty, data) : Except Err (Nat × Bytes))) ≠ none := by
  cases r with
  | none => exact absurd rfl h
  | some x => simp

/-- Offsets below `n` that are not yet on the chain: the termination measure of the walk. -/
def unvisited (n : Nat) (visited : List Nat) : List Nat := (List.range n).filter fun x => !visited.contains x

theorem filter_mono_length {α : Type} (p q : α → Bool) (h : ∀ x, p x = true → q x = true) (l : List α) :
    (l.filter p).length ≤ (l.filter q).length := by
  induction l with
  | nil => simp
  | cons a l ih =>
    simp only [List.filter_cons]
    by_cases hp : p a = true
    · simp only [hp, h a hp, if_true, List.length_cons]; omega
    · have : p a = false := by simpa using hp
      simp only [this, Bool.false_eq_true, if_false]
      split
      · simp only [List.length_cons]; omega
      · exact ih

theorem unvisited_shrinks (vis : List Nat) (x : Nat) (hx : x ∉ vis) : ∀ (l : List Nat), x ∈ l →
    (l.filter fun y => !(x :: vis).contains y).length < (l.filter fun y => !vis.contains y).length := by
  intro l
  induction l with
  | nil => intro h; simp at h
  | cons a l ih =>
    intro h
    simp only [List.filter_cons]
    by_cases hax : a = x
    · subst hax
      have h1 : (a :: vis).contains a = true := by simp
      have h2 : vis.contains a = false := by simpa using hx
      simp only [h1, h2, Bool.not_true, Bool.false_eq_true, if_false, Bool.not_false, if_true, List.length_cons]
      have := filter_mono_length (fun y => !(a :: vis).contains y) (fun y => !vis.contains y)
        (by
          intro y hy
          simp only [Bool.not_eq_true', List.contains_eq_mem, List.mem_cons, decide_eq_false_iff_not, not_or] at hy ⊢
          exact hy.2) l
      omega
    · have hin : x ∈ l := by
        rcases List.mem_cons.mp h with h | h
        · exact absurd h.symm hax
        · exact h
      have heq : (x :: vis).contains a = vis.contains a := by
        simp only [List.contains_eq_mem, List.mem_cons, hax, false_or]
      simp only [heq]
      have := ih hin
      split
      · simp only [List.length_cons]; omega
      · exact this

/-- Termination of the walk WITH the visited set, for any pack whose entries lie below `n`: every step either
ends the walk or puts a new offset `< n` on the chain. -/
theorem resolveAtC_visited_terminates (c : Cfg) (hc : c.visitedSet = true)
    (entryAt : Nat → Except Err Kind) (idx : Bytes → Option Nat) (ext : Bytes → Option (Nat × Bytes)) (n : Nat)
    (hb : ∀ off, n ≤ off → ∃ e, entryAt off = .error e) :
    ∀ (fuel : Nat) (visited : List Nat) (off : Nat), off ∉ visited → (unvisited n visited).length < fuel →
      resolveAtC c entryAt idx ext fuel visited off ≠ none := by
  intro fuel
  induction fuel with
  | zero => intro visited off _ h; omega
  | succ fuel ih =>
    intro visited off hoff hf
    simp only [resolveAtC, hc, if_true]
    -- when the entry at `off` exists, `off < n` and the measure drops
    have hdrop : ∀ k, entryAt off = .ok k → (unvisited n (off :: visited)).length < fuel := by
      intro k hk
      have hlt : off < n := by
        by_cases h : off < n
        · exact h
        · obtain ⟨e, he⟩ := hb off (by omega)
          rw [he] at hk; cases hk
      have := unvisited_shrinks visited off hoff (List.range n) (List.mem_range.mpr hlt)
      unfold unvisited at hf ⊢
      omega
    split
    · simp
    · simp
    · rename_i k d hk
      split
      · simp
      · split
        · simp
        · rename_i hnc
          exact resolveAt_app_ne_none (ih (off :: visited) (off - k)
            (by simpa using hnc) (hdrop _ hk))
    · rename_i name d hk
      split
      · rename_i o ho
        split
        · split <;> simp
        · split
          · simp
          · rename_i hnc
            have hnc' : o ∉ off :: visited := by
              simp only [Bool.or_eq_true, not_or] at hnc
              simpa using hnc.2
            exact resolveAt_app_ne_none (ih (off :: visited) o hnc' (hdrop _ hk))
      · split <;> simp

theorem entryAtOf_bounded (inflate : Inflate) (inp : Bytes) :
    ∀ off, inp.length ≤ off → ∃ e, entryAtOf inflate inp off = .error e := by
  intro off h
  unfold entryAtOf
  split
  · exact ⟨_, rfl⟩
  · have : inp.drop off = [] := List.drop_eq_nil_of_le h
    rw [this]
    simp [parseEntry, takeMsb, PErr.toErr]

/-- **random_access_terminates** (full, since the `fix:` series).  For EVERY byte string as the pack, EVERY
index (any map from names to offsets — entry boundaries or not, cyclic or not), every external-base lookup and
every starting offset, `Pack.get_raw` returns or raises within `len(pack) + 1` steps of its walk. -/
theorem random_access_terminates (inflate : Inflate) (inp : Bytes) (idx : Bytes → Option Nat)
    (ext : Bytes → Option (Nat × Bytes)) (off : Nat) :
    resolveAt (entryAtOf inflate inp) idx ext (inp.length + 1) off ≠ none := by
  unfold resolveAt
  apply resolveAtC_visited_terminates Cfg.current rfl _ _ _ inp.length (entryAtOf_bounded inflate inp)
  · simp
  · unfold unvisited
    have := List.length_filter_le (fun x => !([] : List Nat).contains x) (List.range inp.length)
    simp only [List.length_range] at this
    omega

/-- The two-entry REF cycle of finding F4: entry at 12 is based on the name the index puts at 53 and vice versa. -/
def cycleEntryAt : Nat → Except Err Kind := fun off =>
  if off = 12 then .ok (.ref [0xBB] [0]) else if off = 53 then .ok (.ref [0xAA] [0]) else .error .format

def cycleIdx : Bytes → Option Nat := fun n =>
  if n = [0xAA] then some 12 else if n = [0xBB] then some 53 else none

/-- Non-vacuity / regression: the cycle of F4 is now reported (UnresolvedDeltas) after two steps. -/
theorem ref_cycle_detected :
    (resolveAt cycleEntryAt cycleIdx (fun _ => none) 3 12).map Except.toOption = some none ∧
    (resolveAt cycleEntryAt cycleIdx (fun _ => none) 3 12).isSome = true := by decide

/-- Non-vacuity: a chain REF → OFS → full resolves. -/
example :
    let entryAt : Nat → Except Err Kind := fun off =>
      if off = 12 then .ok (.full 3 [97, 98]) else if off = 16 then .ok (.ofs 4 [2, 3, 0x90, 2, 1, 99])
      else if off = 30 then .ok (.ref [5] [3, 3, 0x90, 3]) else .error .format
    let idx : Bytes → Option Nat := fun n => if n = [5] then some 16 else none
    (resolveAt entryAt idx (fun _ => none) 31 30).map Except.toOption = some (some (3, [97, 98, 99])) := by decide

/-! ### the walk before the series (`Cfg.old`: no visited set) — regression witnesses -/

/-- What could be proved of the OLD walk: termination only if every delta's base lies strictly before it. -/
theorem old_random_access_terminates_partial (entryAt : Nat → Except Err Kind) (idx : Bytes → Option Nat)
    (ext : Bytes → Option (Nat × Bytes))
    (hofs : ∀ off k d, entryAt off = .ok (.ofs k d) → 1 ≤ k)
    (href : ∀ off name d o, entryAt off = .ok (.ref name d) → idx name = some o → o < off) :
    ∀ (off fuel : Nat) (visited : List Nat), off < fuel → resolveAtC Cfg.old entryAt idx ext fuel visited off ≠ none := by
  intro off
  induction off using Nat.strongRecOn with
  | _ off ih =>
    intro fuel visited hf
    cases fuel with
    | zero => omega
    | succ fuel =>
      simp only [resolveAtC, Cfg.old, Bool.false_eq_true, if_false, List.contains_nil, Bool.or_false]
      split
      · simp
      · simp
      · rename_i k d hk
        split
        · simp
        · have hk1 := hofs off k d hk
          exact resolveAt_app_ne_none (ih (off - k) (by omega) fuel [] (by omega))
      · rename_i name d hk
        split
        · rename_i o ho
          have hlt := href off name d o hk ho
          split
          · split <;> simp
          · split
            · simp
            · exact resolveAt_app_ne_none (ih o hlt fuel [] (by omega))
        · split <;> simp

/-- **old_ref_cycle_counterexample** (F4 as it was: `Pack.get_raw` killed by the time limit).  With ANY amount of
fuel the old walk is still running on the two-entry REF cycle. -/
theorem old_ref_cycle_counterexample :
    ∀ fuel vis, resolveAtC Cfg.old cycleEntryAt cycleIdx (fun _ => none) fuel vis 12 = none ∧
                resolveAtC Cfg.old cycleEntryAt cycleIdx (fun _ => none) fuel vis 53 = none := by
  intro fuel
  induction fuel with
  | zero => intro vis; exact ⟨rfl, rfl⟩
  | succ fuel ih =>
    intro vis
    have hs : Gen.Ingest.selfRefChecked = true := rfl
    have hv : Cfg.old.visitedSet = false := rfl
    constructor
    · simp [resolveAtC, hv, cycleEntryAt, cycleIdx, hs, (ih []).2]
    · simp [resolveAtC, hv, cycleEntryAt, cycleIdx, hs, (ih []).1]

/-- Why `_decode_delta_base_offset` had to reject 0 (`parse_ofs_pos`): in the old walk an OFS delta with offset 0
is its own base and the walk never ends.  (With the visited set it is reported as a cycle.) -/
theorem old_ofs_zero_would_loop (entryAt : Nat → Except Err Kind) (idx : Bytes → Option Nat)
    (ext : Bytes → Option (Nat × Bytes)) (off : Nat) (d : Bytes) (h : entryAt off = .ok (.ofs 0 d)) :
    ∀ fuel vis, resolveAtC Cfg.old entryAt idx ext fuel vis off = none := by
  intro fuel
  induction fuel with
  | zero => intro vis; rfl
  | succ fuel ih =>
    intro vis
    have hv : Cfg.old.visitedSet = false := rfl
    simp [resolveAtC, hv, h, ih []]

/-! ## 4. a failed ingest is invisible -/

def StoreOK (H : Hash) (s : Store) : Prop := ∀ o ∈ s, HashOK H o

/-- The property's second sentence for an ingest function. -/
def failed_ingest_invisible_Statement (ingest : Store → Bytes → Store × Option Err) : Prop :=
  ∀ s inp e, (ingest s inp).2 = some e → (ingest s inp).1 = s

theorem diskFirstPass_objs {c : Cfg} {inflate : Inflate} {H : Hash} {p : Path} {s : Store} {inp file : Bytes}
    {objs : List Obj} {bases : List (Nat × Bytes)}
    (h : diskFirstPass c inflate H p s inp = .ok (some (file, objs, bases))) : ∀ o ∈ objs, HashOK H o := by
  unfold diskFirstPass at h
  simp only at h
  split at h
  · cases h
  · split at h
    · cases h
    · split at h
      · cases h
      · rename_i entries _ _
        split at h
        · simp only [Except.ok.injEq, Option.some.injEq, Prod.mk.injEq] at h
          obtain ⟨_, rfl, _⟩ := h
          exact ingested_objects_hash_to_name _ H _ _ entries
        · cases h

/-- **Stored objects hash to their names (disk).**  Whatever bytes are ingested through either path, and
whether the ingest succeeds or fails, before or after the series, every object visible afterwards is stored
under the hash of its header ++ data. -/
theorem disk_store_names_are_hashes (c : Cfg) (inflate : Inflate) (H : Hash) (deflate : Bytes → Bytes) (valid : Obj → Bool)
    (p : Path) (s : Store) (inp : Bytes) (hs : StoreOK H s) :
    StoreOK H (ingestDiskC c inflate H deflate valid p s inp).1 := by
  unfold ingestDiskC
  split
  · exact hs
  · exact hs
  · rename_i file objs bases hfp
    have hobjs := diskFirstPass_objs hfp
    have happ : StoreOK H (s ++ objs) := by
      intro o ho
      rcases List.mem_append.mp ho with h | h
      · exact hs o h
      · exact hobjs o h
    unfold completePack
    split
    · split
      · exact hs
      · exact happ
    · exact hs
    · split
      · exact happ
      · exact hs

/-- The same for the memory store. -/
theorem mem_store_names_are_hashes (c : Cfg) (inflate : Inflate) (H : Hash) (valid : Obj → Bool)
    (p : Path) (s : Store) (inp : Bytes) (hs : StoreOK H s) :
    StoreOK H (ingestMemC c inflate H valid p s inp).1 := by
  have happ : ∀ entries, StoreOK H (s ++ (resolveAll c.rejectDeltaCycles H valid s.lookup entries).objs) := by
    intro entries o ho
    rcases List.mem_append.mp ho with h | h
    · exact hs o h
    · exact ingested_objects_hash_to_name _ H valid s.lookup entries o h
  unfold ingestMemC
  simp only
  split
  · exact hs
  · split
    · exact hs
    · split
      · exact hs
      · split
        · exact happ _
        · split
          · exact happ _
          · exact hs

/-- **failed_ingest_invisible (disk), full since the series.**  Through either path, whatever the bytes: an
ingest that fails — at framing, at the trailer, at delta resolution, at the validation of the installed pack —
returns the store it was given. -/
theorem failed_ingest_invisible_disk (inflate : Inflate) (H : Hash) (deflate : Bytes → Bytes) (valid : Obj → Bool)
    (p : Path) : failed_ingest_invisible_Statement (ingestDisk inflate H deflate valid p) := by
  intro s inp e h
  have hg : Cfg.current.rollbackCloseGuarded = true := rfl
  unfold ingestDisk ingestDiskC at h ⊢
  split
  · rfl
  · rfl
  · rename_i file objs bases hfp
    simp only [hfp] at h
    unfold completePack at h ⊢
    split
    · simp only [hg, if_true]
    · rfl
    · rename_i es r hz
      simp only [hz] at h
      split
      · rename_i hd
        simp only [hd] at h
        cases h
      · rfl

/-- **failed_ingest_invisible (memory), full since the series.** -/
theorem failed_ingest_invisible_mem (inflate : Inflate) (H : Hash) (valid : Obj → Bool) (p : Path) :
    failed_ingest_invisible_Statement (ingestMem inflate H valid p) := by
  intro s inp e
  have hg : Cfg.current.memAddsIncrementally = false := rfl
  unfold ingestMem ingestMemC
  simp only [hg, Bool.false_eq_true, if_false]
  split
  · intro _; rfl
  · split
    · intro _; rfl
    · split
      · intro _; rfl
      · split
        · intro h; cases h
        · intro _; rfl

/-- **failed_ingest_restores_prestate.**  For ARBITRARY overlap between the ids of the pack and the ids the store
already holds — copies before and after the offending entry, as full objects or as deltas resolving to existing
ids — a refused ingest returns the very store it was given: same ids, same objects, same order; nothing of the
pre-state is "rolled back" away.  (Both stores, both paths; the store is an arbitrary list, the pack arbitrary
bytes.) -/
theorem failed_ingest_restores_prestate (inflate : Inflate) (H : Hash) (deflate : Bytes → Bytes) (valid : Obj → Bool)
    (p : Path) (s : Store) (inp : Bytes) (e : Err) :
    ((ingestMem inflate H valid p s inp).2 = some e → (ingestMem inflate H valid p s inp).1 = s) ∧
    ((ingestDisk inflate H deflate valid p s inp).2 = some e → (ingestDisk inflate H deflate valid p s inp).1 = s) :=
  ⟨failed_ingest_invisible_mem inflate H valid p s inp e, failed_ingest_invisible_disk inflate H deflate valid p s inp e⟩

/-- What a refusal implemented as "add while resolving, on failure remove the ids of the pack" would do:
it also removes what the store held before under one of those ids. -/
def rollbackByRemoval (s : Store) (added : List Obj) : Store :=
  (s ++ added).filter fun o => !(added.any fun a => a.name == o.name)

/-- … which is NOT the pre-state as soon as the pack carries a copy of an object of the store (`decide`). -/
theorem rollback_by_removal_loses_prestate :
    let x : Obj := ⟨[1], 3, [97]⟩
    let w : Obj := ⟨[2], 3, [98]⟩
    rollbackByRemoval [x, w] [x] = [w] ∧ rollbackByRemoval [x, w] [x] ≠ [x, w] := by decide

/-- Non-vacuity: a pack with a wrong trailer fails (checksum) through the thin path and leaves the store as it was. -/
example : ingestDisk toyInflate toyH toyDeflate (fun _ => true) .thin [] (toyPack.take 30 ++ List.replicate 15 0)
    = ([], some .checksum) := by decide

/-- A pack whose trailer lost 17 of its 20 bytes, fed through `add_pack().commit`: 32 bytes — header, one
15-byte blob, 3 trailer bytes. -/
def truncatedTrailerPack : Bytes :=
  [80, 65, 67, 75, 0, 0, 0, 2, 0, 0, 0, 1, 0x3F, 15] ++ List.replicate 15 97 ++ [9, 9, 9]

/-- Since the series `commit()` verifies the trailer: rejected with ChecksumMismatch, nothing installed. -/
example : ingestDisk toyInflate toyH toyDeflate (fun _ => true) .addPack [] truncatedTrailerPack
    = ([], some .checksum) := by decide

/-- **old_rollback_skipped_counterexample** (the defect as it was, reproduced on the real code then).
`extend_pack` wrote the new trailer over the last 20 bytes of the file — the end of the blob — the validation of
the installed pack failed inside zlib, `final_pack.close()` raised BufferError and the `os.remove` calls were
skipped: the ingest FAILED and the blob was visible afterwards. -/
theorem old_rollback_skipped_counterexample :
    (ingestDiskC Cfg.old toyInflate toyH toyDeflate (fun _ => true) .addPack [] truncatedTrailerPack).2 = some .other ∧
    (ingestDiskC Cfg.old toyInflate toyH toyDeflate (fun _ => true) .addPack [] truncatedTrailerPack).1.map (·.data)
      = [List.replicate 15 97] := by decide

theorem old_failed_ingest_invisible_disk_false :
    ¬ failed_ingest_invisible_Statement (ingestDiskC Cfg.old toyInflate toyH toyDeflate (fun _ => true) .addPack) := by
  intro h
  have := h [] truncatedTrailerPack .other old_rollback_skipped_counterexample.1
  have h2 := old_rollback_skipped_counterexample.2
  rw [this] at h2
  simp at h2

/-- The rollback alone (without the trailer check of `commit()`) already repairs it: with the old `commit()` and
the guarded handler the same input fails and leaves nothing. -/
example : ingestDiskC { Cfg.old with rollbackCloseGuarded := true } toyInflate toyH toyDeflate (fun _ => true) .addPack []
    truncatedTrailerPack = ([], some .format) := by decide

/-- A blob followed by a REF delta whose base exists nowhere, with a correct trailer. -/
def blobThenMissingRef : Bytes :=
  [80, 65, 67, 75, 0, 0, 0, 2, 0, 0, 0, 2, 0x32, 2, 97, 98, 0x71] ++ List.replicate 20 0x11 ++ [1, 0] ++
  List.replicate 20 0x3F

/-- Now: UnresolvedDeltas, and the store is as it was — memory and disk alike. -/
example : ingestMem toyInflate toyH (fun _ => true) .addPack [] blobThenMissingRef = ([], some .key) := by decide
example : ingestDisk toyInflate toyH toyDeflate (fun _ => true) .addPack [] blobThenMissingRef = ([], some .key) := by decide

/-- **old_mem_partial_ingest_counterexample** (the defect as it was).  `MemoryObjectStore` added objects while the
inflater was drained: the ingest FAILED (UnresolvedDeltas) and the blob yielded before the failure stayed. -/
theorem old_mem_partial_ingest_counterexample :
    (ingestMemC Cfg.old toyInflate toyH (fun _ => true) .addPack [] blobThenMissingRef).2 = some .key ∧
    (ingestMemC Cfg.old toyInflate toyH (fun _ => true) .addPack [] blobThenMissingRef).1.map (·.data) = [[97, 98]] := by decide

theorem old_failed_ingest_invisible_mem_false :
    ¬ failed_ingest_invisible_Statement (ingestMemC Cfg.old toyInflate toyH (fun _ => true) .addPack) := by
  intro h
  have := h [] blobThenMissingRef .key old_mem_partial_ingest_counterexample.1
  have h2 := old_mem_partial_ingest_counterexample.2
  rw [this] at h2
  simp at h2

/-- Non-vacuity of the overlap: the store holds "ab"; the pack carries a copy of it before a REF delta whose base
exists nowhere.  Refused, and the store is exactly what it was. -/
example :
    (ingestMem toyInflate toyH (fun _ => true) .addPack [⟨List.replicate 20 0x3F, 3, [97, 98]⟩] blobThenMissingRef)
      = ([⟨List.replicate 20 0x3F, 3, [97, 98]⟩], some .key) := by decide

/-! ## 5. the file-system steps of the disk paths (generated flags decide which steps exist) -/

def allPrefixes (ops : List FsOp) : List (List FsOp) := (List.range (ops.length + 1)).map ops.take

def allProgramsOf (c : Cfg) : List (List FsOp) :=
  [diskProgramC c .thin .never, diskProgramC c .thin .copy, diskProgramC c .thin .validate, diskProgramC c .thin .validateZlib,
   diskProgramC c .addPack .never, diskProgramC c .addPack .copy, diskProgramC c .addPack .validate,
   diskProgramC c .addPack .validateZlib, abortProgram]

/-- **No partially written pack is ever used.**  In every crash state (every prefix of every program of either
path, successful or failing, before and after the series) the new pack is visible — `.pack` and `.idx` both
present — only when the pack file is complete: it is renamed into place after the last write and the index
appears by one atomic rename. -/
theorem fs_visible_only_when_complete :
    (allProgramsOf Cfg.current ++ allProgramsOf Cfg.old).all (fun prog => (allPrefixes prog).all fun pre =>
      let fs := runOps {} pre
      !fs.visible || fs.packComplete) = true := by decide

/-- A successful ingest becomes visible by exactly one step — the rename of the index lock file (step 5). -/
theorem fs_success_atomic :
    [diskProgram .thin .never, diskProgram .addPack .never].all (fun prog =>
      (List.range 5).all (fun n => !(runOps {} (prog.take n)).visible) && (runOps {} (prog.take 5)).visible &&
      (runOps {} prog).visible && prog.length == 5) = true := by decide

/-- **Every failing ingest ends with NOTHING left** (since the series): whichever path, wherever it fails —
while copying/indexing, at a validation error, at a zlib error inside the installed pack — the files the ingest
created (temp file, pack, index lock, index) are all gone; so is the temp file of an aborted `add_pack`. -/
theorem fs_failed_ingest_leaves_nothing :
    [diskProgram .thin .copy, diskProgram .thin .validate, diskProgram .thin .validateZlib,
     diskProgram .addPack .copy, diskProgram .addPack .validate, diskProgram .addPack .validateZlib,
     abortProgram].all (fun prog => runOps {} prog == {}) = true := by decide

/-- **visible_before_validation_witness** (F13, still present).  The pack of an ingest that FAILS its post-install
validation is visible in the crash state after the index rename (prefix of length 5), before the rollback. -/
theorem visible_before_validation_witness :
    (runOps {} ((diskProgram .thin .validate).take 5)).visible = true ∧
    (runOps {} ((diskProgram .addPack .validate).take 5)).visible = true := by decide

/-- Regression witnesses for the code before the series: the rollback that `final_pack.close()` cut short ended
VISIBLE, and failed `add_thin_pack` / `add_pack().commit` kept their temp file. -/
theorem old_fs_rollback_skipped_witness :
    (runOps {} (diskProgramC Cfg.old .addPack .validateZlib)).visible = true ∧
    (runOps {} (diskProgramC Cfg.old .thin .validateZlib)).visible = true := by decide

theorem old_fs_tmp_leak_witness :
    (runOps {} (diskProgramC Cfg.old .thin .copy)).tmp = true ∧ (runOps {} (diskProgramC Cfg.old .addPack .copy)).tmp = true := by decide

/-! ## 5a. a fault at any step -/

/-- **failed_ingest_invisible_any_fault.**  Take the ingest program with the index write under its `removesPack` handler
and no reachable unguarded step between installation and validation (what the translator establishes:
`Gen.idxWriteGuarded`, `Gen.unguardedCallsAfterInstall = 0`, `Gen.ingestPassesRefs = false`), and a rollback that
attempts every removal on its own.  Then for EVERY step `k` at which a call raises (OSError or an interrupt alike),
and EVERY removal `j` of the rollback that a second fault may hit, the new pack is not visible afterwards — whatever
the order of the removals. -/
theorem failed_ingest_invisible_any_fault :
    [true, false].all (fun idxFirst => [true, false].all fun cleanupTmp =>
      (List.range (ingestSteps true false).length).all fun k =>
        [none, some 0, some 1].all fun j =>
          !(faultRun (ingestSteps true false) cleanupTmp idxFirst true k j).visible) = true := by decide

/-- … and with the temp file removed by the caller nothing at all is left when no second fault interferes. -/
theorem failed_ingest_any_fault_leaves_nothing :
    (List.range (ingestSteps true false).length).all (fun k =>
      [true, false].all fun idxFirst => faultRun (ingestSteps true false) true idxFirst true k none == {}) = true := by decide

/-- The code that exists satisfies the structural hypotheses (regenerated every run): moving a call out of the
handlers, or passing `refs` from an ingestion path (which makes the unguarded bitmap block reachable), breaks this. -/
theorem complete_pack_structure :
    Gen.Ingest.idxWriteGuarded = true ∧ Gen.Ingest.unguardedCallsAfterInstall = 0 ∧ Gen.Ingest.ingestPassesRefs = false := by
  decide

/-- **rollback_cut_short_counterexample** (the handler as it is before the fix: pack first, and the first removal that
fails ends the rollback): a fault at the removal of the pack leaves pack AND index — the rejected pack stays visible. -/
theorem rollback_cut_short_counterexample :
    (faultRun (ingestSteps true false) true false false 5 (some 0)).visible = true ∧
    (faultRun (ingestSteps true false) true false false 6 (some 0)).visible = true := by decide

/-- An unguarded step between installation and validation (the bitmap block, were it reachable) would do the same. -/
theorem unguarded_step_after_install_counterexample :
    (faultRun (ingestSteps true true) true true true 5 none).visible = true := by decide

/-! ## 5b. a caching reader contains a failed read (`DiskRefsContainer.get_packed_refs`) -/

/-- The cache invariant: a cache that carries the key of the file on disk is a COMPLETE parse of that file. -/
def CacheOK (file : Option RFile) (c : RCache) : Prop :=
  ∀ r k f, c.refs = some r → c.key = some k → file = some f → f.key = k → f.err = none ∧ r = f.parsed

theorem cache_empty_ok (file : Option RFile) : CacheOK file RCache.empty := by
  intro r k f h; simp [RCache.empty] at h

/-- **A failed read records no key**: whatever the cache held before, after `get_packed_refs` raised the cache
carries no validity key (depends on the statement order the translator found: `packedRefsKeyAfterParse`). -/
theorem failed_read_records_no_key (file : Option RFile) (c : RCache) (e : Err)
    (h : (getPackedNow file c).1 = .error e) : (getPackedNow file c).2.key = none := by
  have hk : Gen.Ingest.packedRefsKeyAfterParse = true := rfl
  unfold getPackedNow getPacked at h ⊢
  simp only [hk, if_true] at h ⊢
  split
  · rename_i r hr; simp only [hr] at h; cases h
  · rename_i hr
    simp only [hr] at h
    split
    · rename_i hf; simp only at h; cases h
    · split
      · rfl
      · rename_i hf he; simp only [he] at h; cases h

/-- The invariant is kept by every read, failed or not, for the file that was read. -/
theorem getPacked_keeps_CacheOK (file : Option RFile) (c : RCache) (hc : CacheOK file c) :
    CacheOK file (getPackedNow file c).2 := by
  have hk : Gen.Ingest.packedRefsKeyAfterParse = true := rfl
  unfold getPackedNow getPacked
  simp only [hk, if_true]
  split
  · rename_i r hr
    split at hr
    · simp [RCache.empty] at hr
    · split <;> first | exact cache_empty_ok file | exact hc
  · rename_i hr
    split
    · intro r k f _ h2; simp at h2
    · rename_i f
      split
      · intro r k f' _ h2; simp at h2
      · rename_i he
        intro r k f' h1 h2 h3 h4
        simp only [Option.some.injEq] at h1 h3
        subst h3
        exact ⟨he, h1.symm⟩

/-- **damaged_file_always_raises**: through a container whose cache satisfies the invariant — in particular any
container that has only ever read (`getPacked_keeps_CacheOK`), however often the reads failed — a file whose
parse stops at a bad line is NEVER answered from a cache: every `get_packed_refs` raises again.  No silent
subset. -/
theorem damaged_file_always_raises (f : RFile) (c : RCache) (e : Err) (hc : CacheOK (some f) c) (he : f.err = some e) :
    (getPackedNow (some f) c).1 = .error e := by
  unfold getPackedNow getPacked
  simp only
  split
  · rename_i r hr
    split at hr
    · simp [RCache.empty] at hr
    · rename_i hcond
      -- the cache is kept, so its key is the file's key: it would have to be a complete parse
      exfalso
      have hkey : c.key = some f.key := by
        cases hk : c.key with
        | none => simp [hr, hk] at hcond
        | some k =>
          simp only [hr, hk, Option.isSome_some, Bool.true_and, Option.map_some] at hcond
          simpa using hcond
      have := (hc r f.key f hr hkey rfl rfl).1
      rw [he] at this; cases this
  · simp [he]

/-- **read_after_failed_read_is_a_fresh_read**: after a read that raised, the next read of whatever file is then
on disk gives exactly what a brand-new container gives — result and cache. -/
theorem read_after_failed_read_is_a_fresh_read (file : Option RFile) (c : RCache) (e : Err)
    (h : (getPackedNow file c).1 = .error e) (f' : RFile) :
    getPackedNow (some f') (getPackedNow file c).2 = getPackedNow (some f') RCache.empty := by
  have hkey := failed_read_records_no_key file c e h
  generalize (getPackedNow file c).2 = c' at hkey
  unfold getPackedNow getPacked
  cases hr : c'.refs with
  | none => simp [hr, RCache.empty]
  | some r => simp [hkey, RCache.empty]

/-- **damage_not_laundered**: a rewrite (add_packed_refs, removal of a packed ref, pack_refs) through such a
container raises on a damaged file and leaves the file exactly as it was — it cannot turn the parseable prefix
into a clean file that has lost the refs behind the damage. -/
theorem damage_not_laundered (f : RFile) (c : RCache) (e : Err) (hc : CacheOK (some f) c) (he : f.err = some e)
    (newKey : Nat) (upd : List RefEntry → List RefEntry) :
    rewritePackedNow (some f) c newKey upd = (.error e, some f, RCache.empty) := by
  have := damaged_file_always_raises f c e hc he
  unfold getPackedNow at this
  unfold rewritePackedNow rewritePacked
  simp [this]

/-- Non-vacuity: a container reads an intact file, the file is replaced by a damaged one, reads and a rewrite
fail, the damaged file is untouched, and after repair the container answers like a new one. -/
example :
    let e : RefEntry := ⟨[1], [2], none⟩
    let good : RFile := ⟨[e, e], none, 7⟩
    let bad : RFile := ⟨[e], some .format, 8⟩
    let c1 := (getPackedNow (some good) RCache.empty).2
    (getPackedNow (some good) RCache.empty).1.toOption = some [e, e] ∧
    (getPackedNow (some bad) c1).1.toOption = none ∧
    (getPackedNow (some bad) (getPackedNow (some bad) c1).2).1.toOption = none ∧
    (rewritePackedNow (some bad) (getPackedNow (some bad) c1).2 9 id).2.1 = some bad ∧
    (getPackedNow (some good) (getPackedNow (some bad) c1).2).1.toOption = some [e, e] := by decide

/-- **key_before_parse_counterexample**: if the key were recorded BEFORE the parse loop (`keyAfterParse = false`),
the read after a failed read would silently answer with the parsed prefix, and a rewrite would launder it into a
clean file without the refs behind the damage. -/
theorem key_before_parse_counterexample :
    let e1 : RefEntry := ⟨[1], [2], none⟩
    let bad : RFile := ⟨[e1], some .format, 8⟩
    let c1 := (getPacked false (some bad) RCache.empty).2
    (getPacked false (some bad) RCache.empty).1.toOption = none ∧
    (getPacked false (some bad) c1).1.toOption = some [e1] ∧
    (rewritePacked false (some bad) c1 9 id).2.1 = some ⟨[e1], none, 9⟩ := by decide

/-! ## 6. guards the model relies on are present in the source (regenerated every run) -/

/-- The per-entry inflate is capped at declared size + 1 and the result must have exactly the declared size
(`read_zlib_chunks(_at)`); the stream trailer is compared; REF self-reference is checked in random access. -/
theorem guards_present :
    Gen.Ingest.zlibBounded = true ∧ Gen.Ingest.zlibSizeChecked = true ∧ Gen.Ingest.trailerVerified = true ∧
    Gen.Ingest.ofsZeroRejected = true ∧ Gen.Ingest.selfRefChecked = true ∧ Gen.Ingest.memChecksTrailer = true ∧
    Gen.Ingest.rollbackRemovesPack = true ∧ Gen.Ingest.rollbackRemovesIdx = true ∧ Gen.Ingest.abortRemovesTmp = true ∧
    Gen.Ingest.memCommitDeletes = false ∧ Gen.Ingest.packedRefsKeyAfterParse = true ∧ Gen.Ingest.packedRefsStaleChecked = true ∧
    Gen.Ingest.packedRefsRewriteInvalidates = true ∧
    Cfg.current = ⟨true, true, true, false, (true, true), true⟩ := by
  decide

end Dulwich.Props.C04
