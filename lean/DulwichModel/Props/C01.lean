/-
  C01 — Object names are content hashes; serialisation is lossless and git-identical.

  Only property theorems, non-vacuity examples and negation witnesses live here; helper lemmas are in
  Lemmas/Objects*.lean.  The model is Model/Objects*.lean; its constants (header names and order, type
  table, separators, format widths, timezone arithmetic, the table of public setters and what each does
  to the cache flags) come from Gen/Objects.lean, regenerated from /repo on every run.
-/
import DulwichModel.Lemmas.ObjectsCache
import DulwichModel.Lemmas.ObjectsText
import DulwichModel.Lemmas.ObjectsTree
import DulwichModel.Lemmas.ObjectsCommit

namespace Dulwich.Props.C01
open Dulwich Dulwich.Objects

/-! ## 1. The id is the hash of header ++ content after any sequence of setter calls -/

section cache
variable {F : Type}

/-- **Invariant over histories, any class, any flag-touching setters.**  Start from any state satisfying
the invariant (a fresh object does), apply any sequence of public setters of kind ≠ 0, `set_raw_string`,
`id` and `as_raw_string()` calls: `id` then returns `H (object_header ++ content)` where content is what
`as_raw_string()` returns.  `H` is an arbitrary function (SHA-1, SHA-256, anything). -/
theorem id_is_hash_of_invalidating (H : Bytes → Bytes) (C : Cls F) (hA : AliasClass C) (s0 : St F) (h0 : Inv H C s0)
    (ops : List (Op F)) (hops : ∀ op ∈ ops, op.invalidating) :
    (shaStep H C (run H C s0 ops)).1 = (content C (run H C s0 ops)).bind (nameOf H C) :=
  shaStep_fst H C _ (run_inv H C hA ops s0 hops h0)

/-- Tie to the source: **every** public setter the translator found in `Blob`, `Tree`, `Commit`, `Tag`
touches the cache (marks dirty, goes through `set_raw_string`, or drops the cached id). -/
theorem setters_invalidate : ∀ e ∈ OGen.setters, e.2.2 ≠ 0 := by decide

/-- **`id_is_hash_always`, in full, over the real setter table.**  For every class and every history whose
setter steps have a kind that occurs in the translator's table (i.e. are setters the code has), the id
is the hash of header ++ content.  (Before commit 714a12f this was false: `Blob.chunked` had kind 0.) -/
theorem id_is_hash_always (H : Bytes → Bytes) (C : Cls F) (hA : AliasClass C) (s0 : St F) (h0 : Inv H C s0)
    (ops : List (Op F))
    (hops : ∀ op ∈ ops, match op with
      | .set k _ => k ∈ OGen.setters.map (·.2.2)
      | _ => True) :
    (shaStep H C (run H C s0 ops)).1 = (content C (run H C s0 ops)).bind (nameOf H C) := by
  apply id_is_hash_of_invalidating H C hA s0 h0 ops
  intro op hop
  have := hops op hop
  cases op with
  | set k u =>
    simp only [List.mem_map] at this
    obtain ⟨e, he, hk⟩ := this
    simp only [Op.invalidating]
    rw [← hk]
    exact setters_invalidate e he
  | setRaw b => trivial
  | getId => trivial
  | asRaw => trivial

/-- The content follows the fields: right after a dirty-marking setter (every `serializable_property`,
`Commit.parents`, `Tag.object`, `Tree.add/__setitem__/__delitem__`), and after any number of reads, the
content is the serialisation of the *new* field values. -/
theorem content_tracks_fields (H : Bytes → Bytes) (C : Cls F) (s : St F) (u : F → F)
    (reads : List (Op F)) (hr : ∀ op ∈ reads, op.isRead) :
    content C (run H C (setStep C 1 u s) reads) = C.ser (u s.fields) := by
  rw [(run_reads H C reads _ hr).1]
  simp [content, setStep]

/-- After `set_raw_string(b)` (when `_deserialize` accepts `b`) the content is `b`, also after reads. -/
theorem content_after_setRaw (H : Bytes → Bytes) (C : Cls F) (s : St F) (b : Bytes)
    (hd : (C.deser s.fields b).isSome) (reads : List (Op F)) (hr : ∀ op ∈ reads, op.isRead) :
    content C (run H C (setRawStep C b s) reads) = some b := by
  rw [(run_reads H C reads _ hr).1]
  unfold setRawStep
  split
  · simp [content]
  · rename_i h; simp [h] at hd

/-- **Corollary (the statement of the property).**  After any admissible history, one more setter
`u` and any reads, the id is the hash of header ++ serialisation of the current field values. -/
theorem id_after_edit (H : Bytes → Bytes) (C : Cls F) (hA : AliasClass C) (s0 : St F) (h0 : Inv H C s0)
    (ops : List (Op F)) (hops : ∀ op ∈ ops, op.invalidating) (u : F → F)
    (reads : List (Op F)) (hr : ∀ op ∈ reads, op.isRead) :
    let s := run H C s0 ops
    (shaStep H C (run H C (setStep C 1 u s) reads)).1 = (C.ser (u s.fields)).bind (nameOf H C) := by
  intro s
  have hs : Inv H C s := run_inv H C hA ops s0 hops h0
  have h1 : Inv H C (setStep C 1 u s) := setStep_inv H C hA 1 u s (by decide) hs
  have h2 := run_inv H C hA reads _ (fun op h => isRead_invalidating (hr op h)) h1
  rw [shaStep_fst H C _ h2, content_tracks_fields H C s u reads hr]

/-- Fresh objects satisfy the invariant. -/
theorem fresh_inv (H : Bytes → Bytes) (C : Cls F) (hna : C.alias = false) (f : F) : Inv H C (freshInit f) :=
  ⟨fun hn => by simp [freshInit] at hn, fun ha => by simp [hna] at ha⟩

theorem blob_inv (H : Bytes → Bytes) : Inv H blobCls blobInit :=
  ⟨fun _ d hd => by simp [blobInit] at hd, fun _ => rfl⟩

theorem blob_aliasClass : AliasClass blobCls := fun _ _ b => ⟨b, rfl, rfl⟩

/-- `Blob.chunked` is in the table with kind 3: it assigns `_chunked_text` and drops the cached id. -/
theorem blob_chunked_kind : setterKind "Blob" "chunked" = some 3 := by decide

/-- Non-vacuity: the table is not empty and contains the setters the property talks about. -/
example : setterKind "Commit" "author" = some 1 ∧ setterKind "Tag" "object" = some 1 ∧
    setterKind "Tree" "add" = some 1 ∧ setterKind "Blob" "data" = some 2 ∧ OGen.setters.length = 24 := by decide

/-- **Blob, in full**: after any history of `data = …`, `chunked = …`, `set_raw_string`, `id`,
`as_raw_string()` on a `Blob()`, the id is the hash of `blob <len>\0` ++ the current content. -/
theorem blob_id_is_hash_always (H : Bytes → Bytes) (ops : List (Op Bytes))
    (hops : ∀ op ∈ ops, match op with
      | .set k _ => k ∈ (OGen.setters.filter (·.1 == "Blob")).map (·.2.2)
      | _ => True) :
    (shaStep H blobCls (run H blobCls blobInit ops)).1
      = (content blobCls (run H blobCls blobInit ops)).bind (nameOf H blobCls) := by
  apply id_is_hash_of_invalidating H blobCls blob_aliasClass blobInit (blob_inv H) ops
  intro op hop
  have := hops op hop
  cases op with
  | set k u =>
    have hk : k = 2 ∨ k = 3 := by
      have e : (OGen.setters.filter (·.1 == "Blob")).map (·.2.2) = [2, 3] := by decide
      rw [e] at this
      simpa using this
    simp only [Op.invalidating]
    omega
  | setRaw b => trivial
  | getId => trivial
  | asRaw => trivial

/-- For a blob the content is the value last assigned, by either setter, also after reads. -/
theorem blob_content_tracks_fields (H : Bytes → Bytes) (s : St Bytes) (k : Nat) (hk : k = 2 ∨ k = 3)
    (u : Bytes → Bytes) (reads : List (Op Bytes)) (hr : ∀ op ∈ reads, op.isRead) :
    content blobCls (run H blobCls (setStep blobCls k u s) reads) = some (u s.fields) := by
  rw [(run_reads H blobCls reads _ hr).1]
  rcases hk with rfl | rfl
  · simp [setStep, setRawStep, blobCls, content]
  · simp only [setStep, blobCls, content]
    split <;> simp

/-- **Regression (DESIGN F1, fixed by 714a12f).**  The history that used to expose the stale id —
`b.data = b"x"; b.id; b.chunked = [b"y"]; b.id` — with the setter kind the code has now: the content is
`y` and the id is the name of `y`. -/
theorem chunked_history_regression (H : Bytes → Bytes) :
    let s := run H blobCls blobInit [.set 2 (fun _ => [120]), .getId, .set 3 (fun _ => [121])]
    content blobCls s = some [121] ∧
    (shaStep H blobCls s).1 = some (H [98, 108, 111, 98, 32, 49, 0, 121]) :=
  ⟨rfl, rfl⟩

/-- **The old defect, kept as a model variant.**  With the `Blob.chunked` setter as it was coded before
714a12f (kind 0: assigns `_chunked_text` only) the invariant fails on that history, for every injective
hash.  If the invalidation is ever dropped again the translator emits kind 0, `setters_invalidate` and
`blob_chunked_kind` stop compiling, and this is the behaviour the model then predicts. -/
theorem old_chunked_kind_counterexample (H : Bytes → Bytes) (hH : ∀ a b, H a = H b → a = b) :
    let s := run H blobCls blobInit [.set 2 (fun _ => [120]), .getId, .set 0 (fun _ => [121])]
    content blobCls s = some [121] ∧
    (shaStep H blobCls s).1 ≠ (content blobCls s).bind (nameOf H blobCls) := by
  have hs : run H blobCls blobInit [.set 2 (fun _ => [120]), .getId, .set 0 (fun _ => [121])]
      = ⟨[121], false, some (H [98, 108, 111, 98, 32, 49, 0, 120]), some [121]⟩ := rfl
  have e2 : hashInput 3 [121] = some [98, 108, 111, 98, 32, 49, 0, 121] := by decide
  simp only [hs]
  refine ⟨rfl, ?_⟩
  have hl : (shaStep H blobCls ⟨[121], false, some (H [98, 108, 111, 98, 32, 49, 0, 120]), some [121]⟩).1
      = some (H [98, 108, 111, 98, 32, 49, 0, 120]) := rfl
  have hr : (content blobCls ⟨[121], false, some (H [98, 108, 111, 98, 32, 49, 0, 120]), some [121]⟩).bind
      (nameOf H blobCls) = some (H [98, 108, 111, 98, 32, 49, 0, 121]) := by
    simp [content, nameOf, blobCls, e2]
  rw [hl, hr]
  intro h
  have := hH _ _ (Option.some.inj h)
  simp at this

end cache

/-! ## 2. Header folding: `_parse_message (_format_message hs body) = (hs, body)` -/

/-- **Message round trip.**  For every list of headers whose field names are non-empty and contain
neither space nor LF (`WFHeaders`, decidable) and *arbitrary* byte values — embedded, leading, trailing
and repeated LFs, leading spaces, NULs included — and every body, parsing the formatted text returns
exactly the headers, in order, and the body (`None` and `b""` both give `b""`: the blank line is always
written). -/
theorem parse_format_message (hs : Headers) (body : Option Bytes) (hwf : WFHeaders hs) :
    parseMessage (formatMessage hs body) = .ok (hs, some (body.getD [])) := by
  unfold parseMessage formatMessage splitLines
  rw [parseLines_format hs hwf]
  simp [flushHeader]

/-- Non-vacuity: a multi-line value with a blank line and a trailing LF, and a value starting with a
space; the instance evaluates as the theorem says. -/
example : WFHeaders [([116, 114, 101, 101], [97]), ([103, 112, 103, 115, 105, 103], [97, 10, 10, 32, 98, 10]),
    ([120], [32, 10])] := by decide

example : parseMessage (formatMessage [([103], [97, 10, 10, 32, 98, 10])] (some [109]))
    = .ok ([([103], [97, 10, 10, 32, 98, 10])], some [109]) :=
  parse_format_message _ _ (by decide)

/-- Negation witness for the hypothesis: a field name containing a space does not survive. -/
theorem parse_format_message_needs_wf_counterexample :
    parseMessage (formatMessage [([97, 32, 98], [99])] none) ≠ .ok ([([97, 32, 98], [99])], some []) := by
  decide

/-! ## 3. Time zones -/

/-- **Fields → bytes → fields.**  Every offset that is a whole number of minutes (any sign, any
magnitude: `%02d` widens beyond 99 h and the parser follows) is written and read back unchanged, with
the neg-utc flag clear. -/
theorem timezone_roundtrip (off : Int) (h60 : off % 60 = 0) :
    ∃ t, formatTimezone off false = .ok t ∧ parseTimezone t = .ok (off, false) := by
  by_cases hpos : 0 ≤ off
  · obtain ⟨n, rfl⟩ := Int.eq_ofNat_of_zero_le hpos
    have hn : n % 60 = 0 := by omega
    refine ⟨_, formatTimezone_pos n hn, ?_⟩
    rw [parseTimezone_hhmm 43 (Or.inl rfl) _ _ (by omega)]
    have : n / 3600 * 3600 + n / 60 % 60 * 60 = n := by omega
    simp [this]
  · obtain ⟨n, rfl⟩ : ∃ n : Nat, off = -(n : Int) := ⟨off.natAbs, by omega⟩
    have hn : n % 60 = 0 := by omega
    have hn0 : 0 < n := by omega
    refine ⟨_, formatTimezone_neg n hn false (Or.inl hn0), ?_⟩
    rw [parseTimezone_hhmm 45 (Or.inr rfl) _ _ (by omega)]
    have e1 : n / 3600 * 3600 + n / 60 % 60 * 60 = n := by omega
    simp [e1]
    intro _
    omega

/-- `-0000` (the neg-utc flag on a zero offset) round-trips with the flag. -/
theorem timezone_negzero_roundtrip :
    formatTimezone 0 true = .ok [45, 48, 48, 48, 48] ∧ parseTimezone [45, 48, 48, 48, 48] = .ok (0, true) := by
  have h1 := formatTimezone_neg 0 rfl true (Or.inr rfl)
  have h2 := parseTimezone_hhmm 45 (Or.inr rfl) 0 0 (by omega)
  exact ⟨h1, h2⟩

/-- **Bytes → fields → bytes.**  Every spelling git emits — a sign, an hours field and a two-digit
minutes field below 60, `-0000` included — is parsed and written back byte for byte. -/
theorem timezone_canonical_spelling (s : UInt8) (hs : s = 43 ∨ s = 45) (hh mm : Nat) (hmm : mm < 60) :
    ∃ off neg, parseTimezone (s :: (fmt02 (hh : Int) ++ fmt02 (mm : Int))) = .ok (off, neg) ∧
      formatTimezone off neg = .ok (s :: (fmt02 (hh : Int) ++ fmt02 (mm : Int))) := by
  have e1 : (hh * 3600 + mm * 60) / 3600 = hh := by omega
  have e2 : (hh * 3600 + mm * 60) / 60 % 60 = mm := by omega
  have e3 : (hh * 3600 + mm * 60) % 60 = 0 := by omega
  rcases hs with rfl | rfl
  · have hp := parseTimezone_hhmm 43 (Or.inl rfl) hh mm (by omega)
    have e : ¬ ((43 : UInt8) = 45) := by decide
    simp only [e, if_false] at hp
    refine ⟨_, _, hp, ?_⟩
    rw [formatTimezone_pos _ e3, e1, e2]
  · have hp := parseTimezone_hhmm 45 (Or.inr rfl) hh mm (by omega)
    simp only [if_true] at hp
    refine ⟨_, _, hp, ?_⟩
    rw [formatTimezone_neg _ e3, e1, e2]
    by_cases hz : hh * 100 + mm = 0
    · right; simp [hz]
    · left; omega

/-- Non-vacuity: `+0530` and `-0000` are instances of the canonical spelling. -/
example : (43 :: (fmt02 (5 : Nat) ++ fmt02 (30 : Nat)) : Bytes) = [43, 48, 53, 51, 48] ∧
    (45 :: (fmt02 (0 : Nat) ++ fmt02 (0 : Nat)) : Bytes) = [45, 48, 48, 48, 48] := by decide

/-- **Negation witness (finding neg-utc-sticky).**  The flag parsed from `-0000` combined with a
non-zero offset (what `c.author_timezone = 1800` produces on a commit parsed from `… -0000`, there being
no public setter for the flag) is written as `-0030`, which reads back as −1800: the value changes sign. -/
theorem timezone_flag_nonzero_counterexample :
    formatTimezone 1800 true = .ok [45, 48, 48, 51, 48] ∧
    parseTimezone [45, 48, 48, 51, 48] = .ok (-1800, false) := by
  refine ⟨by decide, ?_⟩
  have := parseTimezone_hhmm 45 (Or.inr rfl) 0 30 (by omega)
  have e : (45 :: (fmt02 ((0 : Nat) : Int) ++ fmt02 ((30 : Nat) : Int)) : Bytes) = [45, 48, 48, 51, 48] := by decide
  rw [e] at this
  simpa using this

/-! ## 4. Trees -/

/-- **Tree entries: fields → bytes → fields** (pure-Python `parse_tree`).  For either hash length, every
list of entries with modes in `0..2^32-1` (the strict mode token of 5d5709a refuses anything larger),
NUL-free names (arbitrary other bytes, spaces included) and lowercase-hex ids of that length serialises,
and parsing the bytes returns exactly the list. -/
theorem tree_roundtrip (shaLen : Nat) (hlen : 2 * shaLen ∈ OGen.hexLens) (es : List Entry)
    (hwf : ∀ e ∈ es, WFEntry shaLen e) (h32 : ∀ e ∈ es, e.mode < 4294967296) :
    ∃ bs, serializeTree es = .ok bs ∧ parseTreePy shaLen bs = .ok es := by
  obtain ⟨bs, h1, h2, h3⟩ := parseTreeAux_serialize pyModeToken shaLen hlen
    (fun n hn => pyModeToken_padZeros _ n hn) es (fun e he => ⟨hwf e he, h32 e he⟩)
  exact ⟨bs, h1, h3 _ h2⟩

/-- The same for the Rust `parse_tree`. -/
theorem tree_roundtrip_rs (shaLen : Nat) (hlen : 2 * shaLen ∈ OGen.hexLens) (es : List Entry)
    (hwf : ∀ e ∈ es, WFEntry shaLen e) (h32 : ∀ e ∈ es, e.mode < 4294967296) :
    ∃ bs, serializeTree es = .ok bs ∧ parseTreeRs shaLen bs = .ok es := by
  obtain ⟨bs, h1, h2, h3⟩ := parseTreeAux_serialize rsModeToken shaLen hlen
    (fun n hn => rsModeToken_padZeros _ n hn) es (fun e he => ⟨hwf e he, h32 e he⟩)
  exact ⟨bs, h1, h3 _ h2⟩

/-- **The mode token is strict, and the same in both implementations** (5d5709a): `[0-7]+` below 2^32.
Signs, whitespace, `0o`, underscores and a 33-bit value — all of which `int(token, 8)` took — are refused,
and so is the leading `+` that `u32::from_str_radix` takes. -/
theorem mode_token_py_eq_rs (s : Bytes) : pyModeToken s = rsModeToken s := rfl

theorem mode_token_strict_examples :
    pyModeToken [45, 55] = none ∧ pyModeToken [43, 55] = none ∧ pyModeToken [9, 55] = none ∧
    pyModeToken [48, 111, 55] = none ∧ pyModeToken [55, 95, 48] = none ∧ pyModeToken [] = none ∧
    pyModeToken [52, 48, 48, 48, 48, 48, 48, 48, 48, 48, 48] = none ∧
    pyModeToken [51, 55, 55, 55, 55, 55, 55, 55, 55, 55, 55] = some 4294967295 ∧
    pyModeToken [48, 52, 48, 48, 48, 48] = some 16384 := by decide

/-- **Regression witnesses on the old variants**: `int(b"-7", 8)` and `int(b"7_0", 8)` were accepted by the
Python parser, and `+7` by the Rust one, while the other side refused. -/
theorem old_mode_token_counterexample :
    pyInt 8 [45, 55] = some (-7) ∧ pyInt 8 [55, 95, 48] = some 56 ∧ rsOctU32 [45, 55] = none ∧
    rsOctU32 [43, 55] = some 7 ∧ pyModeToken [43, 55] = none ∧ rsModeToken [43, 55] = none := by decide

/-- Non-vacuity: both hash lengths are admitted, and a tree with a space in a name, a directory and a
gitlink is well-formed. -/
example : 2 * 20 ∈ OGen.hexLens ∧ 2 * 32 ∈ OGen.hexLens := by decide

example : ∀ e ∈ ([⟨[97, 32, 98], 33188, hexlify (List.replicate 20 7)⟩, ⟨[97], 16384, hexlify (List.replicate 20 255)⟩,
    ⟨[255], 57344, hexlify (List.replicate 20 0)⟩] : List Entry), WFEntry 20 e := by
  intro e he
  simp only [List.mem_cons, List.not_mem_nil, or_false] at he
  rcases he with rfl | rfl | rfl
  · exact ⟨by decide, by decide, _, by simp, rfl⟩
  · exact ⟨by decide, by decide, _, by simp, rfl⟩
  · exact ⟨by decide, by decide, _, by simp, rfl⟩

/-- **`sorted_tree_items` is a sorted permutation** of the dict's items for the order "compare names as
bytes, a directory's name counting as `name/`" (`key_entry`). -/
theorem sortedTreeItems_perm (es : List Entry) : (sortedTreeItems es).Perm es := sortBy_perm keyLe es

theorem sortedTreeItems_sorted (es : List Entry) :
    (sortedTreeItems es).Pairwise (fun a b => keyLe a b = true) :=
  sortBy_pairwise keyLe keyLe_total keyLe_trans es

/-- Non-vacuity / the rule at work: file `a.b`, directory `a`, file `a-`, file `a0` come out as
`a-`, `a.b`, `a` (as `a/`), `a0`. -/
example : (sortedTreeItems [⟨[97, 46, 98], 33188, []⟩, ⟨[97], 16384, []⟩, ⟨[97, 45], 33188, []⟩, ⟨[97, 48], 33188, []⟩]).map (·.name)
    = [[97, 45], [97, 46, 98], [97], [97, 48]] := by decide

/-- **The order is git's, and the same in both implementations, for ALL names** (15beabf).  Python's key
order (`name`, or `name/` for a directory, compared as bytes) is exactly what the Rust `cmp_with_suffix`
computes — "compare the common prefix, then the rest of each name chained with `/` or nothing" — for every
pair of entries, names containing `/` or NUL included … -/
theorem tree_order_is_git_order (a b : Entry) : keyLe a b = rsLe a b := keyLe_eq_rsLe a b

/-- … hence the Python and the Rust `sorted_tree_items` return the same list, always. -/
theorem sortedTreeItems_py_eq_rs (es : List Entry) : sortedTreeItems es = sortedTreeItemsRs es :=
  sortBy_congr keyLe rsLe es (fun x _ y _ => keyLe_eq_rsLe x y)

/-- Both refuse the same inputs (a mode that is not an unsigned 32-bit number; 46c4930). -/
theorem sortedTreeItemsE_py_eq_rs (es : List Entry) : sortedTreeItemsE es = sortedTreeItemsRsE es := by
  simp [sortedTreeItemsE, sortedTreeItemsRsE, sortedTreeItems_py_eq_rs]

/-- The old comparator (one virtual byte past the common prefix, NUL as "no suffix") agreed with the key
order only on names without NUL and `/` … -/
theorem old_tree_order_clean_names (a b : Entry) (ha : CleanName a.name) (hb : CleanName b.name) :
    keyLe a b = rsLeOld a b := keyLe_eq_rsLeOld a b ha hb

/-- … **regression witness on the old variant**: directory `a` against file `a/b` — Python compares
`a/` < `a/b`, the old Rust comparator stopped after one byte (equal); the comparator the code has now
agrees with Python on the same pair. -/
theorem old_tree_order_counterexample :
    keyLe ⟨[97, 47, 98], 33188, []⟩ ⟨[97], 16384, []⟩ ≠ rsLeOld ⟨[97, 47, 98], 33188, []⟩ ⟨[97], 16384, []⟩ ∧
    keyLe ⟨[97, 47, 98], 33188, []⟩ ⟨[97], 16384, []⟩ = rsLe ⟨[97, 47, 98], 33188, []⟩ ⟨[97], 16384, []⟩ ∧
    keyLe ⟨[97], 33188, []⟩ ⟨[97, 0], 33188, []⟩ = rsLe ⟨[97], 33188, []⟩ ⟨[97, 0], 33188, []⟩ := by
  decide

/-- **Canonical trees: bytes → fields → bytes.**  For entries already in `key_entry` order with pairwise
distinct names (what git writes), `Tree._deserialize` of the serialised bytes gives back the entries and
`Tree._serialize` of those gives back the bytes — also after any dirty-marking touch, since the cache
theorem above makes the content equal `serializeTreeObj` of the fields. -/
theorem tree_canonical_reserialise (shaLen : Nat) (hlen : 2 * shaLen ∈ OGen.hexLens) (es : List Entry)
    (hwf : ∀ e ∈ es, WFEntry shaLen e) (h32 : ∀ e ∈ es, e.mode < 4294967296)
    (hsorted : es.Pairwise (fun a b => keyLe a b = true))
    (hdistinct : es.Pairwise (fun a b => a.name ≠ b.name)) :
    ∃ bs, serializeTree es = .ok bs ∧ deserializeTreeObj shaLen bs = .ok es ∧ serializeTreeObj es = .ok bs := by
  obtain ⟨bs, h1, h2⟩ := tree_roundtrip shaLen hlen es hwf h32
  refine ⟨bs, h1, ?_, ?_⟩
  · have := foldl_dictSet_distinct es [] hdistinct (by simp)
    simp only [deserializeTreeObj, h2, dictOfList, this, List.nil_append]
  · have hm : modesOk es = true := by
      have mx : OGen.treeModeMax = 4294967295 := rfl
      simp only [modesOk, List.all_eq_true, Bool.and_eq_true, decide_eq_true_eq, mx]
      intro e he
      have := (hwf e he).1
      have := h32 e he
      constructor <;> omega
    simp only [serializeTreeObj, sortedTreeItemsE, hm, if_true, sortedTreeItems, sortBy_sorted keyLe es hsorted, h1]

/-! ## 5. Time entries, tags, commits -/

/-- **`parse_time_entry (format_time_entry …)`**: any identity ending in `>` (arbitrary other bytes,
LF and `> ` inside included), any integer time (negative, beyond 2^63), any whole-minute zone. -/
theorem time_entry_roundtrip (p : Bytes) (hp : WFPerson p) (t tz : Int) (neg : Bool) (hz : WFTz tz neg) :
    ∃ v, formatTimeEntry p t tz neg = .ok v ∧ parseTimeEntry v = .ok ⟨some p, some t, some tz, some neg⟩ :=
  timeEntry_roundtrip p hp t tz neg hz

example : WFPerson [65, 62, 32, 10, 60, 255, 62] ∧ WFTz (-34200) false ∧ WFTz 0 true := by decide

/-- **Tag: fields → bytes → fields**, whatever the object held before (`set_raw_string` on a live
object).  `WFTag` is git's grammar field by field (see Lemmas/ObjectsCommit.lean). -/
theorem tag_roundtrip (prev t : Tag) (h : WFTag t) :
    ∃ bs, serializeTag t = .ok bs ∧ deserializeTag prev bs = .ok t :=
  tag_roundtrip_lemma prev t h

/-- **Commit: fields → bytes → fields.**  `WFCommit`: any bytes for tree and parents, 0..n parents,
identities ending in `>`, any integer times, whole-minute zones (`-0000` via the flag), optional
non-empty encoding and gpgsig (multi-line), mergetags whose text ends in LF and parses as a tag, extra
headers with well-formed non-reserved names and arbitrary (multi-line) values, any message bytes. -/
theorem commit_roundtrip (c : Commit) (h : WFCommit c) :
    ∃ bs, serializeCommit c = .ok bs ∧ deserializeCommit bs = .ok c :=
  commit_roundtrip_lemma c h

/-- **Commit round trip without the LF requirement on mergetags** (the code after b8dbd4a).  If the
mergetag texts are arbitrary bytes whose completion (`text` itself when it ends in LF, `text ++ "\n"`
otherwise) parses as a tag, then fields → bytes → fields returns the commit with exactly that
completion applied to each mergetag text: no byte is lost; it is not the identity for a text without
final LF, because the header format cannot tell `foo` from `foo\n` (git completes the line as well). -/
theorem commit_roundtrip_general (c : Commit) (h : WFCommitG c) :
    ∃ bs, serializeCommit c = .ok bs ∧
      deserializeCommit bs = .ok { c with mergetag := c.mergetag.map completeLF } :=
  commit_roundtrip_general_lemma c h

/-- **Canonical bytes → fields → bytes.**  Bytes that are the serialisation of some well-formed commit
(the grammar git emits, which the correspondence check and C git tie to `serializeCommit`) are
reproduced exactly by parsing and re-serialising — what any dirty-marking setter triggers. -/
theorem commit_canonical_reserialise (bs : Bytes) (hc : ∃ c, WFCommit c ∧ serializeCommit c = .ok bs) :
    ∃ c, deserializeCommit bs = .ok c ∧ serializeCommit c = .ok bs := by
  obtain ⟨c, hwf, hs⟩ := hc
  obtain ⟨bs', h1, h2⟩ := commit_roundtrip c hwf
  rw [hs] at h1
  cases h1
  exact ⟨c, h2, hs⟩

theorem tag_canonical_reserialise (bs : Bytes) (hc : ∃ t, WFTag t ∧ serializeTag t = .ok bs) :
    ∃ t, deserializeTag Tag.empty bs = .ok t ∧ serializeTag t = .ok bs := by
  obtain ⟨t, hwf, hs⟩ := hc
  obtain ⟨bs', h1, h2⟩ := tag_roundtrip Tag.empty t hwf
  rw [hs] at h1
  cases h1
  exact ⟨t, h2, hs⟩

/-- Non-vacuity: a merge commit with odd identity bytes, a negative time, `-0000`, an encoding, a
multi-line extra header whose value ends in LF, a multi-line gpgsig with a blank line, and a message
that looks like headers is well-formed. -/
example : WFCommit
    { tree := some [97], parents := [[98], [99]],
      author := ⟨some [255, 32, 60, 62], some (-5), some 19800, some false⟩,
      committer := ⟨some [67, 62], some 99999999999999999999, some 0, some true⟩,
      encoding := some [108], mergetag := [],
      extra := [([72, 71, 58, 120], [49, 10, 10, 50, 10])],
      gpgsig := some [45, 10, 10, 45], message := some [116, 114, 101, 101, 32, 120, 10] } :=
  ⟨⟨_, rfl⟩, ⟨_, _, _, _, rfl, by decide, by decide⟩, ⟨_, _, _, _, rfl, by decide, by decide⟩, by decide,
   by simp, by decide, by decide, ⟨_, rfl⟩⟩

/-- **Only the edited header changes.**  Replace the author of a well-formed commit by another
well-formed author: the two serialisations share everything before and everything after the author
line, byte for byte. -/
theorem one_field_edit_author (c : Commit) (h : WFCommit c) (a' : TimeInfo) (ha' : WFTime a') :
    ∃ pre post x x', serializeCommit c = .ok (pre ++ x ++ post) ∧
      serializeCommit { c with author := a' } = .ok (pre ++ x' ++ post) ∧
      (∃ v, x = formatHeader (OGen.hdrAuthor, v)) ∧ (∃ v', x' = formatHeader (OGen.hdrAuthor, v')) := by
  obtain ⟨tree, parents, author, committer, encoding, mergetag, extra, gpgsig, message⟩ := c
  obtain ⟨⟨t, ht⟩, ⟨pa, ta, za, na, hau, hpa, hza⟩, ⟨pc, tc, zc, nc, hco, hpc, hzc⟩, _, _, _, _, ⟨m, hm⟩⟩ := h
  obtain ⟨pa', ta', za', na', hau', hpa', hza'⟩ := ha'
  simp only at ht hau hco hm
  subst ht; subst hau; subst hco; subst hm; subst hau'
  have slots : commitSlots = [.tree, .parent, .author, .committer, .encoding, .mergetag, .extra, .gpgsig] := by decide
  obtain ⟨va, hva1, _⟩ := timeEntry_roundtrip pa hpa ta za na hza
  obtain ⟨va', hva1', _⟩ := timeEntry_roundtrip pa' hpa' ta' za' na' hza'
  obtain ⟨vc, hvc1, _⟩ := timeEntry_roundtrip pc hpc tc zc nc hzc
  have fh : ∀ (a b : Headers), formatHeaders (a ++ b) = formatHeaders a ++ formatHeaders b := by
    intro a b
    induction a with
    | nil => rfl
    | cons x xs ih => simp [formatHeaders, ih]
  refine ⟨formatHeaders ((OGen.hdrTree, t) :: parents.map fun p => (OGen.hdrParent, p)),
    formatHeaders ((OGen.hdrCommitter, vc) :: (optHeader OGen.hdrEncoding encoding ++
        ((mergetag.map fun raw => (OGen.hdrMergetag, mergetagValue raw)) ++ (extra ++ optHeader OGen.hdrGpgsig gpgsig))))
      ++ [10] ++ m,
    formatHeader (OGen.hdrAuthor, va), formatHeader (OGen.hdrAuthor, va'), ?_, ?_, ⟨va, rfl⟩, ⟨va', rfl⟩⟩
  · simp [serializeCommit, slots, collect, commitSlot, timeHeader, hva1, hvc1, formatMessage, formatHeaders, fh]
  · simp [serializeCommit, slots, collect, commitSlot, timeHeader, hva1', hvc1, formatMessage, formatHeaders, fh]

/-- witness data: a tag text without trailing LF (`object a\ntype tree\ntag v\n\nfoo`) -/
def cxTagText : Bytes := [111, 98, 106, 101, 99, 116, 32, 97, 10, 116, 121, 112, 101, 32, 116, 114, 101, 101, 10,
  116, 97, 103, 32, 118, 10, 10, 102, 111, 111]

def cxCommit (mergetag : List Bytes) (message : Option Bytes) : Commit :=
  ⟨some [97], [], ⟨some [65, 62], some 1, some 0, some false⟩, ⟨some [67, 62], some 1, some 0, some false⟩,
   none, mergetag, [], none, message⟩

/-- **The statement of the property for commits, end to end.**  Take a live `Commit` in any state reached
by an admissible history, assign well-formed field values through dirty-marking setters (`u`), read `id`
and `as_raw_string()` any number of times: the id is `H("commit <len>\0" ++ bytes)` where `bytes` are
such that parsing them gives back exactly the current field values. -/
theorem commit_id_after_edit (H : Bytes → Bytes) (s0 : St Commit) (h0 : Inv H commitCls s0)
    (ops : List (Op Commit)) (hops : ∀ op ∈ ops, op.invalidating) (u : Commit → Commit)
    (hwf : WFCommit (u (run H commitCls s0 ops).fields))
    (reads : List (Op Commit)) (hr : ∀ op ∈ reads, op.isRead) :
    ∃ bs, (shaStep H commitCls (run H commitCls (setStep commitCls 1 u (run H commitCls s0 ops)) reads)).1
        = (hashInput 1 bs).map H ∧
      deserializeCommit bs = .ok (u (run H commitCls s0 ops).fields) := by
  obtain ⟨bs, h1, h2⟩ := commit_roundtrip _ hwf
  refine ⟨bs, ?_, h2⟩
  have := id_after_edit H commitCls (fun h => by cases h) s0 h0 ops hops u reads hr
  simp only at this
  rw [this]
  have e : commitCls.ser (u (run H commitCls s0 ops).fields) = some bs := by
    show Except.toOpt (serializeCommit _) = some bs
    rw [h1]; rfl
  rw [e]; rfl

/-- The header the hash input starts with is `commit <decimal length> NUL` (evaluated on an instance). -/
example : hashInput 1 [120, 121] = some [99, 111, 109, 109, 105, 116, 32, 50, 0, 120, 121] := by decide

/-! ### Re-filling a live object from new bytes forgets the old contents -/

/-- Tie to the source (Tag): every attribute that a header branch for an OPTIONAL header assigns (anything but
`object`, `type`, `tag`, which git's grammar makes mandatory, and the body, which `_parse_message` always
yields) is reset at the top of `Tag._deserialize`. -/
theorem tag_optional_attrs_are_reset :
    ∀ br ∈ OGen.tagBranchAssigns, br.1 ∉ ["_OBJECT_HEADER", "_TYPE_HEADER", "_TAG_HEADER", "None"] →
      ∀ a ∈ br.2, a ∈ OGen.tagResets := by decide

/-- … and the mandatory branches and the body cover all remaining attributes of a tag. -/
theorem tag_all_attrs_covered :
    ∀ a ∈ ["_object_sha", "_object_class", "_name", "_tagger", "_tag_time", "_tag_timezone",
           "_tag_timezone_neg_utc", "_message", "_signature"],
      a ∈ OGen.tagResets ∨ ∃ br ∈ OGen.tagBranchAssigns,
        br.1 ∈ ["_OBJECT_HEADER", "_TYPE_HEADER", "_TAG_HEADER", "None"] ∧ a ∈ br.2 := by decide

/-- Tie to the source (Commit): `Commit._deserialize` assigns every slot of the class unconditionally. -/
theorem commit_deserialize_assigns_every_slot :
    ∀ a ∈ OGen.commitSlotAttrs, a ∈ OGen.commitDeserAssigned := by decide

/-- **`refill_forgets` (Commit).**  The parse transition of the cache machine is a function of the new bytes
only: whatever the live object held (`s`), after `set_raw_string(bytes)` its fields are those of a fresh
object parsed from the same bytes. -/
theorem refill_forgets_commit (s : St Commit) (bytes : Bytes) (c : Commit)
    (h : deserializeCommit bytes = .ok c) :
    (setRawStep commitCls bytes s).fields = c ∧
    (setRawStep commitCls bytes s).fields = (setRawStep commitCls bytes (freshInit Commit.empty)).fields := by
  simp [setRawStep, commitCls, Except.toOpt, h]

/-- **`refill_forgets` (Tag).**  For every text in git's tag grammar (the serialisation of a `WFTag`: with or
without tagger line, signature, `-0000` flag …) the result of `Tag._deserialize` does not depend on what the
live object held before — in particular a tagger, time, zone and neg-utc flag of the old text are gone when
the new text has no tagger line. -/
theorem refill_forgets_tag (s : St Tag) (bytes : Bytes) (hc : ∃ t, WFTag t ∧ serializeTag t = .ok bytes) :
    (setRawStep tagCls bytes s).fields = (setRawStep tagCls bytes (freshInit Tag.empty)).fields ∧
    deserializeTag s.fields bytes = deserializeTag Tag.empty bytes := by
  obtain ⟨t, hwf, hs⟩ := hc
  obtain ⟨b1, h1, h2⟩ := tag_roundtrip s.fields t hwf
  obtain ⟨b2, h3, h4⟩ := tag_roundtrip Tag.empty t hwf
  rw [hs] at h1 h3
  cases h1; cases h3
  refine ⟨?_, by rw [h2, h4]⟩
  simp [setRawStep, tagCls, Except.toOpt, h2, h4, freshInit]

/-- Witness that the reset matters (model variant without it): a rich tag followed by a tagger-less text keeps
the old tagger if `_deserialize` starts from the previous attributes instead of `resetTag`. -/
theorem refill_without_reset_counterexample :
    let rich : Tag := ⟨some [97], some [116, 114, 101, 101], some [118], some [84, 62], some 1, some 0, some true,
      some [109], none⟩
    let poorText : Bytes := [111, 98, 106, 101, 99, 116, 32, 97, 10, 116, 121, 112, 101, 32, 116, 114, 101, 101, 10,
      116, 97, 103, 32, 118, 10, 10, 109]
    (deserializeTag rich poorText).toOption.map (·.tagger) = some none ∧
    (foldFields tagField rich (parseMessageP poorText).1).toOption.map (·.tagger) = some (some [84, 62]) := by
  decide +kernel

/-- Tie to the source: `Commit._serialize` cuts the final byte of a mergetag text only when it is LF. -/
theorem mergetag_cut_is_conditional : OGen.mergetagStripConditional = true := rfl

/-- **Regression (finding mergetag-lf, fixed by b8dbd4a).**  A mergetag whose text does not end in LF
(`…\n\nfoo`) keeps every byte: the parsed commit holds `…\n\nfoo\n` (the parser's appended LF), and that
commit serialises to the very same bytes. -/
theorem mergetag_without_lf_preserved :
    ∃ bs, serializeCommit (cxCommit [cxTagText] (some [109])) = .ok bs ∧
      deserializeCommit bs = .ok (cxCommit [cxTagText ++ [10]] (some [109])) ∧
      serializeCommit (cxCommit [cxTagText ++ [10]] (some [109])) = .ok bs := by
  refine ⟨_, rfl, ?_, ?_⟩ <;> decide +kernel

/-- **The old defect, kept as a variant.**  The unconditional cut `text[:-1]` (code before b8dbd4a) turns
the same text into `…\n\nfo`, which the parser completes to `…\n\nfo\n`: a content byte is gone. -/
theorem old_mergetag_cut_counterexample :
    cxTagText.dropLast ++ [10] ≠ cxTagText ++ [10] ∧ mergetagValue cxTagText = cxTagText ∧
    cxTagText.dropLast ≠ cxTagText := by decide

/-- witness data: `tree a\nauthor A> 1 +0000\ncommitter C> 1 +0000\n` — no blank line, no message -/
def cxNoBlank : Bytes := [116, 114, 101, 101, 32, 97, 10, 97, 117, 116, 104, 111, 114, 32, 65, 62, 32, 49, 32, 43, 48,
  48, 48, 48, 10, 99, 111, 109, 109, 105, 116, 116, 101, 114, 32, 67, 62, 32, 49, 32, 43, 48, 48, 48, 48, 10]

/-- **Negation witness (finding missing-message).**  A commit that ends after its last header line
(no blank line — accepted by git, parsed as `message = None`) is re-serialised with a blank line: one
byte more than the original. -/
theorem missing_message_counterexample :
    deserializeCommit cxNoBlank = .ok (cxCommit [] none) ∧
    serializeCommit (cxCommit [] none) = .ok (cxNoBlank ++ [10]) := by
  decide +kernel

end Dulwich.Props.C01
