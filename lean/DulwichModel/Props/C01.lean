/- C01 — placeholder while the harness is brought up; replaced by the real theorems. -/
import DulwichModel.Model.Objects

namespace Dulwich.Props.C01
open Dulwich Dulwich.Objects

theorem blob_chunked_kind : setterKind "Blob" "chunked" = some 0 := by decide

end Dulwich.Props.C01
