/-
  C20 — Configuration files round-trip and mean the same to dulwich and git.

  Only property theorems, non-vacuity examples and negation witnesses live here; helper lemmas are
  in Lemmas/Config.lean.  The model is Model/Config.lean; every table and syntax byte it uses comes
  from Gen/Config.lean, which the translator regenerates from /repo on every run.
-/
import DulwichModel.Lemmas.Config

namespace Dulwich.Props.C20
open Dulwich Dulwich.Config

/-! ## 1. value round trip: `_parse_string(_format_string(v)) == v` -/

/-- The statement the property makes about values, in full. It is FALSE for the code as it stands
(`valueRoundtripStatement_false`); the theorem that holds is `value_roundtrip_partial`, under `wfValue`. -/
def valueRoundtripStatement : Prop := ∀ v : Bytes, parseString (formatString v) = .ok v

/-- **Value round trip.** For every value `v` with `wfValue v` — no CR; and, if the writer's rule leaves it
unquoted (no `#`, no leading/trailing space or tab), no `;` and no VT/FF as first or last byte —
reading what `_format_string` wrote gives `v` back. -/
theorem value_roundtrip_partial (v : Bytes) (h : wfValue v = true) :
    parseString (formatString v) = .ok v := by
  unfold parseString
  rw [strip_of_edges (edges_format v h), parseLoop_format v h]

/-- the same through the text `from_file` actually hands to `_parse_string` for a line
`\tkey = VALUE\n`: a space, the formatted value, LF -/
theorem value_roundtrip_in_line_partial (v : Bytes) (h : wfValue v = true) :
    parseString (32 :: (formatString v ++ [10])) = .ok v := by
  unfold parseString
  rw [strip_line_of_edges (edges_format v h), parseLoop_format v h]

/-- non-vacuity: a value using every special character the predicate allows, quoted -/
example : wfValue [32, 9, 34, 92, 35, 59, 10, 110, 116, 98, 11, 12, 8, 32] = true := by decide
/-- … and one left unquoted -/
example : wfValue [97, 32, 9, 34, 92, 10, 11, 12, 8, 98] = true := by decide
example : parseString (formatString [32, 9, 34, 92, 35, 59, 10, 110, 116, 98, 11, 12, 8, 32])
    = .ok [32, 9, 34, 92, 35, 59, 10, 110, 116, 98, 11, 12, 8, 32] := by decide

/-! ### the excluded classes are real: each is a counterexample to the full statement (§7-F20) -/

/-- `a;b` is written unquoted and read back as `a` -/
theorem semicolon_counterexample :
    formatString [97, 59, 98] = [97, 59, 98] ∧ parseString (formatString [97, 59, 98]) = .ok [97] := by decide

/-- `a<CR>b` is written `a\rb`; the reader has no `r` escape and returns the five bytes `a \ r b` -/
theorem cr_counterexample :
    formatString [97, 13, 98] = [97, 92, 114, 98] ∧
    parseString (formatString [97, 13, 98]) = .ok [97, 92, 114, 98] := by decide

/-- CR is not saved by quoting either -/
theorem cr_quoted_counterexample :
    parseString (formatString [32, 13]) = .ok [32, 92, 114] := by decide

/-- a leading VT is written raw and removed by `strip()` -/
theorem leading_vt_counterexample : parseString (formatString [11, 97]) = .ok [97] := by decide

/-- a trailing FF is written raw and removed by `strip()` -/
theorem trailing_ff_counterexample : parseString (formatString [97, 12]) = .ok [97] := by decide

/-- all byte strings of length `n` over `alpha` -/
def stringsOfLen (alpha : Bytes) : Nat → List Bytes
  | 0 => [[]]
  | n + 1 => (stringsOfLen alpha n).flatMap (fun s => alpha.map (fun c => c :: s))

/-- `wfValue` is exact, not merely sufficient, on every value of length ≤ 3 over the property's
11-symbol alphabet plus VT and FF (2380 values, evaluated by the kernel): a value round-trips
**iff** it satisfies the predicate.  (The harness checks the same equivalence against the real code on
all values up to length 4/5 and on random longer ones in every run.) -/
theorem wfValue_exact_small :
    ((List.range 4).flatMap (stringsOfLen [32, 9, 34, 92, 35, 59, 10, 13, 110, 116, 98, 11, 12])).all
      (fun v => wfValue v == decide (parseString (formatString v) = .ok v)) = true := by
  decide +kernel

theorem valueRoundtripStatement_false : ¬ valueRoundtripStatement := by
  intro h
  have := h [97, 59, 98]
  rw [semicolon_counterexample.2] at this
  exact absurd this (by decide)

/-! ## 2. subsections and section headers -/

/-- **Subsection escape round trip**, for every byte string the writer accepts (everything without LF
and NUL — quotes, backslashes, dots, spaces, brackets, comment characters included). -/
theorem subsection_roundtrip (s e : Bytes) (h : escapeSubsection s = .ok e) : unescapeSubsection e = s := by
  obtain ⟨he, _, _⟩ := escapeSubsection_ok h
  rw [he, unescape_escaped]

/-- the writer refuses exactly LF and NUL -/
theorem escapeSubsection_total (s : Bytes) (h10 : ¬ 10 ∈ s) (h0 : ¬ 0 ∈ s) : ∃ e, escapeSubsection s = .ok e := by
  unfold escapeSubsection
  split
  · rename_i hf
    simp only [List.any_eq_true, Gen.Config.subsectionForbidden] at hf
    obtain ⟨c, hc, hcf⟩ := hf
    simp at hcf
    rcases hcf with rfl | rfl
    · exact (h10 hc).elim
    · exact (h0 hc).elim
  · exact ⟨_, rfl⟩

example : escapeSubsection [97, 34, 92, 46, 32, 93, 35, 59, 34] = .ok [97, 92, 34, 92, 92, 46, 32, 93, 35, 59, 92, 34] := by
  decide

/-- The statement the property makes about section headers, in full: whatever header the writer emits
is read back as the same section.  FALSE for the code as it stands (`header_counterexample`). -/
def headerRoundtripStatement : Prop :=
  ∀ (sec : Section) (hdr : Bytes), checkSectionName sec.1 = true → (sec.2 = none → ¬ 46 ∈ sec.1) →
    writeHeader sec = .ok hdr → parseHeader hdr = .ok (sec, [])

/-- **Header round trip.** For every section name over `isalnum`/`-`/`.` (no `.` without a subsection) and
every subsection without LF/NUL in which no `#`/`;` follows an odd number of `"` (`wfSubsection`), the
header line `write_to_file` emits is parsed back to the same `(name[, subsection])` with nothing left
on the line: `_strip_comments` leaves it alone, the scan finds the final `]`, the split finds the name,
and unescaping inverts escaping. -/
theorem header_roundtrip_partial (sec : Section) (hdr : Bytes) (h : wfSection sec = true)
    (hw : writeHeader sec = .ok hdr) : parseHeader hdr = .ok (sec, []) :=
  parseHeader_written sec hdr h hw

example : wfSection ([114, 101, 109, 111, 116, 101], some [97, 35, 59, 34, 92, 46, 32, 93, 34, 35]) = true := by decide

/-- `(s, a"#b)` is written as `[s "a\"#b"]` and cannot be read back: `_strip_comments` is blind to the
backslash, sees the string end at the escaped quote and cuts the line at `#`. -/
theorem header_counterexample :
    writeHeader ([115], some [97, 34, 35, 98]) = .ok [91, 115, 32, 34, 97, 92, 34, 35, 98, 34, 93, 10] ∧
    parseHeader [91, 115, 32, 34, 97, 92, 34, 35, 98, 34, 93, 10] = .error .format := by decide

theorem headerRoundtripStatement_false : ¬ headerRoundtripStatement := by
  intro h
  have := h ([115], some [97, 34, 35, 98]) _ (by decide) (by intro h; cases h) header_counterexample.1
  rw [header_counterexample.2] at this
  cases this

/-- `[a.b]` is the legacy spelling of section `a`, subsection `b` (git reads it the same way), so a
one-element section key containing `.` does not come back as such -/
theorem dotted_section_reads_as_subsection :
    parseHeader [91, 97, 46, 98, 93, 10] = .ok (([97], some [98]), []) := by decide

/-! ## 3. whole files: `ConfigFile.from_file(write_to_file(cfg)) == cfg` -/

/-- The statement the property makes about whole configurations, in full (every configuration whose
names are in the reader's grammar and whose sections are distinct).  FALSE for the code as it stands:
`valueRoundtripStatement_false` and `headerRoundtripStatement_false` are instances. -/
def fileRoundtripStatement : Prop :=
  ∀ cfg : Cfg, (cfg.all fun e => checkSectionName e.1.1 && e.2.all fun kv => wfKey kv.1) = true →
    distinctSections cfg = true → ∀ data, writeFile cfg = .ok data → readFile data = .ok cfg

/-- `[s] k = a;b` comes back as `k = a` -/
theorem file_counterexample :
    writeFile [(([115], none), [([107], [97, 59, 98])])] = .ok [91, 115, 93, 10, 9, 107, 32, 61, 32, 97, 59, 98, 10] ∧
    readFile [91, 115, 93, 10, 9, 107, 32, 61, 32, 97, 59, 98, 10] = .ok [(([115], none), [([107], [97])])] := by
  decide

theorem fileRoundtripStatement_false : ¬ fileRoundtripStatement := by
  intro h
  have := h [(([115], none), [([107], [97, 59, 98])])] (by decide) (by decide) _ file_counterexample.1
  rw [file_counterexample.2] at this
  exact absurd this (by decide)

/-- under `wfCfg` the writer does not raise -/
theorem writeFile_total (cfg : Cfg) (h : wfCfg cfg = true) : ∃ data, writeFile cfg = .ok data := by
  simp only [wfCfg, Bool.and_eq_true, List.all_eq_true] at h
  have hs := h.1
  clear h
  induction cfg with
  | nil => exact ⟨[], rfl⟩
  | cons sd cfg ih =>
    obtain ⟨r, hr⟩ := ih (fun e he => hs e (by simp [he]))
    obtain ⟨⟨name, sub⟩, d⟩ := sd
    have hsec := (hs ((name, sub), d) (by simp)).1
    have hh : ∃ hd, writeHeader (name, sub) = .ok hd := by
      cases sub with
      | none => exact ⟨_, rfl⟩
      | some sub =>
        simp only [wfSection, wfSubsection, Bool.and_eq_true, Bool.not_eq_true'] at hsec
        have : escapeSubsection sub = .ok (applyWrites Gen.Config.subsectionWrites sub) := by
          unfold escapeSubsection; rw [hsec.2.1]; rfl
        exact ⟨_, by simp only [writeHeader, this]; rfl⟩
    obtain ⟨hd, hhd⟩ := hh
    exact ⟨hd ++ writeEntries d ++ r, by simp only [writeFile, hhd, hr]⟩

/-- **Whole-file round trip.** For every configuration `cfg` — an ordered list of sections, each with an
ordered list of `(key, value)` entries, repeated keys allowed — such that `wfCfg cfg`:
section names over `isalnum`/`-`/`.` (no `.` without subsection), subsections `wfSubsection`, keys
non-empty over `isalnum`/`-`, values `wfValue`, sections pairwise different under `lower_key`
(what `ConfigDict.set/add` maintain): `write_to_file` succeeds and `from_file` on its output returns
exactly `cfg` — same sections in the same order with their original spelling, same keys, same values,
every multi-valued key with all its values in their original order. -/
theorem file_roundtrip_partial (cfg : Cfg) (h : wfCfg cfg = true) :
    ∃ data, writeFile cfg = .ok data ∧ readFile data = .ok cfg := by
  obtain ⟨data, hw⟩ := writeFile_total cfg h
  refine ⟨data, hw, ?_⟩
  simp only [wfCfg, Bool.and_eq_true, List.all_eq_true] at h
  obtain ⟨s1, hs1⟩ := readLines_file cfg [] none true data hw (fun e he => h.1 e he) h.2
    (fun e he => by cases he)
  unfold readFile
  rw [hs1]
  simp

/-- non-vacuity: two sections differing only in subsection case, a multi-valued key in three spellings,
values with every special character -/
example : wfCfg [(([82, 101], some [97, 32, 34, 92, 46, 93]),
                    [([85, 114, 108], [32, 9, 34, 92, 35, 59, 10]), ([117, 114, 108], []), ([85, 82, 76], [97, 34, 98])]),
                 (([114, 101], some [65, 32, 34, 92, 46, 93]), [([107], [35])]),
                 (([99, 111, 114, 101], none), [])] = true := by decide

/-! ## 4. the multi-valued dictionary: `set`/`add`/`remove` refine the association-list spec -/

/-- `add` appends: multi-valued keys keep their order -/
theorem getAll_add (d : Entries) (k v k' : Bytes) :
    entGetAll (entAdd d k v) k' = if sameKey k k' then entGetAll d k' ++ [v] else entGetAll d k' := by
  unfold entGetAll entAdd
  by_cases h : sameKey k k' = true <;> simp [List.filter_append, h]

/-- `set` replaces every value of the key (case-insensitively) by the one new value, others untouched -/
theorem getAll_set (d : Entries) (k v k' : Bytes) :
    entGetAll (entSet d k v) k' = if sameKey k k' then [v] else entGetAll d k' := by
  unfold entGetAll entSet
  by_cases h : sameKey k k' = true
  · simp only [List.filter_append, List.filter_filter, h, if_true, List.map_append]
    have : d.filter (fun e => sameKey e.1 k' && !sameKey e.1 k) = [] := by
      rw [List.filter_eq_nil_iff]
      intro e _
      simp only [sameKey, beq_iff_eq] at h ⊢
      simp [h]
    simp [this, h]
  · have h' : sameKey k k' = false := by simpa using h
    simp only [List.filter_append, List.filter_filter, h', Bool.false_eq_true, if_false, List.map_append]
    have : d.filter (fun e => sameKey e.1 k' && !sameKey e.1 k) = d.filter (fun e => sameKey e.1 k') := by
      apply List.filter_congr
      intro e _
      cases h1 : sameKey e.1 k' with
      | false => rfl
      | true =>
        cases h2 : sameKey e.1 k with
        | false => rfl
        | true =>
          exfalso
          simp only [sameKey, beq_iff_eq] at h1 h2
          simp [sameKey, ← h1, ← h2] at h'
    simp [this, h']

/-- `remove` deletes every value of the key, others untouched -/
theorem getAll_del (d d' : Entries) (k k' : Bytes) (h : entDel d k = .ok d') :
    entGetAll d' k' = if sameKey k k' then [] else entGetAll d k' := by
  unfold entDel at h
  split at h
  · simp only [Except.ok.injEq] at h
    subst h
    have := getAll_set d k [] k'
    unfold entGetAll entSet at this
    unfold entGetAll
    by_cases hk : sameKey k k' = true
    · simp only [hk, if_true] at this ⊢
      simpa [List.filter_append, List.filter_cons, hk] using this
    · have hk' : sameKey k k' = false := by simpa using hk
      simp only [hk', Bool.false_eq_true, if_false] at this ⊢
      simpa [List.filter_append, List.filter_cons, hk'] using this
  · cases h

/-- `ConfigDict.set`, `add` and `remove` keep the sections pairwise distinct under `lower_key`, so every
configuration built through them from the empty one satisfies that hypothesis of `file_roundtrip_partial` -/
theorem set_keeps_sections_distinct (cfg : Cfg) (sec : Section) (k v : Bytes) (h : distinctSections cfg = true) :
    distinctSections (cfgSet cfg sec k v) = true :=
  distinct_modify _ _ _ (distinct_setDefault cfg sec h)

theorem add_keeps_sections_distinct (cfg : Cfg) (sec : Section) (k v : Bytes) (h : distinctSections cfg = true) :
    distinctSections (cfgAdd cfg sec k v) = true :=
  distinct_modify _ _ _ (distinct_setDefault cfg sec h)

theorem remove_keeps_sections_distinct (cfg cfg' : Cfg) (sec : Section) (k : Bytes)
    (h : distinctSections cfg = true) (hr : cfgRemove cfg sec k = .ok cfg') : distinctSections cfg' = true := by
  unfold cfgRemove at hr
  split at hr
  · cases hr
  · split at hr
    · cases hr
    · simp only [Except.ok.injEq] at hr; subst hr; exact distinct_modify _ _ _ h

/-- `d[k]` is the last value stored -/
theorem get_eq_last (d : Entries) (k : Bytes) : entGet d k = (entGetAll d k).getLast? := rfl

example : entGetAll (entAdd (entAdd (entSet [([107], [48])] [75] [49]) [107] [50]) [120] [51]) [75] = [[49], [50]] := by
  decide

end Dulwich.Props.C20
