import DulwichModel.Model.Config
namespace Dulwich.Props.C20
open Dulwich Dulwich.Config

theorem semicolon_counterexample :
    parseString (formatString [0x61, 0x3b, 0x62]) = .ok [0x61] := by decide

end Dulwich.Props.C20
