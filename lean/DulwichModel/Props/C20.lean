/-
  C20 — Configuration files round-trip and mean the same to dulwich and git.

  Only property theorems, non-vacuity examples, regression and negation witnesses live here; helper
  lemmas are in Lemmas/Config.lean.  The model is Model/Config.lean; every table and syntax byte it
  uses comes from Gen/Config.lean, which the translator regenerates from /repo on every run.

  The model describes the code after the three repairs 6d569a0 (`_format_string` quotes whatever
  `strip()` would change and values containing `;` or CR; CR is written raw), f1ebc7b
  (`_strip_comments` is escape-aware) and 21a48ab (`_parse_string` strips only space, TAB, CR, LF
  around a value, like git).  The statements that were provably FALSE before these commits
  (`valueRoundtripStatement`, `headerRoundtripStatement`, `fileRoundtripStatement`) are now theorems; the
  old counterexamples are kept as regression theorems (`…_roundtrips`).
-/
import DulwichModel.Lemmas.Config

namespace Dulwich.Props.C20
open Dulwich Dulwich.Config

/-! ## 1. value round trip: `_parse_string(_format_string(v)) == v` for EVERY byte string -/

/-- The statement the property makes about values, in full (no hypothesis at all: NUL, CR, VT, FF,
both comment characters, quotes, backslashes, LF, TAB, blanks anywhere). -/
def valueRoundtripStatement : Prop := ∀ v : Bytes, parseString (formatString v) = .ok v

/-- **Value round trip.** Reading what `_format_string` wrote gives the value back, for every value. -/
theorem value_roundtrip : valueRoundtripStatement := by
  intro v
  unfold parseString
  rw [pstrip_of_edges (edges_format v), parseLoop_format v]

/-- the same through the text `from_file` actually hands to `_parse_string` for a line
`\tkey = VALUE\n`: a space, the formatted value, LF -/
theorem value_roundtrip_in_line (v : Bytes) :
    parseString (32 :: (formatString v ++ [10])) = .ok v := by
  unfold parseString
  rw [pstrip_line_of_edges (edges_format v), parseLoop_format v]

/-! ### regression: the witnesses that refuted the statement before 6d569a0 -/

/-- `a;b` is now written `"a;b"` -/
theorem semicolon_roundtrips :
    formatString [97, 59, 98] = [34, 97, 59, 98, 34] ∧ parseString (formatString [97, 59, 98]) = .ok [97, 59, 98] := by
  decide

/-- `a<CR>b` is now written `"a<CR>b"` (raw CR inside quotes, as git writes it) -/
theorem cr_roundtrips :
    formatString [97, 13, 98] = [34, 97, 13, 98, 34] ∧ parseString (formatString [97, 13, 98]) = .ok [97, 13, 98] := by
  decide

theorem cr_edges_roundtrip : parseString (formatString [13, 32, 13]) = .ok [13, 32, 13] := by decide

/-- a leading VT is now protected by quotes -/
theorem leading_vt_roundtrips :
    formatString [11, 97] = [34, 11, 97, 34] ∧ parseString (formatString [11, 97]) = .ok [11, 97] := by decide

/-- a trailing FF is now protected by quotes -/
theorem trailing_ff_roundtrips : parseString (formatString [97, 12]) = .ok [97, 12] := by decide

/-- regression (21a48ab, reader side): the line git writes for the value `<VT>a` — unquoted, git's
`isspace` does not include VT — is read back with the VT (it was read as `a`) … -/
theorem git_unquoted_vt_value_reads_back :
    parseString [32, 11, 97, 10] = .ok [11, 97] ∧ parseString [32, 97, 32, 12, 10] = .ok [97, 32, 12] := by decide

/-- … also through the whole reader: `[s]\n\tk = <VT>a\n` -/
theorem git_unquoted_vt_file_reads_back :
    readFile [91, 115, 93, 10, 9, 107, 32, 61, 32, 11, 97, 10] = .ok [(([115], none), [([107], [11, 97])])] := by
  decide

/-- the reader still drops what git drops around a value: space, TAB, CR, LF -/
example : parseString [32, 9, 97, 32, 13, 10] = .ok [97] := by decide

/-- values that need no quotes are still written bare -/
example : formatString [97, 32, 34, 92, 9, 10, 11, 98] = [97, 32, 92, 34, 92, 92, 92, 116, 92, 110, 11, 98] := by decide
example : parseString (formatString [0, 32, 9, 34, 92, 35, 59, 10, 13, 110, 116, 98, 11, 12, 8, 255, 32])
    = .ok [0, 32, 9, 34, 92, 35, 59, 10, 13, 110, 116, 98, 11, 12, 8, 255, 32] := by decide

/-! ## 2. subsections and section headers -/

/-- **Subsection escape round trip**, for every byte string the writer accepts (everything without LF
and NUL — quotes, backslashes, dots, spaces, brackets, comment characters included). -/
theorem subsection_roundtrip (s e : Bytes) (h : escapeSubsection s = .ok e) : unescapeSubsection e = s := by
  obtain ⟨he, _, _⟩ := escapeSubsection_ok h
  rw [he, unescape_escaped]

/-- the writer refuses exactly LF and NUL (git forbids both in a subsection) -/
theorem escapeSubsection_total (s : Bytes) (h10 : ¬ 10 ∈ s) (h0 : ¬ 0 ∈ s) : ∃ e, escapeSubsection s = .ok e := by
  unfold escapeSubsection
  split
  · rename_i hf
    simp only [List.any_eq_true, Gen.Config.subsectionForbidden] at hf
    obtain ⟨c, hc, hcf⟩ := hf
    simp at hcf
    rcases hcf with rfl | rfl
    · exact (h10 hc).elim
    · exact (h0 hc).elim
  · exact ⟨_, rfl⟩

/-- still excluded, by design: a subsection containing LF is refused by the writer (ValueError) -/
theorem subsection_lf_refused : escapeSubsection [97, 10] = .error .format ∧ escapeSubsection [0] = .error .format := by
  decide

example : escapeSubsection [97, 34, 92, 46, 32, 93, 35, 59, 34] = .ok [97, 92, 34, 92, 92, 46, 32, 93, 35, 59, 92, 34] := by
  decide

/-- The statement the property makes about section headers, in full: for every section name in the
reader's grammar (`isalnum`/`-`/`.`; no `.` when there is no subsection) and EVERY subsection,
whatever header the writer emits is read back as the same section, with nothing left on the line. -/
def headerRoundtripStatement : Prop :=
  ∀ (sec : Section) (hdr : Bytes), checkSectionName sec.1 = true → (sec.2 = none → ¬ 46 ∈ sec.1) →
    writeHeader sec = .ok hdr → parseHeader hdr = .ok (sec, [])

/-- **Header round trip**: the (escape-aware) `_strip_comments` leaves the written line alone, the scan
finds the final `]`, the split finds the name, and unescaping inverts escaping. -/
theorem header_roundtrip : headerRoundtripStatement := by
  intro sec hdr hn hdot hw
  apply parseHeader_written sec hdr _ hw
  obtain ⟨name, sub⟩ := sec
  cases sub with
  | none =>
    have : ¬ 46 ∈ name := hdot rfl
    simp only [wfSection, Bool.and_eq_true, Bool.not_eq_true']
    exact ⟨hn, by simpa [Gen.Config.hdrDot] using this⟩
  | some sub =>
    simp only [writeHeader] at hw
    split at hw
    · cases hw
    · rename_i esc hesc
      obtain ⟨_, h10, h0⟩ := escapeSubsection_ok hesc
      simp only [wfSection, wfSubsection, Bool.and_eq_true, Bool.not_eq_true']
      refine ⟨hn, ?_⟩
      rw [List.any_eq_false]
      intro c hc
      simp only [Gen.Config.subsectionForbidden, List.contains_cons, List.contains_nil, Bool.or_false,
        Bool.or_eq_true, beq_iff_eq, not_or]
      exact ⟨fun e => h10 (e ▸ hc), fun e => h0 (e ▸ hc)⟩

/-- regression: the witness that refuted the statement before f1ebc7b — `(s, a"#b)` is written
`[s "a\"#b"]` and now read back -/
theorem quote_hash_subsection_roundtrips :
    writeHeader ([115], some [97, 34, 35, 98]) = .ok [91, 115, 32, 34, 97, 92, 34, 35, 98, 34, 93, 10] ∧
    parseHeader [91, 115, 32, 34, 97, 92, 34, 35, 98, 34, 93, 10] = .ok (([115], some [97, 34, 35, 98]), []) := by
  decide

/-- still excluded: `[a.b]` is the legacy spelling of section `a`, subsection `b` (git reads it the same
way), so a one-element section key containing `.` does not come back as such -/
theorem dotted_section_reads_as_subsection :
    parseHeader [91, 97, 46, 98, 93, 10] = .ok (([97], some [98]), []) := by decide

/-! ## 3. whole files: `ConfigFile.from_file(write_to_file(cfg)) == cfg` -/

/-- names in the reader's grammar: what `wfCfg` asks besides distinct sections -/
def namesOk (cfg : Cfg) : Bool :=
  cfg.all fun e => checkSectionName e.1.1 && (e.1.2.isSome || !e.1.1.contains 46) && e.2.all fun kv => wfKey kv.1

/-- The statement the property makes about whole configurations, in full: every configuration — an
ordered list of sections, each with an ordered list of `(key, value)` entries, repeated keys allowed,
ANY values, ANY subsections — whose names are in the reader's grammar and whose sections are
pairwise different under `lower_key` (what `ConfigDict.set/add` maintain): whenever `write_to_file`
succeeds, `from_file` on its output returns exactly the same ordered structure. -/
def fileRoundtripStatement : Prop :=
  ∀ cfg : Cfg, namesOk cfg = true → distinctSections cfg = true →
    ∀ data, writeFile cfg = .ok data → readFile data = .ok cfg

/-- `write_to_file` raises only for a subsection with LF/NUL -/
theorem writeFile_ok_subsections (cfg : Cfg) (data : Bytes) (hw : writeFile cfg = .ok data) :
    ∀ e ∈ cfg, ∀ sub, e.1.2 = some sub → wfSubsection sub = true := by
  induction cfg generalizing data with
  | nil => intro e he; cases he
  | cons sd cfg ih =>
    obtain ⟨⟨name, sub0⟩, d⟩ := sd
    simp only [writeFile] at hw
    split at hw
    · cases hw
    · rename_i h hh
      split at hw
      · cases hw
      · rename_i r hr
        intro e he sub hsub
        rcases List.mem_cons.mp he with rfl | he
        · simp only at hsub
          subst hsub
          simp only [writeHeader] at hh
          split at hh
          · cases hh
          · rename_i esc hesc
            unfold escapeSubsection at hesc
            split at hesc
            · cases hesc
            · rename_i hf
              simpa [wfSubsection] using hf
        · exact ih r hr e he sub hsub

/-- **Whole-file round trip**: same sections in the same order with their original spelling, same
keys, same values, every multi-valued key with all its values in their original order. -/
theorem file_roundtrip : fileRoundtripStatement := by
  intro cfg hn hd data hw
  have hsubs := writeFile_ok_subsections cfg data hw
  simp only [namesOk, List.all_eq_true, Bool.and_eq_true, Bool.or_eq_true, Bool.not_eq_true'] at hn
  obtain ⟨s1, hs1⟩ := readLines_file cfg [] none true data hw
    (by
      intro e he
      obtain ⟨⟨hname, hdot⟩, hkeys⟩ := hn e he
      refine ⟨?_, ?_⟩
      · obtain ⟨⟨name, sub⟩, d⟩ := e
        cases sub with
        | none =>
          simp only [wfSection, Bool.and_eq_true, Bool.not_eq_true']
          refine ⟨hname, ?_⟩
          simpa [Gen.Config.hdrDot] using hdot
        | some sub =>
          simp only [wfSection, Bool.and_eq_true]
          exact ⟨hname, hsubs _ he sub rfl⟩
      · simp only [wfEntries, List.all_eq_true]
        exact hkeys)
    hd (fun e he => by cases he)
  unfold readFile
  rw [hs1]
  simp

/-- under `wfCfg` (names as above, subsections without LF/NUL) the writer does not raise -/
theorem writeFile_total (cfg : Cfg) (h : wfCfg cfg = true) : ∃ data, writeFile cfg = .ok data := by
  simp only [wfCfg, Bool.and_eq_true, List.all_eq_true] at h
  have hs := h.1
  clear h
  induction cfg with
  | nil => exact ⟨[], rfl⟩
  | cons sd cfg ih =>
    obtain ⟨r, hr⟩ := ih (fun e he => hs e (by simp [he]))
    obtain ⟨⟨name, sub⟩, d⟩ := sd
    have hsec := (hs ((name, sub), d) (by simp)).1
    have hh : ∃ hd, writeHeader (name, sub) = .ok hd := by
      cases sub with
      | none => exact ⟨_, rfl⟩
      | some sub =>
        simp only [wfSection, wfSubsection, Bool.and_eq_true, Bool.not_eq_true'] at hsec
        have : escapeSubsection sub = .ok (applyWrites Gen.Config.subsectionWrites sub) := by
          unfold escapeSubsection; rw [hsec.2]; rfl
        exact ⟨_, by simp only [writeHeader, this]; rfl⟩
    obtain ⟨hd, hhd⟩ := hh
    exact ⟨hd ++ writeEntries d ++ r, by simp only [writeFile, hhd, hr]⟩

/-- non-vacuity: two sections differing only in subsection case, a multi-valued key in three spellings,
a subsection that used to be unreadable, values from every formerly failing class -/
example : wfCfg [(([82, 101], some [97, 34, 35, 98]),
                    [([85, 114, 108], [97, 59, 98]), ([117, 114, 108], [13]), ([85, 82, 76], [11, 97, 12])]),
                 (([114, 101], some [65, 34, 35, 98]), [([107], [35])]),
                 (([99, 111, 114, 101], none), [])] = true := by decide

/-- regression: `[s] k = a;b` (read back as `k = a` before 6d569a0) -/
theorem file_semicolon_roundtrips :
    writeFile [(([115], none), [([107], [97, 59, 98])])]
      = .ok [91, 115, 93, 10, 9, 107, 32, 61, 32, 34, 97, 59, 98, 34, 10] ∧
    readFile [91, 115, 93, 10, 9, 107, 32, 61, 32, 34, 97, 59, 98, 34, 10]
      = .ok [(([115], none), [([107], [97, 59, 98])])] := by
  decide

/-! ## 4. the multi-valued dictionary: `set`/`add`/`remove` refine the association-list spec -/

/-- `add` appends: multi-valued keys keep their order -/
theorem getAll_add (d : Entries) (k v k' : Bytes) :
    entGetAll (entAdd d k v) k' = if sameKey k k' then entGetAll d k' ++ [v] else entGetAll d k' := by
  unfold entGetAll entAdd
  by_cases h : sameKey k k' = true <;> simp [List.filter_append, h]

/-- `set` replaces every value of the key (case-insensitively) by the one new value, others untouched -/
theorem getAll_set (d : Entries) (k v k' : Bytes) :
    entGetAll (entSet d k v) k' = if sameKey k k' then [v] else entGetAll d k' := by
  unfold entGetAll entSet
  by_cases h : sameKey k k' = true
  · simp only [List.filter_append, List.filter_filter, h, if_true, List.map_append]
    have : d.filter (fun e => sameKey e.1 k' && !sameKey e.1 k) = [] := by
      rw [List.filter_eq_nil_iff]
      intro e _
      simp only [sameKey, beq_iff_eq] at h ⊢
      simp [h]
    simp [this, h]
  · have h' : sameKey k k' = false := by simpa using h
    simp only [List.filter_append, List.filter_filter, h', Bool.false_eq_true, if_false, List.map_append]
    have : d.filter (fun e => sameKey e.1 k' && !sameKey e.1 k) = d.filter (fun e => sameKey e.1 k') := by
      apply List.filter_congr
      intro e _
      cases h1 : sameKey e.1 k' with
      | false => rfl
      | true =>
        cases h2 : sameKey e.1 k with
        | false => rfl
        | true =>
          exfalso
          simp only [sameKey, beq_iff_eq] at h1 h2
          simp [sameKey, ← h1, ← h2] at h'
    simp [this, h']

/-- `remove` deletes every value of the key, others untouched -/
theorem getAll_del (d d' : Entries) (k k' : Bytes) (h : entDel d k = .ok d') :
    entGetAll d' k' = if sameKey k k' then [] else entGetAll d k' := by
  unfold entDel at h
  split at h
  · simp only [Except.ok.injEq] at h
    subst h
    have := getAll_set d k [] k'
    unfold entGetAll entSet at this
    unfold entGetAll
    by_cases hk : sameKey k k' = true
    · simp only [hk, if_true] at this ⊢
      simpa [List.filter_append, List.filter_cons, hk] using this
    · have hk' : sameKey k k' = false := by simpa using hk
      simp only [hk', Bool.false_eq_true, if_false] at this ⊢
      simpa [List.filter_append, List.filter_cons, hk'] using this
  · cases h

/-- `ConfigDict.set`, `add` and `remove` keep the sections pairwise distinct under `lower_key`, so every
configuration built through them from the empty one satisfies that hypothesis of `file_roundtrip` -/
theorem set_keeps_sections_distinct (cfg : Cfg) (sec : Section) (k v : Bytes) (h : distinctSections cfg = true) :
    distinctSections (cfgSet cfg sec k v) = true :=
  distinct_modify _ _ _ (distinct_setDefault cfg sec h)

theorem add_keeps_sections_distinct (cfg : Cfg) (sec : Section) (k v : Bytes) (h : distinctSections cfg = true) :
    distinctSections (cfgAdd cfg sec k v) = true :=
  distinct_modify _ _ _ (distinct_setDefault cfg sec h)

theorem remove_keeps_sections_distinct (cfg cfg' : Cfg) (sec : Section) (k : Bytes)
    (h : distinctSections cfg = true) (hr : cfgRemove cfg sec k = .ok cfg') : distinctSections cfg' = true := by
  unfold cfgRemove at hr
  split at hr
  · cases hr
  · split at hr
    · cases hr
    · simp only [Except.ok.injEq] at hr; subst hr; exact distinct_modify _ _ _ h

/-- `d[k]` is the last value stored -/
theorem get_eq_last (d : Entries) (k : Bytes) : entGet d k = (entGetAll d k).getLast? := rfl

example : entGetAll (entAdd (entAdd (entSet [([107], [48])] [75] [49]) [107] [50]) [120] [51]) [75] = [[49], [50]] := by
  decide

end Dulwich.Props.C20
