/-
  C20 — Configuration files round-trip and mean the same to dulwich and git.

  Only property theorems, non-vacuity examples and negation witnesses live here; helper lemmas are
  in Lemmas/Config.lean.  The model is Model/Config.lean; every table and syntax byte it uses comes
  from Gen/Config.lean, which the translator regenerates from /repo on every run.
-/
import DulwichModel.Lemmas.Config

namespace Dulwich.Props.C20
open Dulwich Dulwich.Config

/-! ## 1. value round trip: `_parse_string(_format_string(v)) == v` -/

/-- The statement the property makes about values, in full. It is FALSE for the code as it stands
(`valueRoundtripStatement_false`); the theorem that holds is `value_roundtrip` under `wfValue`. -/
def valueRoundtripStatement : Prop := ∀ v : Bytes, parseString (formatString v) = .ok v

/-- the reader's loop returns the value on what the writer emitted (before `strip()` is considered) -/
theorem parseLoop_format (v : Bytes) (h : wfValue v = true) :
    parseLoop (formatString v) [] [] false = .ok v := by
  obtain ⟨h13, hq | ⟨hq, h59, _, _⟩⟩ := wfValue_unpack h
  · -- quoted: `"` escaped `"`
    simp only [formatString, hq, if_true, escapeValue_eq, Gen.Config.formatQuoteOpen,
      Gen.Config.formatQuoteClose, List.cons_append, List.nil_append]
    rw [parseLoop_cons_ne 34 _ [] [] false (by decide)]
    simp only [Gen.Config.parseQuoteChar, if_true, Bool.not_false]
    rw [parseLoop_quoted v [34] [] h13, parseLoop_cons_ne 34 [] _ [] true (by decide)]
    simp [Gen.Config.parseQuoteChar, parseLoop, parseFinish]
  · -- unquoted
    obtain ⟨_, hlast, h35⟩ := needsQuote_false hq
    have hf : formatString v = v.flatMap escByte := by simp [formatString, hq, escapeValue_eq]
    rw [hf]
    have := parseLoop_plain v [] [] [] h13 h35 h59
    rw [List.append_nil] at this
    rw [this]
    rcases List.eq_nil_or_concat v with rfl | ⟨ys, l, rfl⟩
    · rfl
    · rw [List.concat_eq_append] at hlast ⊢
      have hl : l ≠ 32 := (hlast l (by simp)).1
      rw [absorb_last ys l hl]
      simp [parseLoop, parseFinish]

/-- the writer's output starts and ends with bytes `strip()` keeps (or is empty) -/
theorem edges_format (v : Bytes) (h : wfValue v = true) : Edges (formatString v) := by
  obtain ⟨h13, hq | ⟨hq, _, hh, hl⟩⟩ := wfValue_unpack h
  · right
    refine ⟨34, 34, ?_, by decide, ?_, by decide⟩
    · simp [formatString, hq, Gen.Config.formatQuoteOpen]
    · simp [formatString, hq, Gen.Config.formatQuoteClose]
  · obtain ⟨hh', hl', _⟩ := needsQuote_false hq
    have hf : formatString v = v.flatMap escByte := by simp [formatString, hq, escapeValue_eq]
    rw [hf]
    apply edges_escaped
    · intro a ha
      have hm : a ∈ v := List.mem_of_mem_head? (by rw [ha]; rfl)
      exact ⟨(hh' a ha).2, (hh' a ha).1, (hh a ha).1, (hh a ha).2, fun e => h13 (e ▸ hm)⟩
    · intro b hb
      have hm : b ∈ v := List.mem_of_getLast? hb
      exact ⟨(hl' b hb).2, (hl' b hb).1, (hl b hb).1, (hl b hb).2, fun e => h13 (e ▸ hm)⟩

/-- **Value round trip.** For every value `v` with `wfValue v` — no CR; and, if the writer's rule leaves it
unquoted (no `#`, no leading/trailing space or tab), no `;` and no VT/FF as first or last byte —
reading what `_format_string` wrote gives `v` back. -/
theorem value_roundtrip (v : Bytes) (h : wfValue v = true) :
    parseString (formatString v) = .ok v := by
  unfold parseString
  rw [strip_of_edges (edges_format v h), parseLoop_format v h]

/-- the same through the text `from_file` actually hands to `_parse_string` for a line
`\tkey = VALUE\n`: a space, the formatted value, LF -/
theorem value_roundtrip_in_line (v : Bytes) (h : wfValue v = true) :
    parseString (32 :: (formatString v ++ [10])) = .ok v := by
  unfold parseString
  rw [strip_line_of_edges (edges_format v h), parseLoop_format v h]

/-- non-vacuity: a value using every special character the predicate allows, quoted -/
example : wfValue [32, 9, 34, 92, 35, 59, 10, 110, 116, 98, 11, 12, 8, 32] = true := by decide
/-- … and one left unquoted -/
example : wfValue [97, 32, 9, 34, 92, 10, 11, 12, 8, 98] = true := by decide
example : parseString (formatString [32, 9, 34, 92, 35, 59, 10, 110, 116, 98, 11, 12, 8, 32])
    = .ok [32, 9, 34, 92, 35, 59, 10, 110, 116, 98, 11, 12, 8, 32] := by decide

/-! ### the excluded classes are real: each is a counterexample to the full statement (§7-F20) -/

/-- `a;b` is written unquoted and read back as `a` -/
theorem semicolon_counterexample :
    formatString [97, 59, 98] = [97, 59, 98] ∧ parseString (formatString [97, 59, 98]) = .ok [97] := by decide

/-- `a<CR>b` is written `a\rb`; the reader has no `r` escape and returns the five bytes `a \ r b` -/
theorem cr_counterexample :
    formatString [97, 13, 98] = [97, 92, 114, 98] ∧
    parseString (formatString [97, 13, 98]) = .ok [97, 92, 114, 98] := by decide

/-- CR is not saved by quoting either -/
theorem cr_quoted_counterexample :
    parseString (formatString [32, 13]) = .ok [32, 92, 114] := by decide

/-- a leading VT is written raw and removed by `strip()` -/
theorem leading_vt_counterexample : parseString (formatString [11, 97]) = .ok [97] := by decide

/-- a trailing FF is written raw and removed by `strip()` -/
theorem trailing_ff_counterexample : parseString (formatString [97, 12]) = .ok [97] := by decide

theorem valueRoundtripStatement_false : ¬ valueRoundtripStatement := by
  intro h
  have := h [97, 59, 98]
  rw [semicolon_counterexample.2] at this
  exact absurd this (by decide)

end Dulwich.Props.C20
