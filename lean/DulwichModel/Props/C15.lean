/-
  C15 — Rust extensions and pure-Python fallbacks are observationally equivalent.

  Only property theorems, non-vacuity examples and negation witnesses live here; helper lemmas and
  the predicates used in the statements are in Lemmas/RsPy.lean.  Models: Model/RsPy*.lean (one `…Py`
  and one `…Rs` definition per function, each transcribed from its own source) and Model/Delta.lean
  (C03).  Constants come from Gen/RsPy.lean and Gen/Delta.lean, regenerated from /repo on every run.

  `obs` forgets the exception class: the property says "the same return value, or failure in both".

  Predicates (Lemmas/RsPy.lean):
    isCanonical tok      tok matches `+?[0-7]+` and its octal value is < 2^32
    modeTokens n f text  the mode tokens met walking `text` entry by entry (to the first space; skip
                         the name to NUL; skip n id bytes)
    nameOk name          no NUL and no `/` in the name
    modesU32 es          every mode is in 0 … 2^32-1
    pathOk path          the path is empty or does not end with `/`
    namesRelative es     no entry name starts with `/`
-/
import DulwichModel.Lemmas.RsPy
import DulwichModel.Props.C03

set_option linter.unusedSimpArgs false

namespace Dulwich.Props.C15
open Dulwich Dulwich.RsPy Dulwich.Delta

/-! ## 1. apply_delta / create_delta (C03's models) -/

/-- **apply_delta: Rust ≡ Python** on every base a 64-bit machine can hold and every byte string offered
as a delta (C03's `rs_equiv_py`, counted here for C15). -/
theorem apply_delta_equiv (src delta : Bytes) (hs : src.length < 2 ^ 64)
    (hd : ∀ n, declaredDest delta = some n → n < 2 ^ 64) :
    applyDeltaRs src delta = applyDelta src delta :=
  Props.C03.rs_equiv_py src delta hs hd

/-- The two emitters (`_create_delta_py`, Rust `create_delta_internal`) produce the same bytes for the
same opcode list with non-empty literal blocks (the lists differ: difflib vs `similar`). -/
theorem create_delta_emitters_equiv (base : Bytes) (ops : List Op)
    (hins : ∀ d, Op.insert d ∈ ops → d ≠ []) : rsCreateDelta base ops = createDelta base ops := by
  simp only [rsCreateDelta, createDelta, rsEmitOps_eq ops hins]

/-- **create_delta: the bytes may differ, both decode to the target with either decoder.**  For every
base below 4 GiB and EVERY opcode list (difflib's or `similar`'s) whose copy blocks lie in the base and
whose literal blocks are non-empty, either emitter's delta is decoded by either decoder to exactly the
bytes the opcode list denotes. -/
theorem create_delta_decodes_with_both (base : Bytes) (ops : List Op)
    (hv : Props.C03.OpsValid base ops) (h32 : base.length ≤ 2 ^ 32)
    (hins : ∀ d, Op.insert d ∈ ops → 0 < d.length) (ht : (opsTarget base ops).length < 2 ^ 64) :
    applyDelta base (createDelta base ops) = .ok (opsTarget base ops) ∧
    applyDeltaRs base (createDelta base ops) = .ok (opsTarget base ops) ∧
    applyDelta base (rsCreateDelta base ops) = .ok (opsTarget base ops) ∧
    applyDeltaRs base (rsCreateDelta base ops) = .ok (opsTarget base ops) := by
  have hne : ∀ d, Op.insert d ∈ ops → d ≠ [] := by
    intro d hd h; have := hins d hd; rw [h] at this; simp at this
  have hpy := Props.C03.apply_create base ops hv h32 hins
  have hdecl : ∀ n, declaredDest (createDelta base ops) = some n → n < 2 ^ 64 := by
    intro n hn
    unfold declaredDest createDelta at hn
    rw [List.append_assoc, Props.C03.size_roundtrip] at hn
    simp only [Props.C03.size_roundtrip, Option.map_some, Option.some.injEq] at hn
    omega
  have hrs := apply_delta_equiv base (createDelta base ops) (by omega) hdecl
  rw [create_delta_emitters_equiv base ops hne]
  exact ⟨hpy, hrs ▸ hpy, hpy, hrs ▸ hpy⟩

/-- Non-vacuity: an opcode list with a copy and a literal. -/
example : applyDeltaRs [1, 2, 3, 4] (rsCreateDelta [1, 2, 3, 4] [.copy 1 2, .insert [9]]) = .ok [2, 3, 9] ∧
    applyDelta [1, 2, 3, 4] (createDelta [1, 2, 3, 4] [.copy 1 2, .insert [9]]) = .ok [2, 3, 9] := by
  have h := create_delta_decodes_with_both [1, 2, 3, 4] [.copy 1 2, .insert [9]]
    (by simp [Props.C03.OpsValid]) (by simp) (by simp) (by simp [opsTarget])
  simp only [opsTarget] at h
  exact ⟨h.2.2.2, h.1⟩

/-! ## 2. mode tokens: Python `int(tok, 8)` vs Rust `u32::from_str_radix(tok, 8)` -/

/-- Whatever Rust accepts, Python accepts with the same value (any token, any strictness). -/
theorem mode_token_rs_refines_py (strict : Bool) (tok : Bytes) (v : Int)
    (h : rsTok strict tok = some v) : pyTok strict tok = some v := rsTok_pyTok h

/-- **Exact agreement condition.**  The two mode parsers agree on a token iff Python rejects it or it is
canonical (`+?[0-7]+`, value < 2^32).  Everything else — sign `-`, surrounding whitespace, `0o` prefix,
underscores, ≥ 2^32 — is accepted by Python only. -/
theorem mode_token_agree_iff (strict : Bool) (tok : Bytes) :
    rsTok strict tok = pyTok strict tok ↔ (pyTok strict tok = none ∨ isCanonical tok = true) := by
  constructor
  · intro h
    cases hp : pyTok strict tok with
    | none => exact Or.inl rfl
    | some v => rw [hp] at h; exact Or.inr (rsTok_canonical h)
  · rintro (h | h)
    · cases hr : rsTok strict tok with
      | none => rw [h]
      | some v => rw [rsTok_pyTok hr] at h; cases h
    · exact tok_canonical_eq strict h

/-- Non-vacuity / meaning of `isCanonical`. -/
example : isCanonical (asciiBytes "100644") = true ∧ isCanonical (asciiBytes "+0644") = true ∧
    isCanonical (asciiBytes "37777777777") = true ∧ isCanonical (asciiBytes "40000000000") = false ∧
    isCanonical (asciiBytes "-644") = false ∧ isCanonical (asciiBytes "0o644") = false ∧
    isCanonical (asciiBytes "6_44") = false ∧ isCanonical [] = false ∧ isCanonical (asciiBytes "+") = false := by
  decide

/-- **Divergence table (F15)**: tokens Python's `int(b, 8)` accepts and Rust rejects — each confirmed on
the real pair of implementations by the harness (corpus/C15/parse_mode_*.json, stream tree.parse). -/
theorem mode_token_divergence_witnesses :
    pyInt 8 (asciiBytes "-644") = some (-420) ∧ rsFromStrRadix 8 32 (asciiBytes "-644") = none ∧
    pyInt 8 [9, 54, 52, 52] = some 420 ∧ rsFromStrRadix 8 32 [9, 54, 52, 52] = none ∧          -- "\t644"
    pyInt 8 [54, 52, 52, 10] = some 420 ∧ rsFromStrRadix 8 32 [54, 52, 52, 10] = none ∧        -- "644\n"
    pyInt 8 (asciiBytes "0o644") = some 420 ∧ rsFromStrRadix 8 32 (asciiBytes "0o644") = none ∧
    pyInt 8 (asciiBytes "0O_644") = some 420 ∧ rsFromStrRadix 8 32 (asciiBytes "0O_644") = none ∧
    pyInt 8 (asciiBytes "6_44") = some 420 ∧ rsFromStrRadix 8 32 (asciiBytes "6_44") = none ∧
    pyInt 8 (asciiBytes "-0") = some 0 ∧ rsFromStrRadix 8 32 (asciiBytes "-0") = none ∧
    pyInt 8 (asciiBytes "40000000000") = some 4294967296 ∧ rsFromStrRadix 8 32 (asciiBytes "40000000000") = none ∧
    pyInt 8 (asciiBytes "777777777777") = some 68719476735 ∧ rsFromStrRadix 8 32 (asciiBytes "777777777777") = none := by
  decide

/-- … and look-alikes on which they do agree (both reject, or both accept). -/
theorem mode_token_agreement_witnesses :
    pyInt 8 (asciiBytes " 644") = some 420 ∧                      -- never a token: parse_tree splits at the space
    pyInt 8 (asciiBytes "+644") = some 420 ∧ rsFromStrRadix 8 32 (asciiBytes "+644") = some 420 ∧
    pyInt 8 (asciiBytes "_644") = none ∧ pyInt 8 (asciiBytes "644_") = none ∧ pyInt 8 (asciiBytes "6__44") = none ∧
    pyInt 8 (asciiBytes "0o") = none ∧ pyInt 8 (asciiBytes "648") = none ∧ pyInt 8 (asciiBytes "+-1") = none ∧
    pyInt 8 [54, 0, 52] = none ∧ pyInt 8 [] = none ∧ rsFromStrRadix 8 32 [] = none ∧
    pyInt 8 (asciiBytes "37777777777") = some 4294967295 ∧ rsFromStrRadix 8 32 (asciiBytes "37777777777") = some 4294967295 ∧
    pyInt 8 (asciiBytes "000000000000000644") = some 420 ∧ rsFromStrRadix 8 32 (asciiBytes "000000000000000644") = some 420 := by
  decide

/-! ## 3. parse_tree -/

/-- **Rust refines Python** on every payload, both id lengths, strict on or off: when the Rust parser
returns entries, the Python parser returns the same entries.  (So the only possible divergence is
"Python returns, Rust raises".) -/
theorem parse_tree_rs_refines_py (text : Bytes) (n : Nat) (hn : n = 20 ∨ n = 32) (strict : Bool)
    (r : List TreeEntry) (h : parseTreeRs text (some n) strict = .ok r) :
    parseTreePy text (some n) strict = .ok r := by
  have := rsLoop_refines_pyLoop text n hn strict (text.length + 1) 0 r (Nat.zero_le _)
  simp only [List.drop_zero] at this
  exact this h

/-- Full statement (false on the unchanged code, see the counterexample below). -/
def ParseTreeEquivStatement : Prop :=
  ∀ (text : Bytes) (n : Nat) (strict : Bool), n = 20 ∨ n = 32 →
    obs (parseTreeRs text (some n) strict) = obs (parseTreePy text (some n) strict)

/-- **parse_tree: Rust ≡ Python** (same entries, or failure in both) for every payload whose mode tokens
are canonical — valid or not otherwise: missing terminators, truncated ids, leading zeros under
`strict`, both id lengths.  The hypothesis is exactly where they diverge (`mode_token_agree_iff`). -/
theorem parse_tree_equiv_partial (text : Bytes) (n : Nat) (hn : n = 20 ∨ n = 32) (strict : Bool)
    (h : ∀ t ∈ modeTokens n (text.length + 1) text, isCanonical t = true) :
    obs (parseTreeRs text (some n) strict) = obs (parseTreePy text (some n) strict) := by
  have := loops_obs_eq text n hn strict (text.length + 1) 0 (Nat.zero_le _)
  simp only [List.drop_zero] at this
  exact this h

/-- **Exact divergence class of parse_tree.**  The two parsers give different observable results on a
payload iff the Python parser returns entries and some mode token it met is not canonical.  (In
particular every other malformation — missing terminators, truncated ids, empty tokens, digits 8/9,
junk bytes, leading zeros under `strict` — is handled identically.) -/
theorem parse_tree_diverges_iff (text : Bytes) (n : Nat) (hn : n = 20 ∨ n = 32) (strict : Bool) :
    obs (parseTreeRs text (some n) strict) ≠ obs (parseTreePy text (some n) strict) ↔
      (∃ r, parseTreePy text (some n) strict = .ok r) ∧
      ∃ t ∈ modeTokens n (text.length + 1) text, isCanonical t = false := by
  constructor
  · intro hne
    have hex : ∃ t ∈ modeTokens n (text.length + 1) text, isCanonical t = false := by
      apply Classical.byContradiction
      intro hno
      apply hne
      apply parse_tree_equiv_partial text n hn strict
      intro t ht
      cases hc : isCanonical t with
      | true => rfl
      | false => exact absurd ⟨t, ht, hc⟩ hno
    refine ⟨?_, hex⟩
    cases hr : parseTreeRs text (some n) strict with
    | ok r => rw [hr, parse_tree_rs_refines_py text n hn strict r hr] at hne; exact absurd rfl hne
    | error e =>
      cases hp : parseTreePy text (some n) strict with
      | ok r => exact ⟨r, rfl⟩
      | error e2 => rw [hr, hp] at hne; exact absurd rfl hne
  · rintro ⟨⟨r, hp⟩, t, ht, hc⟩ heq
    cases hr : parseTreeRs text (some n) strict with
    | ok r2 =>
      have := rsLoop_ok_tokens n strict (text.length + 1) text r2 hr t ht
      rw [hc] at this; cases this
    | error e => rw [hr, hp] at heq; cases heq

/-- The loop bounds in the models are never reached: both parsers are total functions of the payload. -/
theorem parse_tree_fuel (text : Bytes) (n : Nat) (hn : n = 20 ∨ n = 32) (strict : Bool) :
    parseTreeRs text (some n) strict ≠ .error .fuel ∧ parseTreePy text (some n) strict ≠ .error .fuel := by
  constructor
  · exact rsLoop_fuel n strict (text.length + 1) text (by omega)
  · exact pyLoop_fuel text n hn strict (text.length + 1) 0 (Nat.zero_le _) (by omega)

/-- one entry `tok ++ " a\0" ++ <20 id bytes>` -/
def entry20 (tok : Bytes) : Bytes :=
  tok ++ [32, 97, 0] ++ [1, 2, 3, 4, 5, 6, 7, 8, 9, 10, 11, 12, 13, 14, 15, 16, 17, 18, 19, 20]

/-- Non-vacuity: a two-entry payload with canonical tokens parses identically (and non-trivially);
truncating it fails in both. -/
example :
    (∀ t ∈ modeTokens 20 100 (entry20 (asciiBytes "100644") ++ entry20 (asciiBytes "40000")), isCanonical t = true) ∧
    (parseTreeRs (entry20 (asciiBytes "100644") ++ entry20 (asciiBytes "40000")) (some 20) false).toOption.map List.length = some 2 ∧
    obs (parseTreeRs ((entry20 (asciiBytes "100644")).take 25) (some 20) false) = none ∧
    obs (parseTreePy ((entry20 (asciiBytes "100644")).take 25) (some 20) false) = none := by
  decide

/-- **Negation witness (F15)**: mode token `-644` — Python returns the entry with mode −420, Rust raises. -/
theorem parse_tree_equiv_counterexample : ¬ ParseTreeEquivStatement := by
  intro h
  have := h (entry20 (asciiBytes "-644")) 20 false (Or.inl rfl)
  revert this
  decide

/-- The same payload family on the models, token by token: Python result vs Rust result. -/
theorem parse_tree_divergence_witnesses :
    (obs (parseTreePy (entry20 (asciiBytes "-644")) (some 20) false)).isSome ∧ obs (parseTreeRs (entry20 (asciiBytes "-644")) (some 20) false) = none ∧
    (obs (parseTreePy (entry20 [9, 54, 52, 52]) (some 20) true)).isSome ∧ obs (parseTreeRs (entry20 [9, 54, 52, 52]) (some 20) true) = none ∧
    (obs (parseTreePy (entry20 (asciiBytes "0o644")) (some 20) false)).isSome ∧ obs (parseTreeRs (entry20 (asciiBytes "0o644")) (some 20) false) = none ∧
    (obs (parseTreePy (entry20 (asciiBytes "6_44")) (some 20) true)).isSome ∧ obs (parseTreeRs (entry20 (asciiBytes "6_44")) (some 20) true) = none ∧
    (obs (parseTreePy (entry20 (asciiBytes "777777777777")) (some 20) false)).isSome ∧ obs (parseTreeRs (entry20 (asciiBytes "777777777777")) (some 20) false) = none ∧
    -- under `strict` the `0o` prefix is caught by the leading-zero check on both sides
    obs (parseTreePy (entry20 (asciiBytes "0o644")) (some 20) true) = none ∧
    -- a leading space is an empty token: both fail
    obs (parseTreePy (entry20 (asciiBytes " 644")) (some 20) false) = none ∧ obs (parseTreeRs (entry20 (asciiBytes " 644")) (some 20) false) = none := by
  decide

/-! ## 4. sorted_tree_items -/

/-- **Tree order.**  For ALL byte-string names without NUL and `/` and all 32-bit modes, the Rust
comparator `cmp_with_suffix` is the lexicographic order of the Python keys (`name`, or `name + "/"`
for directories). -/
theorem tree_order_equiv (a b : TreeEntry) (ha : nameOk a.name) (hb : nameOk b.name)
    (hma : 0 ≤ a.mode ∧ a.mode < 2 ^ 32) (hmb : 0 ≤ b.mode ∧ b.mode < 2 ^ 32) :
    ∃ ka kb, pyKeyEntry a = .ok ka ∧ pyKeyEntry b = .ok kb ∧
      rsCmpWithSuffix (a.mode.toNat, a.name) (b.mode.toNat, b.name) = cmpBytes ka kb := by
  have e1 : Gen.pyDirSuffix = 47 := rfl
  refine ⟨pyKeyOf (rsObjIsDir a.mode.toNat) a.name, pyKeyOf (rsObjIsDir b.mode.toNat) b.name, ?_, ?_, ?_⟩
  · simp only [pyKeyEntry, pyIsDir_ok hma, pyKeyOf, e1]
  · simp only [pyKeyEntry, pyIsDir_ok hmb, pyKeyOf, e1]
  · exact cmp_suffix_eq _ _ _ _ ha hb

/-- Non-vacuity: directory `a` against file `a.` and file `a0` (`.` < `/` < `0`): the hypotheses hold and the
order is the one git uses. -/
example : nameOk [97] ∧ nameOk [97, 46] ∧ nameOk [97, 48] ∧
    rsCmpWithSuffix (16384, [97]) (33188, [97, 46]) = .gt ∧ rsCmpWithSuffix (16384, [97]) (33188, [97, 48]) = .lt ∧
    rsCmpWithSuffix (33188, [97]) (33188, [97, 46]) = .lt := by
  refine ⟨by simp [nameOk], by simp [nameOk], by simp [nameOk], by decide, by decide, by decide⟩

def SortedTreeItemsEquivStatement : Prop :=
  ∀ (es : List TreeEntry) (nameOrder : Bool),
    obs (sortedTreeItemsRs es nameOrder) = obs (sortedTreeItemsPy es nameOrder)

/-- **sorted_tree_items: Rust ≡ Python** for every entry dictionary (any size, any insertion order, names
that are prefixes of one another, file/directory twins …) whose modes are 32-bit and — in tree order —
whose names contain neither NUL nor `/`; in name order no condition on names at all. -/
theorem sorted_tree_items_equiv_partial (es : List TreeEntry) (nameOrder : Bool) (hm : modesU32 es)
    (hn : nameOrder = false → ∀ e ∈ es, nameOk e.name) :
    sortedTreeItemsRs es nameOrder = sortedTreeItemsPy es nameOrder := sorted_eq es nameOrder hm hn

def H40 : Bytes := List.replicate 40 97

/-- Non-vacuity: the prefix family `a`, `a.`, `a-`, `a0`, `ab` with `a` once as file and once as directory
(as two dictionaries) sorts identically and differently for the two kinds. -/
example :
    sortedTreeItemsRs [⟨[97, 48], 33188, H40⟩, ⟨[97], 16384, H40⟩, ⟨[97, 46], 33188, H40⟩, ⟨[97, 45], 33188, H40⟩] false
      = .ok [⟨[97, 45], 33188, H40⟩, ⟨[97, 46], 33188, H40⟩, ⟨[97], 16384, H40⟩, ⟨[97, 48], 33188, H40⟩] ∧
    sortedTreeItemsPy [⟨[97, 48], 33188, H40⟩, ⟨[97], 33188, H40⟩, ⟨[97, 46], 33188, H40⟩, ⟨[97, 45], 33188, H40⟩] false
      = .ok [⟨[97], 33188, H40⟩, ⟨[97, 45], 33188, H40⟩, ⟨[97, 46], 33188, H40⟩, ⟨[97, 48], 33188, H40⟩] := by
  decide

/-- **Negation witnesses**: (1) `{a/b: file, a: dir}` — Python puts the directory first (`a/` < `a/b`), the
Rust comparator looks one byte past the common prefix, says Equal, and the stable sort keeps dictionary
order; (2) `{a\0: file, a: file}` — the `0` "no suffix" sentinel collides with a real NUL;
(3) name order with mode 2^32 — Python returns, Rust raises `TypeError`. -/
theorem sorted_tree_items_counterexamples :
    sortedTreeItemsPy [⟨[97, 47, 98], 33188, H40⟩, ⟨[97], 16384, H40⟩] false = .ok [⟨[97], 16384, H40⟩, ⟨[97, 47, 98], 33188, H40⟩] ∧
    sortedTreeItemsRs [⟨[97, 47, 98], 33188, H40⟩, ⟨[97], 16384, H40⟩] false = .ok [⟨[97, 47, 98], 33188, H40⟩, ⟨[97], 16384, H40⟩] ∧
    sortedTreeItemsPy [⟨[97, 0], 33188, H40⟩, ⟨[97], 33188, H40⟩] false = .ok [⟨[97], 33188, H40⟩, ⟨[97, 0], 33188, H40⟩] ∧
    sortedTreeItemsRs [⟨[97, 0], 33188, H40⟩, ⟨[97], 33188, H40⟩] false = .ok [⟨[97, 0], 33188, H40⟩, ⟨[97], 33188, H40⟩] ∧
    sortedTreeItemsPy [⟨[97], 4294967296, H40⟩] true = .ok [⟨[97], 4294967296, H40⟩] ∧
    sortedTreeItemsRs [⟨[97], 4294967296, H40⟩] true = .error .type ∧
    -- tree order with such a mode fails in both (OverflowError / TypeError)
    obs (sortedTreeItemsPy [⟨[97], 4294967296, H40⟩] false) = none ∧ obs (sortedTreeItemsRs [⟨[97], 4294967296, H40⟩] false) = none := by
  decide

theorem sorted_tree_items_equiv_counterexample : ¬ SortedTreeItemsEquivStatement := by
  intro h
  have := h [⟨[97, 47, 98], 33188, H40⟩, ⟨[97], 16384, H40⟩] false
  revert this
  decide

/-! ## 5. bisect_find_sha -/

def BisectEquivStatement : Prop :=
  ∀ (unpack : Int → Except Exc Bytes) (sha : Bytes) (s e : Int), sha.length = 20 ∨ sha.length = 32 →
    obs (bisectRs unpack sha s e) = obs (bisectPy unpack sha s e)

/-- **bisect_find_sha: Rust ≡ Python** for `0 ≤ start ≤ end < 2^30`, every probe of an id length, EVERY
callback returning ids (or failing) — sorted table or not: same index, same `None`, same exception from
the callback. -/
theorem bisect_equiv (unpack : Int → Except Exc Bytes) (sha : Bytes) (s e : Int)
    (hsha : sha.length = 20 ∨ sha.length = 32)
    (hun : ∀ i r, unpack i = .ok r → r.length = 20 ∨ r.length = 32)
    (h0 : 0 ≤ s) (hse : s ≤ e) (he : e < 2 ^ 30) :
    bisectRs unpack sha s e = bisectPy unpack sha s e := by
  have eb : Gen.rsBisectBits = 32 := rfl
  have el : Gen.rsBisectShaLens = [20, 32] := rfl
  have hs : inSigned 32 s = true := (inSigned32 _).2 (by omega)
  have he' : inSigned 32 e = true := (inSigned32 _).2 (by omega)
  have hmem : sha.length ∈ [20, 32] := by rcases hsha with h | h <;> simp [h]
  have hgt : ¬ s > e := by omega
  simp only [bisectRs, bisectPy, eb, el, hs, he', hmem, hgt, hse, not_true_eq_false, or_self, if_false, if_true]
  exact bisectLoop_eq unpack sha hun _ s e h0 (by omega) (by omega) he

/-- `start > end` fails in both (`AssertionError` / `ValueError`) for bounds that fit `i32`; the probe
length is not looked at by Python, so it is required here. -/
theorem bisect_start_gt_end_both_fail (unpack : Int → Except Exc Bytes) (sha : Bytes) (s e : Int) (h : e < s) :
    obs (bisectPy unpack sha s e) = none ∧ obs (bisectRs unpack sha s e) = none := by
  constructor
  · have : ¬ s ≤ e := by omega
    simp only [bisectPy, this, not_false_eq_true, if_true, obs]
  · simp only [bisectRs]
    split
    · rfl
    · split
      · rfl
      · have : s > e := by omega
        simp only [this, if_true, obs]

/-- The Python loop needs at most `end - start + 1` iterations for ANY integers: the model's loop bound
is never reached (unless the callback itself says so). -/
theorem bisect_py_fuel (unpack : Int → Except Exc Bytes) (sha : Bytes) (s e : Int)
    (hun : ∀ i, unpack i ≠ .error .fuel) : bisectPy unpack sha s e ≠ .error .fuel := by
  simp only [bisectPy]
  split
  · simp
  · rcases bisectLoopPy_fuel unpack sha (bisectFuel s e) s e (by simp only [bisectFuel]; omega) with h | ⟨i, hi⟩
    · exact h
    · exact absurd hi (hun i)

def id20 (b : UInt8) : Bytes := List.replicate 20 b

/-- Non-vacuity: a three-entry table, hit and miss. -/
example : bisectRs (unpackStrict [id20 1, id20 5, id20 9]) (id20 9) 0 2 = .ok (some 2) ∧
    bisectPy (unpackStrict [id20 1, id20 5, id20 9]) (id20 9) 0 2 = .ok (some 2) ∧
    bisectPy (unpackStrict [id20 1, id20 5, id20 9]) (id20 4) 0 2 = .ok none := by decide

/-- **Negation witnesses**: (1) `start=-1, end=0`: Python probes ⌊-1/2⌋ = −1 (IndexError from a strict
table; the LAST entry with Python list indexing, so a present id is reported absent), Rust probes
trunc(−1/2) = 0 and finds it; (2) `start=end=2^30` on a table defined everywhere: Python finds it, the Rust
`i32` sum overflows (panic in debug builds); (3) `end=2^31`: `OverflowError` at the call boundary. -/
theorem bisect_divergence_witnesses :
    bisectPy (unpackStrict [id20 7]) (id20 7) (-1) 0 = .error .index ∧
    bisectRs (unpackStrict [id20 7]) (id20 7) (-1) 0 = .ok (some 0) ∧
    bisectPy (unpackWrap [id20 1, id20 5]) (id20 1) (-1) 0 = .ok none ∧
    bisectRs (unpackWrap [id20 1, id20 5]) (id20 1) (-1) 0 = .ok (some 0) ∧
    bisectPy (unpackSynth (2 ^ 40) 20) (beBytes 20 (2 ^ 40 + 2 ^ 30)) (2 ^ 30) (2 ^ 30) = .ok (some (2 ^ 30)) ∧
    bisectRs (unpackSynth (2 ^ 40) 20) (beBytes 20 (2 ^ 40 + 2 ^ 30)) (2 ^ 30) (2 ^ 30) = .error .panic ∧
    bisectRs (unpackSynth (2 ^ 40) 20) (beBytes 20 (2 ^ 40 + 5)) 0 (2 ^ 31) = .error .overflow := by
  decide

theorem bisect_equiv_counterexample : ¬ BisectEquivStatement := by
  intro h
  have := h (unpackStrict [id20 7]) (id20 7) (-1) 0 (Or.inl (by decide))
  revert this
  decide

/-! ## 6. _merge_entries, _is_tree -/

def MergeEntriesEquivStatement : Prop :=
  ∀ (path : Bytes) (t1 t2 : Option (List TreeEntry)),
    obs (mergeEntriesRs path t1 t2) = obs (mergeEntriesPy path t1 t2)

/-- **_merge_entries: Rust ≡ Python** for every pair of trees (or `None`) with 32-bit modes, any names
not starting with `/` (NUL, inner `/`, prefixes, twins allowed) and a path that is empty or does not end
with `/` — the two places where `posixpath.join` is not plain concatenation. -/
theorem merge_entries_equiv_partial (path : Bytes) (t1 t2 : Option (List TreeEntry)) (hp : pathOk path)
    (hm : ∀ t es, (t = t1 ∨ t = t2) → t = some es → modesU32 es)
    (hn : ∀ t es, (t = t1 ∨ t = t2) → t = some es → namesRelative es) :
    mergeEntriesRs path t1 t2 = mergeEntriesPy path t1 t2 := by
  simp only [mergeEntriesRs, mergeEntriesPy,
    treeEntries_eq path hp t1 (fun es h => hm t1 es (Or.inl rfl) h) (fun es h => hn t1 es (Or.inl rfl) h),
    treeEntries_eq path hp t2 (fun es h => hm t2 es (Or.inr rfl) h) (fun es h => hn t2 es (Or.inr rfl) h),
    mergeLoop_eq]

/-- Non-vacuity: two overlapping trees under a path. -/
example : mergeEntriesRs [112] (some [⟨[98], 33188, H40⟩, ⟨[97], 16384, H40⟩]) (some [⟨[98], 33188, H40⟩, ⟨[99], 33188, H40⟩])
    = .ok [(some ⟨[112, 47, 97], 16384, H40⟩, none), (some ⟨[112, 47, 98], 33188, H40⟩, some ⟨[112, 47, 98], 33188, H40⟩),
           (none, some ⟨[112, 47, 99], 33188, H40⟩)] := by decide

/-- **Negation witnesses**: name `/a` under path `p` (Python `/a`, Rust `p//a`); path `p/` (Python `p/a`,
Rust `p//a`); mode 2^32 (Python returns, Rust `TypeError`). -/
theorem merge_entries_divergence_witnesses :
    mergeEntriesPy [112] (some [⟨[47, 97], 33188, H40⟩]) none = .ok [(some ⟨[47, 97], 33188, H40⟩, none)] ∧
    mergeEntriesRs [112] (some [⟨[47, 97], 33188, H40⟩]) none = .ok [(some ⟨[112, 47, 47, 97], 33188, H40⟩, none)] ∧
    mergeEntriesPy [112, 47] (some [⟨[97], 33188, H40⟩]) none = .ok [(some ⟨[112, 47, 97], 33188, H40⟩, none)] ∧
    mergeEntriesRs [112, 47] (some [⟨[97], 33188, H40⟩]) none = .ok [(some ⟨[112, 47, 47, 97], 33188, H40⟩, none)] ∧
    (obs (mergeEntriesPy [112] (some [⟨[97], 4294967296, H40⟩]) none)).isSome ∧
    mergeEntriesRs [112] (some [⟨[97], 4294967296, H40⟩]) none = .error .type := by
  decide

theorem merge_entries_equiv_counterexample : ¬ MergeEntriesEquivStatement := by
  intro h
  have := h [112] (some [⟨[47, 97], 33188, H40⟩]) none
  revert this
  decide

/-- **_is_tree: Rust ≡ Python** for `None`, a missing mode and EVERY integer mode (outside 0 … 2^32-1 both
raise `OverflowError`). -/
theorem is_tree_equiv (a : IsTreeArg) : isTreeRs a = isTreePy a := isTree_eq a

example : isTreeRs (.mode 16877) = .ok true ∧ isTreePy (.mode 33188) = .ok false ∧
    isTreeRs (.mode (-1)) = .error .overflow ∧ isTreePy (.mode 4294967296) = .error .overflow := by decide

/-! ## 7. _count_blocks -/

/-- **_count_blocks: Rust ≡ Python** for every blob, every chunking of it and every block size: the two
loops cut the same sequence of blocks (so the dictionaries `hash(block) ↦ bytes` are equal, whatever
`hash` is). -/
theorem count_blocks_equiv (bs : Nat) (chunks : List Bytes) :
    countBlocksRs bs chunks = countBlocksPy bs chunks := chunksLoop_eq bs chunks []

/-- Non-vacuity: a line, a 64-byte cut inside a long line and an unterminated tail, split over chunks. -/
example : countBlocksRs 4 [[97, 10, 98], [98, 98, 98, 98], [], [99]] = [[97, 10], [98, 98, 98, 98], [98, 99]] ∧
    countBlocksPy 4 [[97, 10, 98], [98, 98, 98, 98], [], [99]] = [[97, 10], [98, 98, 98, 98], [98, 99]] ∧
    Gen.blockSize = 64 := by decide

end Dulwich.Props.C15
