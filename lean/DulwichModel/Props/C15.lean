/-
  C15 — Rust extensions and pure-Python fallbacks are observationally equivalent.

  Only property theorems, non-vacuity examples and negation witnesses live here; helper lemmas and
  the predicates used in the statements are in Lemmas/RsPy.lean.  Models: Model/RsPy*.lean (one `…Py`
  and one `…Rs` definition per function, each transcribed from its own source) and Model/Delta.lean
  (C03).  Constants come from Gen/RsPy.lean and Gen/Delta.lean, regenerated from /repo on every run.

  `obs` forgets the exception class: the property says "the same return value, or failure in both".

  The models without suffix describe the code after the C15 repair series (findings/C15.jsonl, `fixed`);
  the theorems about them are FULL equivalences.  The `…Old` models describe the code before the series;
  the divergences it had are kept as `decide`d regression witnesses (`…_old_…`), next to the same inputs
  on the repaired models.

  Predicate (Lemmas/RsPy.lean):  modesU32 es  — every mode is in 0 … 2^32-1
-/
import DulwichModel.Lemmas.RsPy
import DulwichModel.Props.C03

set_option linter.unusedSimpArgs false

namespace Dulwich.Props.C15
open Dulwich Dulwich.RsPy Dulwich.Delta

/-! ## 1. apply_delta / create_delta (C03's models) -/

/-- **apply_delta: Rust ≡ Python** on every base a 64-bit machine can hold and every byte string offered
as a delta (C03's `rs_equiv_py`, counted here for C15). -/
theorem apply_delta_equiv (src delta : Bytes) (hs : src.length < 2 ^ 64)
    (hd : ∀ n, declaredDest delta = some n → n < 2 ^ 64) :
    applyDeltaRs src delta = applyDelta src delta :=
  Props.C03.rs_equiv_py src delta hs hd

/-- The two emitters (`_create_delta_py`, Rust `create_delta_internal`) produce the same bytes for the
same opcode list with non-empty literal blocks (the lists differ: difflib vs `similar`). -/
theorem create_delta_emitters_equiv (base : Bytes) (ops : List Op)
    (hins : ∀ d, Op.insert d ∈ ops → d ≠ []) : rsCreateDelta base ops = createDelta base ops := by
  simp only [rsCreateDelta, createDelta, rsEmitOps_eq ops hins]

/-- **create_delta: the bytes may differ, both decode to the target with either decoder.**  For every
base below 4 GiB and EVERY opcode list (difflib's or `similar`'s) whose copy blocks lie in the base and
whose literal blocks are non-empty, either emitter's delta is decoded by either decoder to exactly the
bytes the opcode list denotes. -/
theorem create_delta_decodes_with_both (base : Bytes) (ops : List Op)
    (hv : Props.C03.OpsValid base ops) (h32 : base.length ≤ 2 ^ 32)
    (hins : ∀ d, Op.insert d ∈ ops → 0 < d.length) (ht : (opsTarget base ops).length < 2 ^ 64) :
    applyDelta base (createDelta base ops) = .ok (opsTarget base ops) ∧
    applyDeltaRs base (createDelta base ops) = .ok (opsTarget base ops) ∧
    applyDelta base (rsCreateDelta base ops) = .ok (opsTarget base ops) ∧
    applyDeltaRs base (rsCreateDelta base ops) = .ok (opsTarget base ops) := by
  have hne : ∀ d, Op.insert d ∈ ops → d ≠ [] := by
    intro d hd h; have := hins d hd; rw [h] at this; simp at this
  have hpy := Props.C03.apply_create base ops hv h32 hins
  have hdecl : ∀ n, declaredDest (createDelta base ops) = some n → n < 2 ^ 64 := by
    intro n hn
    unfold declaredDest createDelta at hn
    rw [List.append_assoc, Props.C03.size_roundtrip] at hn
    simp only [Props.C03.size_roundtrip, Option.map_some, Option.some.injEq] at hn
    omega
  have hrs := apply_delta_equiv base (createDelta base ops) (by omega) hdecl
  rw [create_delta_emitters_equiv base ops hne]
  exact ⟨hpy, hrs ▸ hpy, hpy, hrs ▸ hpy⟩

/-- Non-vacuity: an opcode list with a copy and a literal. -/
example : applyDeltaRs [1, 2, 3, 4] (rsCreateDelta [1, 2, 3, 4] [.copy 1 2, .insert [9]]) = .ok [2, 3, 9] ∧
    applyDelta [1, 2, 3, 4] (createDelta [1, 2, 3, 4] [.copy 1 2, .insert [9]]) = .ok [2, 3, 9] := by
  have h := create_delta_decodes_with_both [1, 2, 3, 4] [.copy 1 2, .insert [9]]
    (by simp [Props.C03.OpsValid]) (by simp) (by simp) (by simp [opsTarget])
  simp only [opsTarget] at h
  exact ⟨h.2.2.2, h.1⟩

/-! ## 2. mode tokens: Python `[0-7]+`, `int(tok, 8)`, `≤ 0xFFFFFFFF` vs Rust no leading `+`, `u32::from_str_radix(tok, 8)` -/

/-- **The two mode parsers agree on EVERY token**, strict or not: the same value, or rejection in both. -/
theorem mode_token_equiv (strict : Bool) (tok : Bytes) :
    rsTokG rsModeTok strict tok = pyTokG pyModeTok strict tok := tokG_agree strict tok

/-- After the pattern check Python's `int(tok, 8)` cannot raise (it is not guarded any more). -/
theorem mode_token_int_total (tok : Bytes) (h : pyModeRegex tok = true) : (pyInt 8 tok).isSome = true := by
  rw [pyInt_of_regex h]; rfl

/-- Non-vacuity: accepted and rejected tokens (both sides computed). -/
example :
    pyModeTok (asciiBytes "100644") = some 33188 ∧ rsModeTok (asciiBytes "100644") = some 33188 ∧
    pyModeTok (asciiBytes "37777777777") = some 4294967295 ∧ rsModeTok (asciiBytes "37777777777") = some 4294967295 ∧
    pyModeTok (asciiBytes "000000000000000644") = some 420 ∧ rsModeTok (asciiBytes "000000000000000644") = some 420 ∧
    pyModeTok (asciiBytes "+644") = none ∧ rsModeTok (asciiBytes "+644") = none ∧
    pyModeTok (asciiBytes "-644") = none ∧ rsModeTok (asciiBytes "-644") = none ∧
    pyModeTok (asciiBytes "0o644") = none ∧ pyModeTok (asciiBytes "6_44") = none ∧ pyModeTok [9, 54, 52, 52] = none ∧
    pyModeTok [54, 52, 52, 10] = none ∧ pyModeTok (asciiBytes "40000000000") = none ∧ rsModeTok (asciiBytes "40000000000") = none ∧
    pyModeTok (asciiBytes "648") = none ∧ pyModeTok [] = none ∧ rsModeTok [] = none := by
  decide

/-- **Regression witnesses (F15, fixed)**: what the parsers did before the repair — Python's `int(b, 8)`
accepted these tokens, Rust rejected them; Rust accepted a leading `+`. -/
theorem mode_token_old_divergence_witnesses :
    pyInt 8 (asciiBytes "-644") = some (-420) ∧ rsFromStrRadix 8 32 (asciiBytes "-644") = none ∧
    pyInt 8 [9, 54, 52, 52] = some 420 ∧ rsFromStrRadix 8 32 [9, 54, 52, 52] = none ∧          -- "\t644"
    pyInt 8 [54, 52, 52, 10] = some 420 ∧ rsFromStrRadix 8 32 [54, 52, 52, 10] = none ∧        -- "644\n"
    pyInt 8 (asciiBytes "0o644") = some 420 ∧ rsFromStrRadix 8 32 (asciiBytes "0o644") = none ∧
    pyInt 8 (asciiBytes "0O_644") = some 420 ∧ rsFromStrRadix 8 32 (asciiBytes "0O_644") = none ∧
    pyInt 8 (asciiBytes "6_44") = some 420 ∧ rsFromStrRadix 8 32 (asciiBytes "6_44") = none ∧
    pyInt 8 (asciiBytes "-0") = some 0 ∧ rsFromStrRadix 8 32 (asciiBytes "-0") = none ∧
    pyInt 8 (asciiBytes "40000000000") = some 4294967296 ∧ rsFromStrRadix 8 32 (asciiBytes "40000000000") = none ∧
    pyInt 8 (asciiBytes "777777777777") = some 68719476735 ∧ rsFromStrRadix 8 32 (asciiBytes "777777777777") = none ∧
    pyInt 8 (asciiBytes "+644") = some 420 ∧ rsFromStrRadix 8 32 (asciiBytes "+644") = some 420 := by
  decide

/-! ## 3. parse_tree -/

/-- **parse_tree: Rust ≡ Python on EVERY payload** — the same entries, or failure in both — for both id
lengths, strict on or off: any mode tokens, missing terminators, truncated ids, junk. -/
theorem parse_tree_equiv (text : Bytes) (n : Nat) (hn : n = 20 ∨ n = 32) (strict : Bool) :
    obs (parseTreeRs text (some n) strict) = obs (parseTreePy text (some n) strict) := by
  have := loopsG_obs_eq pyModeTok rsModeOf rsModeTok rsModeOf_zero (by decide) rsModeOf_tok tokG_agree
    text n hn strict (text.length + 1) 0 (Nat.zero_le _)
  simp only [List.drop_zero] at this
  exact this

/-- The loop bounds in the models are never reached: both parsers are total functions of the payload. -/
theorem parse_tree_fuel (text : Bytes) (n : Nat) (hn : n = 20 ∨ n = 32) (strict : Bool) :
    parseTreeRs text (some n) strict ≠ .error .fuel ∧ parseTreePy text (some n) strict ≠ .error .fuel := by
  constructor
  · exact rsLoopG_fuel rsModeOf rsModeTok rsModeOf_zero (by decide) rsModeOf_tok n strict (text.length + 1) text (by omega)
  · exact pyLoopG_fuel pyModeTok text n hn strict (text.length + 1) 0 (Nat.zero_le _) (by omega)

/-- one entry `tok ++ " a\0" ++ <20 id bytes>` -/
def entry20 (tok : Bytes) : Bytes :=
  tok ++ [32, 97, 0] ++ [1, 2, 3, 4, 5, 6, 7, 8, 9, 10, 11, 12, 13, 14, 15, 16, 17, 18, 19, 20]

/-- Non-vacuity: a two-entry payload parses identically (and non-trivially); truncating it fails in both;
the formerly divergent tokens are now rejected by both. -/
example :
    (parseTreeRs (entry20 (asciiBytes "100644") ++ entry20 (asciiBytes "40000")) (some 20) false).toOption.map List.length = some 2 ∧
    parseTreeRs (entry20 (asciiBytes "100644") ++ entry20 (asciiBytes "40000")) (some 20) true
      = parseTreePy (entry20 (asciiBytes "100644") ++ entry20 (asciiBytes "40000")) (some 20) true ∧
    obs (parseTreeRs ((entry20 (asciiBytes "100644")).take 25) (some 20) false) = none ∧
    obs (parseTreePy ((entry20 (asciiBytes "100644")).take 25) (some 20) false) = none ∧
    obs (parseTreePy (entry20 (asciiBytes "-644")) (some 20) false) = none ∧
    obs (parseTreePy (entry20 (asciiBytes "0o644")) (some 20) false) = none ∧
    obs (parseTreeRs (entry20 (asciiBytes "+644")) (some 20) false) = none := by
  decide

/-- **Regression witnesses (F15, fixed)** on the pre-repair models: Python returned entries (negative and
> 32-bit modes among them) where Rust raised. -/
theorem parse_tree_old_divergence_witnesses :
    (obs (parseTreePyOld (entry20 (asciiBytes "-644")) (some 20) false)).isSome ∧ obs (parseTreeRsOld (entry20 (asciiBytes "-644")) (some 20) false) = none ∧
    (obs (parseTreePyOld (entry20 [9, 54, 52, 52]) (some 20) true)).isSome ∧ obs (parseTreeRsOld (entry20 [9, 54, 52, 52]) (some 20) true) = none ∧
    (obs (parseTreePyOld (entry20 (asciiBytes "0o644")) (some 20) false)).isSome ∧ obs (parseTreeRsOld (entry20 (asciiBytes "0o644")) (some 20) false) = none ∧
    (obs (parseTreePyOld (entry20 (asciiBytes "6_44")) (some 20) true)).isSome ∧ obs (parseTreeRsOld (entry20 (asciiBytes "6_44")) (some 20) true) = none ∧
    (obs (parseTreePyOld (entry20 (asciiBytes "777777777777")) (some 20) false)).isSome ∧ obs (parseTreeRsOld (entry20 (asciiBytes "777777777777")) (some 20) false) = none ∧
    -- `+644` was accepted by both (git rejects it); now by neither
    (obs (parseTreeRsOld (entry20 (asciiBytes "+644")) (some 20) false)).isSome := by
  decide

/-! ## 4. sorted_tree_items -/

/-- **Tree order.**  For ALL byte-string names (NUL and `/` included) and all 32-bit modes, the Rust
comparator `cmp_with_suffix` is the lexicographic order of the Python keys (`name`, or `name + "/"`
for directories). -/
theorem tree_order_equiv (a b : TreeEntry)
    (hma : 0 ≤ a.mode ∧ a.mode < 2 ^ 32) (hmb : 0 ≤ b.mode ∧ b.mode < 2 ^ 32) :
    ∃ ka kb, pyKeyEntry a = .ok ka ∧ pyKeyEntry b = .ok kb ∧
      rsCmpWithSuffix (a.mode.toNat, a.name) (b.mode.toNat, b.name) = cmpBytes ka kb := by
  have e1 : Gen.pyDirSuffix = 47 := rfl
  refine ⟨pyKeyOf (rsObjIsDir a.mode.toNat) a.name, pyKeyOf (rsObjIsDir b.mode.toNat) b.name, ?_, ?_, ?_⟩
  · simp only [pyKeyEntry, pyIsDir_ok hma, pyKeyOf, e1]
  · simp only [pyKeyEntry, pyIsDir_ok hmb, pyKeyOf, e1]
  · exact cmp_suffix_eq _ _ _ _

/-- Non-vacuity: directory `a` against file `a.` and file `a0` (`.` < `/` < `0`), and against the names
the old comparator got wrong: file `a/b` (`a/` < `a/b`), file `a\0`. -/
example :
    rsCmpWithSuffix (16384, [97]) (33188, [97, 46]) = .gt ∧ rsCmpWithSuffix (16384, [97]) (33188, [97, 48]) = .lt ∧
    rsCmpWithSuffix (33188, [97]) (33188, [97, 46]) = .lt ∧
    rsCmpWithSuffix (16384, [97]) (33188, [97, 47, 98]) = .lt ∧ rsCmpWithSuffixOld (16384, [97]) (33188, [97, 47, 98]) = .eq ∧
    rsCmpWithSuffix (33188, [97]) (33188, [97, 0]) = .lt ∧ rsCmpWithSuffixOld (33188, [97]) (33188, [97, 0]) = .eq := by
  decide

/-- **sorted_tree_items: Rust ≡ Python on EVERY entry dictionary** (any size, any insertion order, any
names, any integer modes), in both orders: the same list, or failure in both. -/
theorem sorted_tree_items_equiv (es : List TreeEntry) (nameOrder : Bool) :
    obs (sortedTreeItemsRs es nameOrder) = obs (sortedTreeItemsPy es nameOrder) := sorted_obs_eq es nameOrder

/-- … with identical results, exception class included, in name order (a mode outside 0 … 2^32-1 is a
`TypeError` in both) and whenever all modes are 32-bit. -/
theorem sorted_tree_items_equiv_exact (es : List TreeEntry) (nameOrder : Bool)
    (h : nameOrder = true ∨ modesU32 es) :
    sortedTreeItemsRs es nameOrder = sortedTreeItemsPy es nameOrder := by
  rcases h with h | h
  · subst h; exact sorted_eq_name_order es
  · exact sorted_eq_u32 es nameOrder h

def H40 : Bytes := List.replicate 40 97

/-- Non-vacuity: the prefix family `a`, `a.`, `a-`, `a0` with `a` once as directory and once as file;
`{a/b: file, a: dir}` and `{a\0, a}` now come back in key order from Rust too. -/
example :
    sortedTreeItemsRs [⟨[97, 48], 33188, H40⟩, ⟨[97], 16384, H40⟩, ⟨[97, 46], 33188, H40⟩, ⟨[97, 45], 33188, H40⟩] false
      = .ok [⟨[97, 45], 33188, H40⟩, ⟨[97, 46], 33188, H40⟩, ⟨[97], 16384, H40⟩, ⟨[97, 48], 33188, H40⟩] ∧
    sortedTreeItemsPy [⟨[97, 48], 33188, H40⟩, ⟨[97], 33188, H40⟩, ⟨[97, 46], 33188, H40⟩, ⟨[97, 45], 33188, H40⟩] false
      = .ok [⟨[97], 33188, H40⟩, ⟨[97, 45], 33188, H40⟩, ⟨[97, 46], 33188, H40⟩, ⟨[97, 48], 33188, H40⟩] ∧
    sortedTreeItemsRs [⟨[97, 47, 98], 33188, H40⟩, ⟨[97], 16384, H40⟩] false = .ok [⟨[97], 16384, H40⟩, ⟨[97, 47, 98], 33188, H40⟩] ∧
    sortedTreeItemsRs [⟨[97, 0], 33188, H40⟩, ⟨[97], 33188, H40⟩] false = .ok [⟨[97], 33188, H40⟩, ⟨[97, 0], 33188, H40⟩] ∧
    sortedTreeItemsPy [⟨[97], 4294967296, H40⟩] true = .error .type ∧ sortedTreeItemsRs [⟨[97], 4294967296, H40⟩] true = .error .type := by
  decide

/-- **Regression witnesses (fixed)** on the pre-repair models: (1) `{a/b: file, a: dir}` — Python put the
directory first, the old Rust comparator said Equal and the stable sort kept dictionary order;
(2) `{a\0: file, a: file}` — the `0` "no suffix" sentinel collided with a real NUL; (3) name order with
mode 2^32 — Python returned, Rust raised `TypeError`. -/
theorem sorted_tree_items_old_counterexamples :
    sortedTreeItemsPyOld [⟨[97, 47, 98], 33188, H40⟩, ⟨[97], 16384, H40⟩] false = .ok [⟨[97], 16384, H40⟩, ⟨[97, 47, 98], 33188, H40⟩] ∧
    sortedTreeItemsRsOld [⟨[97, 47, 98], 33188, H40⟩, ⟨[97], 16384, H40⟩] false = .ok [⟨[97, 47, 98], 33188, H40⟩, ⟨[97], 16384, H40⟩] ∧
    sortedTreeItemsPyOld [⟨[97, 0], 33188, H40⟩, ⟨[97], 33188, H40⟩] false = .ok [⟨[97], 33188, H40⟩, ⟨[97, 0], 33188, H40⟩] ∧
    sortedTreeItemsRsOld [⟨[97, 0], 33188, H40⟩, ⟨[97], 33188, H40⟩] false = .ok [⟨[97, 0], 33188, H40⟩, ⟨[97], 33188, H40⟩] ∧
    sortedTreeItemsPyOld [⟨[97], 4294967296, H40⟩] true = .ok [⟨[97], 4294967296, H40⟩] ∧
    sortedTreeItemsRsOld [⟨[97], 4294967296, H40⟩] true = .error .type := by
  decide

/-! ## 5. bisect_find_sha -/

/-- **bisect_find_sha: Rust ≡ Python for ALL integer bounds**, every probe of an id length and EVERY
callback returning ids (or failing) — sorted table or not: the same index, the same `None`, or failure
in both (negative start, start > end, bounds that are not index-sized).  No Rust arithmetic can
overflow (the model's panic branches are unreachable: they would show as a difference here). -/
theorem bisect_equiv (unpack : Int → Except Exc Bytes) (sha : Bytes) (s e : Int)
    (hsha : sha.length = 20 ∨ sha.length = 32)
    (hun : ∀ i r, unpack i = .ok r → r.length = 20 ∨ r.length = 32) :
    obs (bisectRs unpack sha s e) = obs (bisectPy unpack sha s e) := by
  have eb : Gen.rsBisectBits = 64 := rfl
  have el : Gen.rsBisectShaLens = [20, 32] := rfl
  have em : Gen.pyMaxsize = 9223372036854775807 := rfl
  have hmem : sha.length ∈ [20, 32] := by rcases hsha with h | h <;> simp [h]
  simp only [bisectRs, bisectPy, eb, el, em, hmem, not_true_eq_false, if_false]
  by_cases hs : inSigned 64 s = true
  · by_cases he : inSigned 64 e = true
    · have hs' := (inSigned64 s).1 hs
      have he' := (inSigned64 e).1 he
      simp only [hs, he, not_true_eq_false, or_self, if_false]
      by_cases h0 : s < 0
      · simp only [h0, if_true]
      · by_cases hgt : s > e
        · simp only [h0, hgt, if_true, if_false]
        · have hmax : ¬ e > 9223372036854775807 := by omega
          simp only [h0, hgt, hmax, if_false]
          rw [bisectLoop_eq unpack sha hun _ s e (by omega) (by omega) (by omega) (by omega)
            (by simp only [bisectFuel]; omega)]
    · -- `end` is not index-sized: OverflowError at the Rust call boundary; Python fails one of its three checks
      have he' : ¬ (-9223372036854775808 ≤ e ∧ e < 9223372036854775808) := fun h => he ((inSigned64 e).2 h)
      have hs' := (inSigned64 s).1 hs
      simp only [hs, he, not_true_eq_false, Bool.false_eq_true, not_false_eq_true, or_true, if_true]
      by_cases h0 : s < 0
      · simp only [h0, if_true, obs]
      · by_cases hgt : s > e
        · simp only [h0, hgt, if_true, if_false, obs]
        · have hmax : e > 9223372036854775807 := by omega
          simp only [h0, hgt, hmax, if_true, if_false, obs]
  · have hs' : ¬ (-9223372036854775808 ≤ s ∧ s < 9223372036854775808) := fun h => hs ((inSigned64 s).2 h)
    simp only [hs, Bool.false_eq_true, not_false_eq_true, true_or, if_true]
    by_cases h0 : s < 0
    · simp only [h0, if_true, obs]
    · by_cases hgt : s > e
      · simp only [h0, hgt, if_true, if_false, obs]
      · have hmax : e > 9223372036854775807 := by omega
        simp only [h0, hgt, hmax, if_true, if_false, obs]

/-- … and inside the index-sized range the results are identical, the callback's exception included. -/
theorem bisect_equiv_exact (unpack : Int → Except Exc Bytes) (sha : Bytes) (s e : Int)
    (hsha : sha.length = 20 ∨ sha.length = 32)
    (hun : ∀ i r, unpack i = .ok r → r.length = 20 ∨ r.length = 32)
    (h0 : 0 ≤ s) (hse : s ≤ e) (he : e < 2 ^ 63) :
    bisectRs unpack sha s e = bisectPy unpack sha s e := by
  have eb : Gen.rsBisectBits = 64 := rfl
  have el : Gen.rsBisectShaLens = [20, 32] := rfl
  have em : Gen.pyMaxsize = 9223372036854775807 := rfl
  have hs : inSigned 64 s = true := (inSigned64 _).2 (by omega)
  have he' : inSigned 64 e = true := (inSigned64 _).2 (by omega)
  have hmem : sha.length ∈ [20, 32] := by rcases hsha with h | h <;> simp [h]
  have h1 : ¬ s < 0 := by omega
  have h2 : ¬ s > e := by omega
  have h3 : ¬ e > 9223372036854775807 := by omega
  simp only [bisectRs, bisectPy, eb, el, em, hs, he', hmem, h1, h2, h3, not_true_eq_false, or_self, if_false]
  exact bisectLoop_eq unpack sha hun _ s e h0 (by omega) (by omega) he (by simp only [bisectFuel]; omega)

/-- The Python loop needs at most `end - start + 1` iterations for ANY integers: the model's loop bound
is never reached (unless the callback itself says so). -/
theorem bisect_py_fuel (unpack : Int → Except Exc Bytes) (sha : Bytes) (s e : Int)
    (hun : ∀ i, unpack i ≠ .error .fuel) : bisectPy unpack sha s e ≠ .error .fuel := by
  simp only [bisectPy]
  split
  · simp
  · split
    · simp
    · split
      · simp
      · rcases bisectLoopPy_fuel unpack sha (bisectFuel s e) s e (by simp only [bisectFuel]; omega) with h | ⟨i, hi⟩
        · exact h
        · exact absurd hi (hun i)

def id20 (b : UInt8) : Bytes := List.replicate 20 b

/-- Non-vacuity: a three-entry table, hit and miss; the formerly divergent calls on the repaired models
(negative start: `ValueError` in both; bounds of 2^30, 2^31, 2^62: the index from both; 2^63: failure
in both). -/
example : bisectRs (unpackStrict [id20 1, id20 5, id20 9]) (id20 9) 0 2 = .ok (some 2) ∧
    bisectPy (unpackStrict [id20 1, id20 5, id20 9]) (id20 9) 0 2 = .ok (some 2) ∧
    bisectPy (unpackStrict [id20 1, id20 5, id20 9]) (id20 4) 0 2 = .ok none ∧
    bisectPy (unpackStrict [id20 7]) (id20 7) (-1) 0 = .error .value ∧
    bisectRs (unpackStrict [id20 7]) (id20 7) (-1) 0 = .error .value ∧
    bisectRs (unpackSynth (2 ^ 40) 20) (beBytes 20 (2 ^ 40 + 2 ^ 30)) (2 ^ 30) (2 ^ 30) = .ok (some (2 ^ 30)) ∧
    bisectRs (unpackSynth (2 ^ 40) 20) (beBytes 20 (2 ^ 40 + 5)) 0 (2 ^ 31) = .ok (some 5) ∧
    bisectRs (unpackSynth (2 ^ 40) 20) (beBytes 20 (2 ^ 40 + 2 ^ 62)) 0 (2 ^ 63 - 1) = .ok (some (2 ^ 62)) ∧
    bisectPy (unpackSynth (2 ^ 40) 20) (beBytes 20 (2 ^ 40 + 2 ^ 62)) 0 (2 ^ 63 - 1) = .ok (some (2 ^ 62)) ∧
    bisectRs (unpackSynth (2 ^ 40) 20) (beBytes 20 (2 ^ 63)) (2 ^ 63 - 1) (2 ^ 63 - 1) = .ok none ∧
    bisectPy (unpackSynth (2 ^ 40) 20) (beBytes 20 (2 ^ 63)) (2 ^ 63 - 1) (2 ^ 63 - 1) = .ok none ∧
    bisectPy (unpackSynth (2 ^ 40) 20) (beBytes 20 5) 0 (2 ^ 63) = .error .overflow ∧
    bisectRs (unpackSynth (2 ^ 40) 20) (beBytes 20 5) 0 (2 ^ 63) = .error .overflow := by decide +kernel

/-- **Regression witnesses (fixed)** on the pre-repair models: (1) `start=-1, end=0`: Python probed
⌊-1/2⌋ = −1 (IndexError from a strict table; the LAST entry with Python list indexing, so a present id was
reported absent), Rust probed trunc(−1/2) = 0 and found it; (2) `start=end=2^30`: Python found it, the Rust
`i32` sum overflowed (panic in debug builds); (3) `end=2^31`: `OverflowError` at the call boundary. -/
theorem bisect_old_divergence_witnesses :
    bisectPyOld (unpackStrict [id20 7]) (id20 7) (-1) 0 = .error .index ∧
    bisectRsOld (unpackStrict [id20 7]) (id20 7) (-1) 0 = .ok (some 0) ∧
    bisectPyOld (unpackWrap [id20 1, id20 5]) (id20 1) (-1) 0 = .ok none ∧
    bisectRsOld (unpackWrap [id20 1, id20 5]) (id20 1) (-1) 0 = .ok (some 0) ∧
    bisectPyOld (unpackSynth (2 ^ 40) 20) (beBytes 20 (2 ^ 40 + 2 ^ 30)) (2 ^ 30) (2 ^ 30) = .ok (some (2 ^ 30)) ∧
    bisectRsOld (unpackSynth (2 ^ 40) 20) (beBytes 20 (2 ^ 40 + 2 ^ 30)) (2 ^ 30) (2 ^ 30) = .error .panic ∧
    bisectRsOld (unpackSynth (2 ^ 40) 20) (beBytes 20 (2 ^ 40 + 5)) 0 (2 ^ 31) = .error .overflow := by
  decide

/-! ## 6. _merge_entries, _is_tree -/

/-- **_merge_entries: Rust ≡ Python for EVERY path and EVERY pair of trees** (or `None`): any names (leading
`/`, NUL, prefixes, twins), any path (trailing `/` included), any integer modes — identical results,
the `TypeError` for a mode outside 0 … 2^32-1 included. -/
theorem merge_entries_equiv (path : Bytes) (t1 t2 : Option (List TreeEntry)) :
    mergeEntriesRs path t1 t2 = mergeEntriesPy path t1 t2 := by
  simp only [mergeEntriesRs, mergeEntriesPy, treeEntries_eq, mergeLoop_eq]

/-- Non-vacuity: two overlapping trees under a path; a name `/a` and a path `p/` join the same way now. -/
example : mergeEntriesRs [112] (some [⟨[98], 33188, H40⟩, ⟨[97], 16384, H40⟩]) (some [⟨[98], 33188, H40⟩, ⟨[99], 33188, H40⟩])
    = .ok [(some ⟨[112, 47, 97], 16384, H40⟩, none), (some ⟨[112, 47, 98], 33188, H40⟩, some ⟨[112, 47, 98], 33188, H40⟩),
           (none, some ⟨[112, 47, 99], 33188, H40⟩)] ∧
    mergeEntriesPy [112] (some [⟨[47, 97], 33188, H40⟩]) none = .ok [(some ⟨[112, 47, 47, 97], 33188, H40⟩, none)] ∧
    mergeEntriesPy [112, 47] (some [⟨[97], 33188, H40⟩]) none = .ok [(some ⟨[112, 47, 47, 97], 33188, H40⟩, none)] ∧
    mergeEntriesPy [112] (some [⟨[97], 4294967296, H40⟩]) none = .error .type := by decide

/-- **Regression witnesses (fixed)** on the pre-repair Python model (the Rust side of `_merge_entries` did
not change): name `/a` under path `p` (Python `/a`, Rust `p//a`); path `p/` (Python `p/a`, Rust `p//a`);
mode 2^32 (Python returned, Rust `TypeError`). -/
theorem merge_entries_old_divergence_witnesses :
    mergeEntriesPyOld [112] (some [⟨[47, 97], 33188, H40⟩]) none = .ok [(some ⟨[47, 97], 33188, H40⟩, none)] ∧
    mergeEntriesRs [112] (some [⟨[47, 97], 33188, H40⟩]) none = .ok [(some ⟨[112, 47, 47, 97], 33188, H40⟩, none)] ∧
    mergeEntriesPyOld [112, 47] (some [⟨[97], 33188, H40⟩]) none = .ok [(some ⟨[112, 47, 97], 33188, H40⟩, none)] ∧
    mergeEntriesRs [112, 47] (some [⟨[97], 33188, H40⟩]) none = .ok [(some ⟨[112, 47, 47, 97], 33188, H40⟩, none)] ∧
    (obs (mergeEntriesPyOld [112] (some [⟨[97], 4294967296, H40⟩]) none)).isSome ∧
    mergeEntriesRs [112] (some [⟨[97], 4294967296, H40⟩]) none = .error .type := by
  decide

/-- **_is_tree: Rust ≡ Python** for `None`, a missing mode and EVERY integer mode (outside 0 … 2^32-1 both
raise `OverflowError`). -/
theorem is_tree_equiv (a : IsTreeArg) : isTreeRs a = isTreePy a := isTree_eq a

example : isTreeRs (.mode 16877) = .ok true ∧ isTreePy (.mode 33188) = .ok false ∧
    isTreeRs (.mode (-1)) = .error .overflow ∧ isTreePy (.mode 4294967296) = .error .overflow := by decide

/-! ## 7. _count_blocks -/

/-- **_count_blocks: Rust ≡ Python** for every blob, every chunking of it and every block size: the two
loops cut the same sequence of blocks (so the dictionaries `hash(block) ↦ bytes` are equal, whatever
`hash` is). -/
theorem count_blocks_equiv (bs : Nat) (chunks : List Bytes) :
    countBlocksRs bs chunks = countBlocksPy bs chunks := chunksLoop_eq bs chunks []

/-- Non-vacuity: a line, a 64-byte cut inside a long line and an unterminated tail, split over chunks. -/
example : countBlocksRs 4 [[97, 10, 98], [98, 98, 98, 98], [], [99]] = [[97, 10], [98, 98, 98, 98], [98, 99]] ∧
    countBlocksPy 4 [[97, 10, 98], [98, 98, 98, 98], [], [99]] = [[97, 10], [98, 98, 98, 98], [98, 99]] ∧
    Gen.blockSize = 64 := by decide

end Dulwich.Props.C15
