/-
  C07 — lock files give mutual exclusion and all-or-nothing replacement.

  Only property theorems, non-vacuity examples and negation witnesses live here; the lemmas are in
  Lemmas/Lock.lean, the transition system in Model/Lock.lean (+ Model/LockFS.lean).  The
  `_GitFile` *program* the theorems talk about, `gitFile`, is assembled from Gen/Lock.lean, which
  the translator re-derives from the AST of dulwich/file.py on every run: an edit of the protocol
  (dropping O_EXCL, a guard, the `_closed = True` after the rename, the unlink in abort(), moving
  the file-object close after the rename …) changes the generated program, `gitFile_wellBehaved`
  stops evaluating to `true`, and everything below it stops compiling.

  Reading guide.  `State` = directory (`fs.target`, `fs.lock`) + one `Actor` per natural number
  (unboundedly many).  `Reach P s0 s`: `s` is reachable from `s0` by ANY schedule — any
  interleaving of any actors at system-call granularity, any call failing with an injected
  error; the parent directory of `f`/`f.lock` may be missing and may be removed (while empty) and
  re-created by other actors.  `Initial s0`: no lock file, `f` absent or the initial file, every
  actor an arbitrary caller script (or a directory pruner) that has not done anything yet.  `(s.actors i).owns` is the ghost "actor i is between its
  successful open(O_EXCL) and its own rename/unlink of `f.lock`".
-/
import DulwichModel.Lemmas.Lock

namespace Dulwich.Props.C07
open Dulwich Dulwich.Lock

/-! ## 0. the program read off the source passes the (proved-sound) check -/

theorem gitFile_wellBehaved : gitFile.wellBehaved = true := by decide

/-- Soundness of the checker, once and for all programs: whatever `_GitFile` program the translator
extracts, if `wellBehaved` evaluates to `true` on it then the invariant holds in every state
reachable under every schedule of any number of actors with any injected failures. -/
theorem check_sound (P : Program) (hP : P.wellBehaved = true) {s0 s : State} (h0 : Initial s0)
    (h : Reach P s0 s) : Inv s :=
  reach_Inv (WB.of_bool hP) h0 h

/-! ## 1. mutual exclusion -/

/-- `mutex`.  In every reachable state of the program as it is now: an actor that holds the lock
has ITS lock file in place (nobody removed or renamed it), a lock file that exists was created by
an actor that still holds it, and therefore at most one actor holds the lock. -/
theorem mutex {s0 s : State} (h0 : Initial s0) (h : Reach gitFile s0 s) :
    (∀ i, (s.actors i).owns = true → s.fs.lock = some i) ∧
    (∀ i, s.fs.lock = some i → (s.actors i).owns = true) ∧
    (∀ i j, (s.actors i).owns = true → (s.actors j).owns = true → i = j) := by
  have hinv := check_sound gitFile gitFile_wellBehaved h0 h
  refine ⟨hinv.ownerHasLock, hinv.lockHasOwner, fun i j hi hj => ?_⟩
  have e1 := hinv.ownerHasLock i hi
  have e2 := hinv.ownerHasLock j hj
  rw [e1] at e2; exact Option.some.inj e2

/-- The ghost `owns` is not an arbitrary label: it coincides with what the code itself records —
the handle exists (`__init__` returned) and `_closed` is still False. -/
theorem holder_iff_handle_open {s0 s : State} (h0 : Initial s0) (h : Reach gitFile s0 s) (i : Nat) :
    (s.actors i).owns = ((s.actors i).opened && !(s.actors i).closed) := by
  rcases (check_sound gitFile gitFile_wellBehaved h0 h).actors i with hn | hr
  · rw [hn.1, hn.2.1]; rfl
  · rw [hr.1.opened, hr.1.owns_eq]; rfl

/-- No actor ever removes or renames a lock file it did not create: whenever a transition of actor
`i` unlinks or renames `f.lock`, the file at that name is the one `i` created (and `i` holds it). -/
theorem no_foreign_disturb {s0 s : State} (h0 : Initial s0) (h : Reach gitFile s0 s) (i : Nat)
    (f : Bool)
    (he : (actorStep gitFile (s.actors i) s.fs.lock.isSome s.fs.dir s.fs.isEmpty f).2.1 = .replace ∨
          (actorStep gitFile (s.actors i) s.fs.lock.isSome s.fs.dir s.fs.isEmpty f).2.1 = .remove) :
    s.fs.lock = some i ∧ (s.actors i).owns = true := by
  have hinv := check_sound gitFile gitFile_wellBehaved h0 h
  obtain ⟨_, hrp, hrm, _⟩ :=
    actorStep_eff (WB.of_bool gitFile_wellBehaved) s.fs.lock.isSome s.fs.dir s.fs.isEmpty f (hinv.actors i)
  rcases he with he | he
  · exact ⟨hinv.ownerHasLock i (hrp he).2.1, (hrp he).2.1⟩
  · exact ⟨hinv.ownerHasLock i (hrm he).2.1, (hrm he).2.1⟩

/-- While one writer holds the lock no other writer can obtain it: whichever open of `__init__` an
acquiring actor is about to make (the first, or a retry after re-creating a vanished parent
directory), it fails with `FileExistsError` (→ `FileLocked`) and changes nothing in the directory. -/
theorem open_fails_while_held {s0 s : State} (h0 : Initial s0) (h : Reach gitFile s0 s) (i j : Nat)
    (hj : (s.actors j).owns = true) (hi : (s.actors i).pc = .start) {e : Bool} {r : List Bool}
    (ha : (s.actors i).acqNow gitFile = .open e r) :
    stepOut gitFile s i false = .exists ∧ (step gitFile s i false).fs = s.fs ∧
      ((step gitFile s i false).actors i).owns = false := by
  have hP := WB.of_bool gitFile_wellBehaved
  have hinv := check_sound gitFile gitFile_wellBehaved h0 h
  have hl : s.fs.lock.isSome = true := by rw [hinv.ownerHasLock j hj]; rfl
  have hd : s.fs.dir = true := reach_lock_in_dir h0 h hl
  have hn := ((hinv.actors i).noHandle_of_start hi)
  have he : e = true := by
    have := (acqNow_ok hP hn.2.2.2.2.2.2).1
    rw [ha] at this; exact this.1
  subst he
  refine ⟨?_, ?_, ?_⟩
  · simp [stepOut, actorStep, hi, acquireStep, ha, hl, hd]
  · simp [step, actorStep, hi, acquireStep, ha, hl, hd, applyEff]
  · simp [step, actorStep, hi, acquireStep, ha, hl, hd, hn.2.1]

/-- The lock is only ever ACQUIRED exclusively, on every path through `__init__`: a transition
that creates `f.lock` for actor `i` happens in a state without a lock file and without any holder,
with the parent directory in place.  (This is where `wellBehaved` needs EVERY `os.open` of the lock
path — retries after ENOENT included — to carry O_EXCL; see
`retry_without_excl_counterexample`.) -/
theorem acquisition_is_exclusive {s0 s : State} (h0 : Initial s0) (h : Reach gitFile s0 s) (i : Nat)
    (f : Bool)
    (he : (actorStep gitFile (s.actors i) s.fs.lock.isSome s.fs.dir s.fs.isEmpty f).2.1 = .create) :
    s.fs.lock = none ∧ s.fs.dir = true ∧ ∀ j, (s.actors j).owns = false := by
  have hP := WB.of_bool gitFile_wellBehaved
  have hinv := check_sound gitFile gitFile_wellBehaved h0 h
  obtain ⟨hcr, _, _, _⟩ := actorStep_eff hP s.fs.lock.isSome s.fs.dir s.fs.isEmpty f (hinv.actors i)
  have hl : s.fs.lock = none := by
    have := (hcr he).1
    cases hx : s.fs.lock with
    | none => rfl
    | some j => rw [hx] at this; simp at this
  refine ⟨hl, (actorStep_dirEff gitFile _ _ _ _ f).1 he, fun j => ?_⟩
  cases ho : (s.actors j).owns with
  | false => rfl
  | true => have := hinv.ownerHasLock j ho; rw [hl] at this; simp at this

/-! ## 2. all-or-nothing replacement -/

/-- `atomic_replace`.  In every reachable state the content of `f` is the content of the initial
state, or it is exactly what some actor had written through its handle at the moment its rename
succeeded (`committed`) — never a mixture, never a file somebody is still writing to. -/
theorem atomic_replace {s0 s : State} (h0 : Initial s0) (h : Reach gitFile s0 s) (init : Bytes) :
    content s init = content s0 init ∨
      ∃ i c, (s.actors i).committed = some c ∧ content s init = some c ∧
        (s.actors i).fopen = false := by
  rcases reach_TargetOk (WB.of_bool gitFile_wellBehaved) h0 h with ht | ⟨i, h1, h2, h3⟩
  · left
    rcases h0.targetInit with e | e <;> simp [content, ht, e]
  · right; exact ⟨i, _, h2, by simp [content, h1], h3⟩

/-- A `with GitFile(f,"wb") as h: for d in ds: h.write(d)` caller that renames at all renames the
COMPLETE content `ds.flatten`. -/
theorem with_commit_complete {s0 s : State} (h0 : Initial s0) (i : Nat) {mk fs pm fin : Bool}
    {ds : List Bytes} (hi : s0.actors i = withCaller mk fs pm ds fin) (h : Reach gitFile s0 s)
    {c : Bytes} (hc : (s.actors i).committed = some c) : c = ds.flatten := by
  obtain ⟨hph, _, _⟩ := reach_with (WB.of_bool gitFile_wellBehaved) False (fun x => x.elim) h0 i hi h
  cases hph with
  | start _ _ _ _ h5 => rw [h5] at hc; simp at hc
  | writing _ _ _ _ _ _ _ _ h5 _ => rw [h5] at hc; simp at hc
  | closing _ _ _ _ h5 => rw [h5] at hc; simp at hc
  | failedRm _ _ _ h5 => rw [h5] at hc; simp at hc
  | handler _ _ h5 _ => rw [h5] at hc; simp at hc
  | finished _ _ _ h5 _ =>
    rcases h5 with h5 | h5 <;> rw [h5] at hc
    · simp at hc
    · exact (Option.some.inj hc).symm

/-- Readers only ever see the complete old or a complete new content: if every actor is a
with-caller, the content of `f` is the initial one or the whole intended content of one of them. -/
theorem readers_see_old_or_complete_new {s0 s : State} (h0 : Initial s0)
    (mk fs pm fin : Nat → Bool) (ds : Nat → List Bytes)
    (hall : ∀ i, s0.actors i = withCaller (mk i) (fs i) (pm i) (ds i) (fin i))
    (h : Reach gitFile s0 s) (init : Bytes) :
    content s init = content s0 init ∨ ∃ i, content s init = some (ds i).flatten := by
  rcases atomic_replace h0 h init with h1 | ⟨i, c, h1, h2, _⟩
  · exact Or.inl h1
  · exact Or.inr ⟨i, by rw [h2, with_commit_complete h0 i (hall i) h h1]⟩

/-! ## 3. a write that fails leaves the old content in place and the lock released -/

/-- `failed_write_keeps_old`.  A with-caller `i` one of whose calls — the open, a write, or a call of
close() up to and including the rename — fails (injected ENOSPC/EIO/EPERM/KeyboardInterrupt,
`FileLocked`, …) never renames anything into place afterwards, under any continuation of the
schedule: `f` is not touched by it.  And once it is done, with its handle finalised (`fin`: CPython
has run `__del__`, i.e. abort()) and no unlink made to fail, its lock is released. -/
theorem failed_write_keeps_old {s0 s : State} (h0 : Initial s0) (i : Nat) {mk fs pm fin : Bool}
    {ds : List Bytes} (hi : s0.actors i = withCaller mk fs pm ds fin) (h : Reach gitFile s0 s)
    (f : Bool) (hfail : Out.isFailure (s.actors i).pc (stepOut gitFile s i f) = true)
    {s' : State} (h' : Reach gitFile (step gitFile s i f) s') :
    (s'.actors i).committed = none ∧
    (∀ g, (actorStep gitFile (s'.actors i) s'.fs.lock.isSome s'.fs.dir s'.fs.isEmpty g).2.1 ≠ .replace) ∧
    ((s'.actors i).pc = .done → fin = true → (s'.actors i).rmFailed = false →
        (s'.actors i).fcFailed = false →
        (s'.actors i).owns = false ∧ s'.fs.lock ≠ some i) := by
  have hP := WB.of_bool gitFile_wellBehaved
  have hinv := reach_Inv hP h0 h
  -- the failure is registered by the failing step and stays registered
  have hF : ∀ t, Reach gitFile (step gitFile s i f) t → Failed (t.actors i) := by
    intro t ht
    induction ht with
    | init =>
      rw [step_actor_self]
      exact actorStep_registers _ _ _ _ (hinv.actors i) hfail
    | step t j g _ ih =>
      by_cases hji : i = j
      · subst hji; rw [step_actor_self]; exact actorStep_Failed _ _ _ _ ih
      · rw [step_actor_other _ _ _ hji]; exact ih
  have hreach : ∀ t, Reach gitFile (step gitFile s i f) t → Reach gitFile s0 t :=
    fun t ht => Reach.trans (Reach.step s i f h) ht
  have hnone : ∀ t, Reach gitFile (step gitFile s i f) t → (t.actors i).committed = none := by
    intro t ht
    have hr := hreach t ht
    exact (reach_with hP False (fun x => x.elim) h0 i hi hr).1.committed_none_of_failed
      ((reach_Inv hP h0 hr).actors i) (hF t ht)
  have hinv' := reach_Inv hP h0 (hreach s' h')
  refine ⟨hnone s' h', fun g heq => ?_, fun hd hfin hrm hfc => ?_⟩
  · -- a rename would set `committed`, but in the successor state it is still `none`
    have h1 := hnone _ (Reach.step s' i g h')
    rw [step_actor_self] at h1
    obtain ⟨_, hrp, _, _⟩ := actorStep_eff hP s'.fs.lock.isSome s'.fs.dir s'.fs.isEmpty g (hinv'.actors i)
    rw [(hrp heq).2.2.2] at h1; simp at h1
  · obtain ⟨hph, _, hcfg⟩ := reach_with hP False (fun x => x.elim) h0 i hi (hreach s' h')
    have hC : (s'.actors i).hC = [.abort] := by
      rw [hcfg, hfin]; simp [withCaller, Actor.init, Gen.Lock.delAborts]
    have hown : (s'.actors i).owns = false := by
      cases hph with
      | start h1 _ _ _ _ => rw [h1] at hd; simp at hd
      | writing _ _ _ h1 _ _ _ _ _ _ => rw [h1] at hd; simp at hd
      | closing h1 _ _ _ _ => rcases h1 with h1 | ⟨_, _, _, h1⟩ <;> rw [h1] at hd <;> simp at hd
      | failedRm h1 _ _ _ => rcases h1 with h1 | h1 <;> rw [h1] at hd <;> simp at hd
      | handler _ _ _ h4 =>
        rcases h4 with h4 | h4 | ⟨_, h4⟩
        · rw [h4] at hd; simp at hd
        · rw [h4] at hd; simp at hd
        · rcases h4 (Or.inl hC) with h5 | h5 | h5
          · rcases hinv'.actors i with hn | hr
            · exact hn.2.1
            · rw [hr.1.owns_eq, h5]; rfl
          · rw [hrm] at h5; simp at h5
          · rw [hfc] at h5; simp at h5
      | finished _ _ _ _ h5 =>
        rcases hinv'.actors i with hn | hr
        · exact hn.2.1
        · rw [hr.1.owns_eq, h5 hr.1.opened]; rfl
    refine ⟨hown, fun hl => ?_⟩
    have := hinv'.lockHasOwner i hl
    rw [hown] at this; simp at this

/-- The same release guarantee without any failure: a finalised with-caller that is done (and whose
unlink was not made to fail) does not hold the lock. -/
theorem with_done_releases {s0 s : State} (h0 : Initial s0) (i : Nat) {mk fs pm : Bool}
    {ds : List Bytes} (hi : s0.actors i = withCaller mk fs pm ds true) (h : Reach gitFile s0 s)
    (hd : (s.actors i).pc = .done) (hrm : (s.actors i).rmFailed = false)
    (hfc : (s.actors i).fcFailed = false) :
    (s.actors i).owns = false := by
  have hP := WB.of_bool gitFile_wellBehaved
  have hinv := reach_Inv hP h0 h
  obtain ⟨hph, _, hcfg⟩ := reach_with hP False (fun x => x.elim) h0 i hi h
  have hC : (s.actors i).hC = [.abort] := by
    rw [hcfg]; simp [withCaller, Actor.init, Gen.Lock.delAborts]
  cases hph with
  | start h1 _ _ _ _ => rw [h1] at hd; simp at hd
  | writing _ _ _ h1 _ _ _ _ _ _ => rw [h1] at hd; simp at hd
  | closing h1 _ _ _ _ => rcases h1 with h1 | ⟨_, _, _, h1⟩ <;> rw [h1] at hd <;> simp at hd
  | failedRm h1 _ _ _ => rcases h1 with h1 | h1 <;> rw [h1] at hd <;> simp at hd
  | handler _ _ _ h4 =>
    rcases h4 with h4 | h4 | ⟨_, h4⟩
    · rw [h4] at hd; simp at hd
    · rw [h4] at hd; simp at hd
    · rcases h4 (Or.inl hC) with h5 | h5 | h5
      · rcases hinv.actors i with hn | hr
        · exact hn.2.1
        · rw [hr.1.owns_eq, h5]; rfl
      · rw [hrm] at h5; simp at h5
      · rw [hfc] at h5; simp at h5
  | finished _ _ _ _ h5 =>
    rcases hinv.actors i with hn | hr
    · exact hn.2.1
    · rw [hr.1.owns_eq, h5 hr.1.opened]; rfl

/-- The repaired close(), proved before it is written: for ANY program that passes the check and
in addition aborts on every failure inside close() (`abortsOnAnyCloseFailure`: the rename AND the
flush/fsync/chmod before it inside `try … finally: self.abort()`), a with-caller that is done
holds no lock — whether or not its handle was ever finalised — unless an unlink was made to fail
or closing the file object inside abort() raised before the unlink (`fcFailed`).  (Before 37a7ef3
the premise was false, see `with_close_fault_leaves_lock_counterexample`; it holds for the program
as it is now: `close_failure_releases_lock_now`.) -/
theorem close_failure_releases_lock (P : Program) (hP : P.wellBehaved = true)
    (hA : P.abortsOnAnyCloseFailure = true) {s0 s : State} (h0 : Initial s0) (i : Nat)
    {mk fs pm fin : Bool} {ds : List Bytes} (hi : s0.actors i = withCaller mk fs pm ds fin)
    (h : Reach P s0 s) (hd : (s.actors i).pc = .done) (hrm : (s.actors i).rmFailed = false)
    (hfc : (s.actors i).fcFailed = false) :
    (s.actors i).owns = false ∧ s.fs.lock ≠ some i := by
  have hW := WB.of_bool hP
  have hinv := reach_Inv hW h0 h
  obtain ⟨hph, _, _⟩ := reach_with hW True (fun _ => hA) h0 i hi h
  have hown : (s.actors i).owns = false := by
    cases hph with
    | start h1 _ _ _ _ => rw [h1] at hd; simp at hd
    | writing _ _ _ h1 _ _ _ _ _ _ => rw [h1] at hd; simp at hd
    | closing h1 _ _ _ _ => rcases h1 with h1 | ⟨_, _, _, h1⟩ <;> rw [h1] at hd <;> simp at hd
    | failedRm h1 _ _ _ => rcases h1 with h1 | h1 <;> rw [h1] at hd <;> simp at hd
    | handler _ _ _ h4 =>
      rcases h4 with h4 | h4 | ⟨_, h4⟩
      · rw [h4] at hd; simp at hd
      · rw [h4] at hd; simp at hd
      · rcases h4 (Or.inr trivial) with h5 | h5 | h5
        · rcases hinv.actors i with hn | hr
          · exact hn.2.1
          · rw [hr.1.owns_eq, h5]; rfl
        · rw [hrm] at h5; simp at h5
        · rw [hfc] at h5; simp at h5
    | finished _ _ _ _ h5 =>
      rcases hinv.actors i with hn | hr
      · exact hn.2.1
      · rw [hr.1.owns_eq, h5 hr.1.opened]; rfl
  refine ⟨hown, fun hl => ?_⟩
  have := hinv.lockHasOwner i hl
  rw [hown] at this; simp at this

/-- the premises of `close_failure_releases_lock` are satisfiable: the program with the calls of
close() moved inside the try passes both checks -/
example : let P : Program := { gitFile with closePre := gitFile.closePre.map (fun p => (p.1, true)) }
    P.wellBehaved = true ∧ P.abortsOnAnyCloseFailure = true := by decide

/-- the program as it is now (since 37a7ef3) aborts on every failure inside close() -/
theorem gitFile_abortsOnAnyCloseFailure : gitFile.abortsOnAnyCloseFailure = true := by decide

/-- `close_failure_releases_lock` for the CURRENT program: a with-caller that is done holds no lock,
finalised or not, whatever failed — unless an unlink was made to fail, or closing the file object
inside abort() raised before the unlink (`fcFailed`: finding
F-C07-abort-file-close-error-skips-unlink, `persistent_fault_abort_skips_unlink_counterexample`;
since eda3035 that cannot happen any more, see `failed_write_releases_lock_now`). -/
theorem close_failure_releases_lock_now {s0 s : State} (h0 : Initial s0) (i : Nat)
    {mk fs pm fin : Bool} {ds : List Bytes} (hi : s0.actors i = withCaller mk fs pm ds fin)
    (h : Reach gitFile s0 s) (hd : (s.actors i).pc = .done)
    (hrm : (s.actors i).rmFailed = false) (hfc : (s.actors i).fcFailed = false) :
    (s.actors i).owns = false ∧ s.fs.lock ≠ some i :=
  close_failure_releases_lock gitFile gitFile_wellBehaved gitFile_abortsOnAnyCloseFailure h0 i hi h
    hd hrm hfc

/-- … and for any program that in addition has `try: self._file.close() finally: <unlink>` in
abort() (eda3035) the `fcFailed` proviso disappears: only a failing unlink can keep the lock. -/
theorem abort_close_in_try_releases_lock (P : Program) (hP : P.wellBehaved = true)
    (hA : P.abortsOnAnyCloseFailure = true) (hT : P.abortCloseInTry = true) {s0 s : State}
    (h0 : Initial s0) (i : Nat) {mk fs pm fin : Bool} {ds : List Bytes}
    (hi : s0.actors i = withCaller mk fs pm ds fin) (h : Reach P s0 s)
    (hd : (s.actors i).pc = .done) (hrm : (s.actors i).rmFailed = false) :
    (s.actors i).owns = false ∧ s.fs.lock ≠ some i :=
  close_failure_releases_lock P hP hA h0 i hi h hd hrm (reach_fcFailed hT h0 h i)

/-- the program as it is now (since eda3035) unlinks in abort() even when closing the file object
raises -/
theorem gitFile_abortCloseInTry : gitFile.abortCloseInTry = true := by decide

/-- HEADLINE for "a write that fails or is aborted leaves … the lock released", for the CURRENT
program (dd7ffc5 + 37a7ef3 + eda3035): in every state reachable under every schedule of any number
of actors and any sequence of failing calls — a persistent ENOSPC included: flush fails, the file
object's close inside abort() fails again — a `with GitFile(...)` caller (and the repaired
`Index.write`, `index_write_now_is_with_caller`) that is done holds no lock and `f.lock` is not
its file, whether or not its handle was ever finalised.  The only proviso left is an `os.remove`
that was itself made to fail, about which the code can do nothing. -/
theorem failed_write_releases_lock_now {s0 s : State} (h0 : Initial s0) (i : Nat)
    {mk fs pm fin : Bool} {ds : List Bytes} (hi : s0.actors i = withCaller mk fs pm ds fin)
    (h : Reach gitFile s0 s) (hd : (s.actors i).pc = .done)
    (hrm : (s.actors i).rmFailed = false) :
    (s.actors i).owns = false ∧ s.fs.lock ≠ some i :=
  abort_close_in_try_releases_lock gitFile gitFile_wellBehaved gitFile_abortsOnAnyCloseFailure
    gitFile_abortCloseInTry h0 i hi h hd hrm

/-! ## 4. negation witnesses (concrete schedules, evaluated by the kernel) -/

def A : Bytes := [65]
def B : Bytes := [66]
def C : Bytes := [67]

/-- three `with GitFile(f,"wb") as h: h.write(X)` callers, fsync on, no shared_perm -/
def three : State :=
  State.ofList true [withCaller false true false [A] false, withCaller false true false [B] false,
                     withCaller false true false [C] false]

/-- corpus/C07/three_actor_foreign_lock_removed*.json: actor 0 runs up to and including its rename
(open, write, flush, fsync, file close, rename); actor 1 opens (the lock is free); actor 0's next step; actor 2
opens. -/
def oldDefectSchedule : Sched :=
  [(0, false), (0, false), (0, false), (0, false), (0, false), (0, false), (1, false), (0, false),
   (2, false)]

/-- The program BEFORE commit dd7ffc5 (no `_closed = True` after the rename) violates the
invariant on that schedule: actor 0's `finally: abort()` unlinks the lock file actor 1 created,
actor 2 then obtains the lock while actor 1 still holds it — two holders, and the lock file on
disk is not actor 1's.  (This is what the check reports if the fix is ever reverted.) -/
theorem old_program_mutex_counterexample :
    let s := run gitFileOld three oldDefectSchedule
    (s.actors 1).owns = true ∧ (s.actors 2).owns = true ∧ s.fs.lock = some 2 ∧
      -- the step that did it: actor 0 unlinking a lock file created by actor 1
      (let s6 := run gitFileOld three (oldDefectSchedule.take 7)
       s6.fs.lock = some 1 ∧ (s6.actors 0).owns = false ∧
       (actorStep gitFileOld (s6.actors 0) s6.fs.lock.isSome s6.fs.dir s6.fs.isEmpty false).2.1 = .remove) := by
  decide

/-- The old program also breaks all-or-nothing replacement: continuing that schedule, actor 1's
rename installs the lock file of actor 2 — while actor 2 has written nothing yet — as `f`. -/
theorem old_program_atomicity_counterexample :
    let s := run gitFileOld three
      (oldDefectSchedule ++ [(1, false), (1, false), (1, false), (1, false), (1, false)])
    s.fs.target = some (.of 2) ∧ (s.actors 2).committed = none ∧ (s.actors 2).fopen = true := by
  decide

/-- The same schedule on the program as it is now is harmless: actor 0 has nothing left to do and
actor 2's open fails while actor 1 holds the lock. -/
theorem old_schedule_harmless_now :
    let s := run gitFile three oldDefectSchedule
    (s.actors 1).owns = true ∧ (s.actors 2).owns = false ∧ s.fs.lock = some 1 ∧
      stepOut gitFile (run gitFile three (oldDefectSchedule.take 8)) 2 false = .exists := by
  decide

/-- A finding the proof forced into the open (F-C07-close-fault-before-rename-leaves-lock, fixed by
37a7ef3): with flush/fsync/chmod of close() BEFORE the `try … finally: self.abort()`
(`gitFilePreOutsideTry`, the program before that commit), a single
`with GitFile(...)` caller whose fsync fails is done — the exception has left the `with` block —
and still holds the lock; only finalisation of the handle (`fin = true` in
`failed_write_keeps_old`) releases it. -/
theorem with_close_fault_leaves_lock_counterexample :
    let s := run gitFilePreOutsideTry (State.ofList true [withCaller false true false [A] false])
      [(0, false), (0, false), (0, false), (0, true)]
    (s.actors 0).pc = .done ∧ (s.actors 0).owns = true ∧ s.fs.lock = some 0 ∧
      (s.actors 0).rmFailed = false := by
  decide

/-- … and the program as it is now (37a7ef3: those calls INSIDE the try) ends the same run with the
lock released although the handle was never finalised: fsync fails, abort() closes the file object
and unlinks. -/
theorem with_close_fault_releases_now :
    let s := run gitFile (State.ofList true [withCaller false true false [A] false])
      [(0, false), (0, false), (0, false), (0, true), (0, false), (0, false)]
    (s.actors 0).pc = .done ∧ (s.actors 0).owns = false ∧ s.fs.lock = none ∧
      content s [0] = some [0] := by
  decide

/-- F-C07-abort-file-close-error-skips-unlink (found after 37a7ef3, fixed by eda3035): abort()
closing the file object BEFORE and OUTSIDE the try around the unlink
(`gitFileAbortCloseOutsideTry`, the program before that commit).  When a write error PERSISTS (disk
full), the flush in close() fails, the `finally: self.abort()` closes the file object, whose
implicit flush fails again, and that exception leaves abort() — and close() — before the unlink:
the caller is done, not finalised, and still holds the lock. -/
theorem persistent_fault_abort_skips_unlink_counterexample :
    let s := run gitFileAbortCloseOutsideTry (State.ofList true [withCaller false true false [A] false])
      [(0, false), (0, false), (0, true), (0, true)]
    (s.actors 0).pc = .done ∧ (s.actors 0).owns = true ∧ s.fs.lock = some 0 ∧
      (s.actors 0).rmFailed = false ∧ (s.actors 0).fcFailed = true ∧ content s [0] = some [0] := by
  decide

/-- … and the program as it is now (eda3035) ends the same fault sequence with the lock released. -/
theorem persistent_fault_releases_now :
    let s := run gitFile (State.ofList true [withCaller false true false [A] false])
      [(0, false), (0, false), (0, true), (0, true), (0, false)]
    (s.actors 0).pc = .done ∧ (s.actors 0).owns = false ∧ s.fs.lock = none ∧
      (s.actors 0).fcFailed = false ∧ content s [0] = some [0] := by
  decide

/-- (the same for the explicit patched variant, independent of what the source says) -/
theorem persistent_fault_releases_when_abort_close_in_try :
    let P : Program := { gitFile with abortCloseInTry := true }
    let s := run P (State.ofList true [withCaller false true false [A] false])
      [(0, false), (0, false), (0, true), (0, true), (0, false)]
    P.wellBehaved = true ∧ (s.actors 0).pc = .done ∧ (s.actors 0).owns = false ∧
      s.fs.lock = none ∧ content s [0] = some [0] := by
  decide

/-- F-C07-index-write-error-path-renames (DESIGN §7 F7, fixed by 3b15974): a caller whose error
handler calls close() instead of abort() — `Index.write`'s `except: f.close(); raise` before that
commit — renames a truncated file into place when its second write fails: `f` ends up with the
first chunk only. -/
theorem index_write_counterexample :
    let s := run gitFile (State.ofList true [indexWriteCaller true false [A, B]])
      [(0, false), (0, false), (0, true), (0, false), (0, false), (0, false), (0, false)]
    (s.actors 0).pc = .done ∧ content s [0] = some A ∧ [A, B].flatten ≠ A := by
  decide

/-- `Index.write` as the source says it is NOW is a with-caller (handler `f.abort()`, for the writes
and for the close alike), so `with_commit_complete`, `failed_write_keeps_old`,
`close_failure_releases_lock_now` apply to it … -/
theorem index_write_now_is_with_caller (fs pm : Bool) (ds : List Bytes) :
    indexWriteCallerNow fs pm ds = withCaller false fs pm ds true := by
  simp [indexWriteCallerNow, withCaller, Gen.Lock.indexWriteErrCloses,
    Gen.Lock.exitAbortsOnException, Gen.Lock.delAborts, Actor.init]

/-- … and on the schedule of `index_write_counterexample` (second write fails) it leaves the old
content in place and the lock released. -/
theorem index_write_now_keeps_old :
    let s := run gitFile (State.ofList true [indexWriteCallerNow true false [A, B]])
      [(0, false), (0, false), (0, true), (0, false), (0, false)]
    (s.actors 0).pc = .done ∧ content s [0] = some [0] ∧ s.fs.lock = none ∧
      (s.actors 0).owns = false := by
  decide

/-- LOCK ACQUISITION WHEN THE PARENT DIRECTORY IS MISSING.  A program whose `__init__` retries the
open WITHOUT O_EXCL after ENOENT and re-creating the directory (`opens = [true, false]`) does not
pass the check, and violates mutual exclusion: the directory is absent; actor 0's exclusive open
fails with ENOENT; actor 1 (whose caller does `ensure_dir_exists`) creates the directory and takes
the lock; actor 0 re-creates the directory (it exists: fine) and its non-exclusive retry succeeds
— two holders. -/
theorem retry_without_excl_counterexample :
    let P : Program := { gitFile with opens := [true, false] }
    let s := run P (State.ofList false [withCaller false true false [A] false,
                                        withCaller true true false [B] false] false)
      [(0, false), (1, false), (1, false), (0, false), (0, false)]
    P.wellBehaved = false ∧ (s.actors 0).owns = true ∧ (s.actors 1).owns = true := by
  decide

/-- The same schedule on the program as it is now: actor 0's only open fails (FileNotFoundError
reaches its caller, it never gets a handle), actor 1 holds the lock alone. -/
theorem missing_directory_schedule_harmless_now :
    let s := run gitFile (State.ofList false [withCaller false true false [A] false,
                                              withCaller true true false [B] false] false)
      [(0, false), (1, false), (1, false), (0, false), (0, false)]
    (s.actors 0).pc = .done ∧ (s.actors 0).opened = false ∧ (s.actors 0).owns = false ∧
      (s.actors 1).owns = true ∧ s.fs.lock = some 1 ∧ s.fs.dir = true := by
  decide

/-! ## 5. non-vacuity -/

/-- the hypotheses of the theorems are satisfiable: `three` is an initial state made of
with-callers, and a non-trivial state (actor 1 holding the lock after actor 0 committed) is
reachable from it -/
example : Initial three ∧ three.actors 1 = withCaller false true false [B] false ∧
    Reach gitFile three (run gitFile three oldDefectSchedule) :=
  ⟨State.ofList_initial _ _ _ (by
      intro a ha
      simp only [List.mem_cons, List.not_mem_nil, or_false] at ha
      rcases ha with rfl | rfl | rfl <;> exact Actor.init_fresh _ _ _ _ _ _),
   rfl, reach_run _ _ _⟩

/-- pruners exist and matter: from a state with the directory present a pruner removes it (it is
empty), after which a writer whose caller does not re-create it cannot even open -/
example :
    let s := run gitFile (State.ofList false [Actor.pruner, withCaller false true false [A] false])
      [(0, false), (1, false)]
    s.fs.dir = false ∧ (s.actors 1).pc = .done ∧ (s.actors 1).opened = false := by
  decide

/-- a failing call exists in a reachable state (hypothesis `hfail` of `failed_write_keeps_old`):
the fsync of actor 0 made to fail -/
example : Out.isFailure ((run gitFile three [(0, false), (0, false), (0, false)]).actors 0).pc
    (stepOut gitFile (run gitFile three [(0, false), (0, false), (0, false)]) 0 true) = true := by
  decide

/-- a committed, complete write is reachable (hypothesis `hc` of `with_commit_complete`) -/
example : ((run gitFile three oldDefectSchedule).actors 0).committed = some A := by decide

end Dulwich.Props.C07
