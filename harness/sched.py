"""Deterministic system-call-level scheduler, fault injector and crash-snapshot recorder.

All interposition is done from the harness process by monkey-patching `os.*` / `builtins.open`
(no change to /repo).  Three uses:

  * Scheduler  -- several *actors* (threads running real dulwich code) are interleaved at system-call
                  granularity following an explicit schedule: every interposed call whose path lies
                  under a watched root is a *yield point*; exactly one actor runs between two yield
                  points, so the interleaving is fully determined by the schedule (C07, C08, C10).
  * faults     -- a schedule step may say "this pending call raises <exc>" instead of executing (C07).
  * Recorder   -- single actor; records the program of mutating calls (canonicalised) and calls a
                  snapshot hook at every boundary between two calls: the file system at that moment
                  is what a process crash there leaves behind (C09, C04).

Events are tuples (actor, call, paths, outcome) with paths made relative to the watched root.
"""
from __future__ import annotations

import builtins
import os
import threading
from contextlib import contextmanager

# calls that take a path (or two) as leading argument(s)
PATH_CALLS_1 = ["open", "remove", "unlink", "rmdir", "mkdir", "chmod", "utime", "stat", "lstat", "listdir",
                "scandir", "readlink", "access", "truncate", "makedirs", "removedirs"]
PATH_CALLS_2 = ["replace", "rename", "link", "symlink"]
MUTATING = {"open-w", "open-x", "remove", "unlink", "rmdir", "mkdir", "chmod", "utime", "truncate", "replace",
            "rename", "link", "symlink", "fsync", "makedirs", "removedirs", "write", "close-w"}
READING = {"open-r", "stat", "lstat", "listdir", "scandir", "readlink", "access"}

_real = {}
_lock = threading.Lock()
_active = None  # the installed Interposer


def _fs(p):
    try:
        p = os.fspath(p)
    except TypeError:
        return None
    if isinstance(p, bytes):
        p = os.fsdecode(p)
    return p if isinstance(p, str) else None


class Interposer:
    """Installs wrappers; `handler(name, paths, do_call)` is invoked for calls on watched paths made by
    registered threads; it must return do_call()'s result (or raise)."""

    def __init__(self, root: str, handler, calls=None, watch_reads=True):
        self.root = os.path.realpath(root)
        self.handler = handler
        self.threads: dict[int, str] = {}
        self.watch_reads = watch_reads
        self.calls = set(calls) if calls else None
        self.fd_paths: dict[int, str] = {}

    def register(self, name: str):
        self.threads[threading.get_ident()] = name

    def unregister(self):
        self.threads.pop(threading.get_ident(), None)

    def actor(self):
        return self.threads.get(threading.get_ident())

    def rel(self, p):
        p = _fs(p)
        if p is None:
            return None
        ap = os.path.normpath(os.path.join(os.getcwd(), p)) if not os.path.isabs(p) else os.path.normpath(p)
        if ap == self.root:
            return "."
        if ap.startswith(self.root + os.sep):
            return ap[len(self.root) + 1:]
        # resolve symlinked prefixes (e.g. /var/tmp -> ...) cheaply
        return None

    def _wrap1(self, name):
        real = _real[name]

        def w(path, *a, **k):
            who = self.actor()
            if who is None or isinstance(path, int):
                return real(path, *a, **k)
            r = self.rel(path)
            if r is None:
                return real(path, *a, **k)
            nm = name
            if name == "open":  # os.open(path, flags, mode)
                flags = a[0] if a else k.get("flags", 0)
                nm = "open-x" if flags & os.O_EXCL else ("open-w" if flags & (os.O_WRONLY | os.O_RDWR | os.O_CREAT) else "open-r")
            if nm in READING and not self.watch_reads:
                return real(path, *a, **k)
            if self.calls is not None and nm not in self.calls:
                return real(path, *a, **k)

            def do():
                res = real(path, *a, **k)
                if name == "open":
                    self.fd_paths[res] = r
                return res
            return self.handler(who, nm, (r,), do)
        return w

    def _wrap2(self, name):
        real = _real[name]

        def w(src, dst, *a, **k):
            who = self.actor()
            if who is None:
                return real(src, dst, *a, **k)
            r1, r2 = self.rel(src), self.rel(dst)
            if r1 is None and r2 is None:
                return real(src, dst, *a, **k)
            if self.calls is not None and name not in self.calls:
                return real(src, dst, *a, **k)
            return self.handler(who, name, (r1 or _fs(src), r2 or _fs(dst)), lambda: real(src, dst, *a, **k))
        return w

    def _wrap_fsync(self):
        real = _real["fsync"]

        def w(fd):
            who = self.actor()
            p = self.fd_paths.get(fd if isinstance(fd, int) else -1)
            if who is None or p is None or (self.calls is not None and "fsync" not in self.calls):
                return real(fd)
            return self.handler(who, "fsync", (p,), lambda: real(fd))
        return w

    def _wrap_builtin_open(self):
        real = _real["builtins.open"]

        def w(file, mode="r", *a, **k):
            who = self.actor()
            if who is None or isinstance(file, int):
                return real(file, mode, *a, **k)
            r = self.rel(file)
            if r is None:
                return real(file, mode, *a, **k)
            nm = "open-x" if "x" in mode else ("open-w" if any(c in mode for c in "wa+") else "open-r")
            if nm in READING and not self.watch_reads:
                return real(file, mode, *a, **k)
            if self.calls is not None and nm not in self.calls:
                return real(file, mode, *a, **k)
            return self.handler(who, nm, (r,), lambda: real(file, mode, *a, **k))
        return w

    def install(self):
        global _active
        with _lock:
            if _active is not None:
                raise RuntimeError("an Interposer is already installed")
            for n in PATH_CALLS_1 + PATH_CALLS_2 + ["fsync"]:
                _real[n] = getattr(os, n)
            _real["builtins.open"] = builtins.open
            for n in PATH_CALLS_1:
                setattr(os, n, self._wrap1(n))
            for n in PATH_CALLS_2:
                setattr(os, n, self._wrap2(n))
            os.fsync = self._wrap_fsync()
            builtins.open = self._wrap_builtin_open()
            import io
            self._io_open = io.open
            _active = self

    def uninstall(self):
        global _active
        with _lock:
            for n in PATH_CALLS_1 + PATH_CALLS_2 + ["fsync"]:
                setattr(os, n, _real[n])
            builtins.open = _real["builtins.open"]
            _active = None

    def __enter__(self):
        self.install()
        return self

    def __exit__(self, *exc):
        self.uninstall()


# ----------------------------------------------------------------------------------------------
# single-actor recorder with a boundary hook (crash snapshots, syscall programs)

class Recorder:
    """with Recorder(root, on_boundary) as rec: op()  -> rec.events
    `on_boundary(k, pending_event)` is called BEFORE the k-th watched call executes (from the actor's
    thread, with interposition suspended) — the file system at that moment is the crash state "after k
    completed calls".  Only mutating calls are boundaries unless reads=True."""

    def __init__(self, root, on_boundary=None, reads=False, fail_at: dict | None = None):
        self.events = []
        self.on_boundary = on_boundary
        self.fail_at = fail_at or {}
        self.ip = Interposer(root, self._handle, watch_reads=reads)
        self._busy = False

    def _handle(self, who, name, paths, do):
        if self._busy:
            return do()
        k = len(self.events)
        if self.on_boundary is not None:
            self._busy = True
            try:
                self.on_boundary(k, (name, paths))
            finally:
                self._busy = False
        if k in self.fail_at:
            exc = self.fail_at[k]
            self.events.append((who, name, paths, "inject:" + type(exc).__name__))
            raise exc
        try:
            res = do()
        except BaseException as e:
            self.events.append((who, name, paths, type(e).__name__))
            raise
        self.events.append((who, name, paths, "ok"))
        return res

    def __enter__(self):
        self.ip.install()
        self.ip.register("main")
        return self

    def __exit__(self, *exc):
        self.ip.unregister()
        self.ip.uninstall()


# ----------------------------------------------------------------------------------------------
# multi-actor deterministic scheduler

class ActorResult:
    def __init__(self):
        self.value = None
        self.exc = None
        self.done = False


class Scheduler:
    """sched = Scheduler(root); sched.spawn("A", fnA); sched.spawn("B", fnB); events = sched.run(choose)

    `choose(pending, history)` is called when every live actor is parked at a yield point (or finished);
    `pending` maps actor -> (call, paths); it returns an actor name, or (actor, exception_instance) to make
    that actor's pending call raise instead of executing.  The released actor executes its call and runs
    alone until its next yield point or its end.  A list of actor names can be given instead of a function:
    entries naming an actor that is not pending are skipped; when the list is exhausted the lowest-named
    pending actor runs (so every schedule prefix is completed deterministically)."""

    def __init__(self, root, calls=None, watch_reads=True, timeout=60.0):
        self.cv = threading.Condition()
        self.pending: dict[str, tuple] = {}
        self.go: dict[str, object] = {}
        self.results: dict[str, ActorResult] = {}
        self.threads: dict[str, threading.Thread] = {}
        self.history = []
        self.timeout = timeout
        self.ip = Interposer(root, self._handle, calls=calls, watch_reads=watch_reads)

    # actor side
    def _handle(self, who, name, paths, do):
        with self.cv:
            self.pending[who] = (name, paths)
            self.cv.notify_all()
            while who not in self.go:
                if not self.cv.wait(self.timeout):
                    raise RuntimeError(f"scheduler: actor {who} starved")
            order = self.go.pop(who)
            del self.pending[who]
        if isinstance(order, BaseException):
            self.history.append((who, name, paths, "inject:" + type(order).__name__))
            raise order
        try:
            res = do()
        except BaseException as e:
            self.history.append((who, name, paths, type(e).__name__))
            raise
        self.history.append((who, name, paths, "ok"))
        return res

    def spawn(self, name: str, fn):
        res = ActorResult()
        self.results[name] = res

        def body():
            self.ip.register(name)
            # park before the first instruction so that nothing runs until scheduled
            try:
                self._handle(name, "start", (), lambda: None)
                res.value = fn()
            except BaseException as e:  # noqa: BLE001 - actor outcome, reported to the caller
                res.exc = e
            finally:
                self.ip.unregister()
                with self.cv:
                    res.done = True
                    self.cv.notify_all()
        t = threading.Thread(target=body, name=f"actor-{name}", daemon=True)
        self.threads[name] = t

    def _quiescent(self):
        return all(r.done or n in self.pending for n, r in self.results.items())

    def run(self, choose):
        if not callable(choose):
            seq = list(choose)

            def choose(pending, history, _seq=seq):
                while _seq:
                    a = _seq.pop(0)
                    nm = a[0] if isinstance(a, tuple) else a
                    if nm in pending:
                        return a
                return sorted(pending)[0]
        self.ip.install()
        try:
            for t in self.threads.values():
                t.start()
            while True:
                with self.cv:
                    while not self._quiescent():
                        if not self.cv.wait(self.timeout):
                            raise RuntimeError("scheduler: actors did not reach a yield point")
                    if not self.pending:
                        break
                    pend = dict(self.pending)
                pick = choose(pend, self.history)
                exc = None
                if isinstance(pick, tuple):
                    pick, exc = pick
                with self.cv:
                    self.go[pick] = exc if exc is not None else True
                    self.cv.notify_all()
                    # wait until that actor has consumed the order
                    while pick in self.go:
                        if not self.cv.wait(self.timeout):
                            raise RuntimeError("scheduler: order not consumed")
            for t in self.threads.values():
                t.join(self.timeout)
        finally:
            self.ip.uninstall()
        return [e for e in self.history if e[1] != "start"]


def enumerate_schedules(lengths: dict[str, int], max_preemptions: int):
    """All interleavings of actors with the given numbers of steps that use at most `max_preemptions`
    context switches away from an actor that could still run.  Yields lists of actor names."""
    names = sorted(lengths)

    def rec(remaining, cur, pre, acc):
        if all(v == 0 for v in remaining.values()):
            yield list(acc)
            return
        for n in names:
            if remaining[n] == 0:
                continue
            cost = 1 if (cur is not None and n != cur and remaining[cur] > 0) else 0
            if pre + cost > max_preemptions:
                continue
            remaining[n] -= 1
            acc.append(n)
            yield from rec(remaining, n, pre + cost, acc)
            acc.pop()
            remaining[n] += 1
    yield from rec(dict(lengths), None, 0, [])


@contextmanager
def snapshotter(root: str, dest_dir: str):
    """Helper for Recorder: returns a function copying `root` to dest_dir/<k> (hard copy, small repos)."""
    import shutil
    copy = _real.get("builtins.open")  # noqa: F841 (ensures _real populated only after install)

    def snap(k, pending):
        d = os.path.join(dest_dir, str(k))
        shutil.copytree(root, d, symlinks=True)
    yield snap
