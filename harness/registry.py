"""Discovery of property modules harness/props/cNN.py."""
from __future__ import annotations

import importlib
import re
from pathlib import Path


def all_ids() -> list[str]:
    d = Path(__file__).parent / "props"
    return sorted(p.stem.upper() for p in d.glob("c[0-9][0-9].py"))


def load(pid: str):
    return importlib.import_module(f"harness.props.{pid.lower()}")


def modules(props=None) -> dict:
    out = {}
    for pid in (props or all_ids()):
        out[pid] = load(pid)
    return out
