"""Shared machinery for the dulwich verification checks.

Everything a property module (harness/props/cNN.py) needs:

  * Ctx            -- per-run context: tier, seed, rng, scratch dir, counters, verdict plumbing
  * lean_build     -- regenerate Gen/, build Props/Cxx + driver, grep + axiom audit
  * Driver         -- batch interface to the compiled Lean line-protocol driver
  * Worker         -- child processes running the real dulwich code (pure-Python variant with the
                      extension modules masked, Rust variant rebuilt from the working tree)
  * findings       -- KNOWN_FINDINGS.jsonl matching
  * evidence       -- evidence/<id>.json writer

Verdict protocol (DESIGN.md section 4):
  exit 0  property held on everything explored (KNOWN-FINDING lines allowed)
  exit 1  VIOLATION property=<id> replay=<path> [no-failing-input-found]
  exit 2  infrastructure failure (never a verdict)
"""
from __future__ import annotations

import hashlib
import json
import os
import random
import re
import shutil
import signal
import subprocess
import sys
import time
import traceback
from pathlib import Path

VERIF = Path(__file__).resolve().parent.parent
REPO = Path(os.environ.get("VERIF_REPO", "/repo"))
LEAN_DIR = VERIF / "lean"
CACHE = VERIF / ".cache"
PY = os.environ.get("VERIF_PYTHON", "/venv/bin/python")
ALLOWED_AXIOMS = {"propext", "Classical.choice", "Quot.sound"}
FORBIDDEN = re.compile(
    r"\b(sorry|admit|native_decide|bv_decide|implemented_by|unsafe)\b|^\s*axiom\s|maxHeartbeats\s+0\b"
)

TRUSTED_BASE_COMMON = [
    "Lean 4.33.0 kernel; axioms limited to propext, Classical.choice, Quot.sound (audited by #print axioms each run)",
    "statements in lean/DulwichModel/Props/*.lean mean what DESIGN.md says",
    "translator harness/translate.py + per-property translate() copy constants/tables faithfully",
    "correspondence harness + generators: what they do not generate is not tied",
    "CPython, hashlib, zlib, struct semantics; OS/file-system semantics",
]


class InfraError(Exception):
    """Tooling failure: exit 2, never a verdict."""


# ----------------------------------------------------------------------------------------------
# small utilities

def hx(b: bytes) -> str:
    return b.hex() if b else "-"


def unhx(s: str) -> bytes:
    return b"" if s == "-" else bytes.fromhex(s)


def sh(cmd, cwd=None, timeout=None, env=None, check=False):
    p = subprocess.run(cmd, cwd=cwd, timeout=timeout, env=env, stdout=subprocess.PIPE,
                       stderr=subprocess.STDOUT, text=True, errors="replace")
    if check and p.returncode != 0:
        raise InfraError(f"command failed ({p.returncode}): {cmd}\n{p.stdout[-4000:]}")
    return p.returncode, p.stdout


def clean_env(extra=None):
    env = dict(os.environ)
    env.setdefault("CARGO_NET_OFFLINE", "true")
    env.setdefault("PIP_NO_INDEX", "1")
    env["GIT_CONFIG_NOSYSTEM"] = "1"
    env["GIT_AUTHOR_NAME"] = env["GIT_COMMITTER_NAME"] = "verif"
    env["GIT_AUTHOR_EMAIL"] = env["GIT_COMMITTER_EMAIL"] = "verif@example.com"
    env["HOME"] = str(CACHE / "home")
    env["LC_ALL"] = "C"
    env["TZ"] = "UTC"
    if extra:
        env.update(extra)
    return env


# ----------------------------------------------------------------------------------------------
# Lean side

def write_if_changed(path: Path, text: str) -> bool:
    path.parent.mkdir(parents=True, exist_ok=True)
    if path.exists() and path.read_text() == text:
        return False
    path.write_text(text)
    return True


def strip_lean_comments(src: str) -> str:
    # remove /- ... -/ (nested not handled beyond one level — adequate) and -- line comments
    out = []
    i, n, depth = 0, len(src), 0
    while i < n:
        if src.startswith("/-", i):
            depth += 1
            i += 2
        elif depth and src.startswith("-/", i):
            depth -= 1
            i += 2
        elif depth:
            i += 1
        elif src.startswith("--", i):
            j = src.find("\n", i)
            i = n if j < 0 else j
        else:
            out.append(src[i])
            i += 1
    return "".join(out)


def grep_forbidden(files) -> list[str]:
    hits = []
    for f in files:
        try:
            src = strip_lean_comments(Path(f).read_text())
        except FileNotFoundError:
            continue
        # string literals may legitimately contain words; drop them
        src = re.sub(r'"(\\.|[^"\\])*"', '""', src)
        for ln, line in enumerate(src.splitlines(), 1):
            if FORBIDDEN.search(line):
                hits.append(f"{f}:{ln}: {line.strip()[:120]}")
    return hits


def lean_sources_for(prop: str) -> list[Path]:
    """Transitive local imports of Props/<prop>.lean (files under lean/)."""
    seen, todo = [], [LEAN_DIR / "DulwichModel" / "Props" / f"{prop}.lean"]
    while todo:
        f = todo.pop()
        if f in seen or not f.exists():
            continue
        seen.append(f)
        for m in re.finditer(r"^import\s+((?:DulwichModel|Driver)[\w.]*)", f.read_text(), re.M):
            todo.append(LEAN_DIR / (m.group(1).replace(".", "/") + ".lean"))
    return seen


def theorem_names(prop: str) -> list[str]:
    src = strip_lean_comments((LEAN_DIR / "DulwichModel" / "Props" / f"{prop}.lean").read_text())
    ns = []
    names = []
    for line in src.splitlines():
        m = re.match(r"\s*namespace\s+([\w.]+)", line)
        if m:
            ns.append(m.group(1))
            continue
        m = re.match(r"\s*end\s+([\w.]+)\s*$", line)
        if m and ns and ns[-1] == m.group(1):
            ns.pop()
            continue
        m = re.match(r"\s*(?:@\[[^\]]*\]\s*)?(?:private\s+|protected\s+)?theorem\s+([\w.']+)", line)
        if m:
            names.append(".".join(ns + [m.group(1)]))
    return names


class LeanResult:
    def __init__(self):
        self.ok = True
        self.obligations = 0
        self.discharged = 0
        self.problems: list[str] = []
        self.theorems: list[str] = []
        self.axioms: dict[str, list[str]] = {}
        self.log = ""
        self.gen_changed: list[str] = []
        self.leanchecker = "not run (quick tier)"


def run_translators(props=None) -> tuple[list[str], list[str]]:
    """Regenerate lean/DulwichModel/Gen/*.lean from /repo.  Returns (changed files, problems)."""
    from . import registry
    changed, problems = [], []
    for pid, mod in registry.modules(props).items():
        tr = getattr(mod, "translate", None)
        if tr is None:
            continue
        try:
            outs = tr(REPO)  # {"Delta": "lean source", ...}
        except Exception as e:  # translator could not read the source: broken tie
            problems.append(f"translator for {pid} failed: {type(e).__name__}: {e}")
            continue
        for name, text in outs.items():
            if write_if_changed(LEAN_DIR / "DulwichModel" / "Gen" / f"{name}.lean", text):
                changed.append(name)
    return changed, problems


def lake(args, timeout=3600):
    env = clean_env()
    return sh(["lake"] + args, cwd=LEAN_DIR, timeout=timeout, env=env)


def lean_check(prop: str, build_driver=True, thorough=False) -> LeanResult:
    """Translator -> lake build Props.<prop> (+driver) -> forbidden-token grep -> axiom audit."""
    res = LeanResult()
    from . import registry
    deps = [prop] + list(getattr(registry.load(prop), "DEPENDS", []))
    changed, problems = run_translators(deps)
    res.gen_changed = changed
    res.problems += problems
    try:
        res.theorems = theorem_names(prop)
    except FileNotFoundError:
        raise InfraError(f"no Props/{prop}.lean")
    res.obligations = len(res.theorems)
    targets = [f"DulwichModel.Props.{prop}"]
    rc, out = lake(["build"] + targets)
    res.log += out
    built = rc == 0
    if not built:
        res.problems.append(f"lake build DulwichModel.Props.{prop} failed")
        # which theorems are reported in error messages? keep the log tail
    if build_driver and (LEAN_DIR / "Driver" / f"{prop}.lean").exists():
        rc2, out2 = lake(["build", f"driver_{prop.lower()}"])
        res.log += out2
        if rc2 != 0:
            res.problems.append(f"lake build driver_{prop.lower()} failed")
    hits = grep_forbidden(lean_sources_for(prop))
    if hits:
        res.problems.append("forbidden tokens: " + "; ".join(hits[:5]))
    if built:
        audit = LEAN_DIR / ".lake" / f"audit_{prop}.lean"
        audit.parent.mkdir(exist_ok=True)
        audit.write_text(f"import DulwichModel.Props.{prop}\n" +
                         "".join(f"#print axioms {t}\n" for t in res.theorems))
        rc, out = lake(["env", "lean", str(audit)])
        res.log += out
        if rc != 0:
            res.problems.append("axiom audit failed to run")
        else:
            cur = None
            # output: "'name' depends on axioms: [a, b]" or "'name' does not depend on any axioms"
            for m in re.finditer(r"'([^']+)' (does not depend on any axioms|depends on axioms: \[([^\]]*)\])",
                                 out.replace("\n", " ")):
                ax = [] if m.group(3) is None else [a.strip() for a in m.group(3).split(",") if a.strip()]
                res.axioms[m.group(1)] = ax
            for t in res.theorems:
                if t not in res.axioms:
                    res.problems.append(f"no axiom report for {t}")
                elif not set(res.axioms[t]) <= ALLOWED_AXIOMS:
                    res.problems.append(f"{t} uses axioms {res.axioms[t]}")
                else:
                    res.discharged += 1
    if built and thorough:
        # independent re-check of the compiled .olean files (thorough tier only)
        rc, out = lake(["env", "leanchecker", f"DulwichModel.Props.{prop}"], timeout=3600)
        res.log += out
        res.leanchecker = "ok" if rc == 0 else f"failed ({rc})"
        if rc != 0:
            res.problems.append("leanchecker rejected the compiled Props module: " + out[-300:])
    res.ok = not res.problems
    return res


class Driver:
    """Batch access to a compiled Lean driver (`lean/.lake/build/bin/driver_cNN`)."""

    def __init__(self, prop: str):
        self.exe = LEAN_DIR / ".lake" / "build" / "bin" / f"driver_{prop.lower()}"
        if not self.exe.exists():
            rc, out = lake(["build", f"driver_{prop.lower()}"])
            if rc != 0 or not self.exe.exists():
                raise InfraError(f"driver_{prop.lower()} not built:\n{out[-2000:]}")
        self.lines_sent = 0

    def batch(self, lines: list[str], timeout=1800) -> list[str]:
        if not lines:
            return []
        data = "\n".join(lines) + "\n"
        p = subprocess.run([str(self.exe)], input=data.encode(), stdout=subprocess.PIPE,
                           stderr=subprocess.PIPE, timeout=timeout)
        if p.returncode != 0:
            raise InfraError(f"driver exited {p.returncode}: {p.stderr.decode(errors='replace')[-2000:]}")
        out = p.stdout.decode().split("\n")
        if out and out[-1] == "":
            out.pop()
        if len(out) != len(lines):
            raise InfraError(f"driver returned {len(out)} lines for {len(lines)} requests")
        self.lines_sent += len(lines)
        return out


# ----------------------------------------------------------------------------------------------
# implementation workers

WORKER_SRC = VERIF / "harness" / "worker.py"


def rust_overlay() -> Path | None:
    """Rebuild the Rust extensions from /repo's working tree into a cache dir and return a directory
    to put on PYTHONPATH in which `dulwich` is /repo/dulwich with the fresh .so files.  /repo is not
    written.  Returns None when cargo is unavailable or the build fails (recorded by the caller)."""
    key = "" if str(REPO) == "/repo" else "-" + hashlib.sha1(str(REPO).encode()).hexdigest()[:8]
    target = CACHE / ("cargo-target" + key)
    target.mkdir(parents=True, exist_ok=True)
    env = clean_env({"CARGO_TARGET_DIR": str(target), "CARGO_NET_OFFLINE": "true"})
    env["HOME"] = os.environ.get("HOME", "/root")  # cargo registry lives in the real home
    rc, out = sh(["cargo", "build", "--offline", "--locked", "--manifest-path", str(REPO / "Cargo.toml")],
                 env=env, timeout=1800)
    if rc != 0:
        rc, out = sh(["cargo", "build", "--offline", "--manifest-path", str(REPO / "Cargo.toml")],
                     env=env, timeout=1800)
    if rc != 0:
        (CACHE / "cargo.log").write_text(out)
        return None
    ov = CACHE / ("overlay" + key)
    pkg = ov / "dulwich"
    if pkg.exists():
        shutil.rmtree(pkg)
    pkg.mkdir(parents=True)
    for entry in (REPO / "dulwich").iterdir():
        if entry.name.endswith(".so") or entry.name == "__pycache__":
            continue
        os.symlink(entry, pkg / entry.name)
    import sysconfig
    suffix = sysconfig.get_config_var("EXT_SUFFIX") or ".so"
    if "cpython-312" not in suffix:
        suffix = ".cpython-312-x86_64-linux-gnu.so"
    for lib, mod in (("objects_py", "_objects"), ("pack_py", "_pack"), ("diff_tree_py", "_diff_tree")):
        so = target / "debug" / f"lib{lib}.so"
        if not so.exists():
            (CACHE / "cargo.log").write_text(out + f"\nmissing {so}")
            return None
        shutil.copy2(so, pkg / f"{mod}{suffix}")
    return ov


class Worker:
    """A child python process running harness/worker.py: one JSON request per line, one JSON reply
    per line.  variant: 'py' (extensions masked), 'rs' (fresh Rust overlay), 'default' (as installed).
    A dead child (abort, rlimit) is reported as {"crash": <signal or code>} and restarted."""

    def __init__(self, variant: str, overlay: Path | None = None, mem_mb: int = 2048, cpu_s: int = 600):
        self.variant, self.overlay, self.mem_mb, self.cpu_s = variant, overlay, mem_mb, cpu_s
        self.p = None
        self.restarts = 0

    def _start(self):
        extra = {"VERIF_WORKER_VARIANT": self.variant, "VERIF_WORKER_MEM_MB": str(self.mem_mb),
                 "VERIF_WORKER_CPU_S": str(self.cpu_s), "PYTHONHASHSEED": "0"}
        pp = [str(VERIF)]
        if self.variant == "rs" and self.overlay is not None:
            pp.insert(0, str(self.overlay))
        else:
            pp.insert(0, str(REPO))
        extra["PYTHONPATH"] = os.pathsep.join(pp)
        self.p = subprocess.Popen([PY, "-u", str(WORKER_SRC)], stdin=subprocess.PIPE, stdout=subprocess.PIPE,
                                  stderr=subprocess.DEVNULL, env=clean_env(extra))

    def ask(self, req: dict, timeout: float = 60.0) -> dict:
        if self.p is None or self.p.poll() is not None:
            self._start()
        try:
            self.p.stdin.write((json.dumps(req) + "\n").encode())
            self.p.stdin.flush()
        except BrokenPipeError:
            return self._dead()
        import select
        r, _, _ = select.select([self.p.stdout], [], [], timeout)
        if not r:
            self.p.kill()
            self.p.wait()
            self.p = None
            self.restarts += 1
            return {"crash": "timeout"}
        line = self.p.stdout.readline()
        if not line:
            return self._dead()
        return json.loads(line)

    def _dead(self):
        rc = self.p.wait()
        self.p = None
        self.restarts += 1
        return {"crash": (-rc and f"signal:{signal.Signals(-rc).name}") if rc < 0 else f"exit:{rc}"}

    def close(self):
        if self.p is not None and self.p.poll() is None:
            try:
                self.p.stdin.close()
                self.p.wait(timeout=5)
            except Exception:
                self.p.kill()
        self.p = None


# ----------------------------------------------------------------------------------------------
# findings

def load_findings(prop: str) -> list[dict]:
    out = []
    for f in (VERIF / "KNOWN_FINDINGS.jsonl", VERIF / "findings" / f"{prop}.jsonl"):
        if not f.exists():
            continue
        for line in f.read_text().splitlines():
            line = line.strip()
            if line and not line.startswith("#"):
                d = json.loads(line)
                if d.get("property") == prop:
                    out.append(d)
    return out


# ----------------------------------------------------------------------------------------------
# context

class Ctx:
    def __init__(self, prop: str, tier: str, seed: int):
        self.prop, self.tier, self.seed = prop, tier, seed
        self.rng = random.Random(f"{prop}:{seed}")
        self.t0 = time.time()
        self.scratch = Path(os.environ.get("VERIF_SCRATCH", "/var/tmp")) / f"dulwich-verif-{os.getpid()}"
        self.scratch.mkdir(parents=True, exist_ok=True)
        (CACHE / "home").mkdir(parents=True, exist_ok=True)
        self.evaluations = 0
        self.distinct: set[str] = set()
        self.samples: list = []
        self.hist: dict[str, dict[str, int]] = {}
        self.streams: dict[str, int] = {}
        self.disagreements: list[dict] = []      # model vs implementation
        self.oracle_failures: list[dict] = []    # property statement fails on the real code
        self.notes: list[str] = []
        self.assumptions: list[str] = []
        self.extra_cov: dict = {}
        self.lean: LeanResult | None = None
        self.known = [f for f in load_findings(prop) if f.get("status") == "known"]
        self.known_hit: dict[str, int] = {}
        self.thorough = tier == "thorough"
        self._driver = None

    # -- budget helper: quick n, thorough n*mult, boosted when a proof/translator broke
    def budget(self, quick: int, mult: int = 10) -> int:
        n = quick * (mult if self.thorough else 1)
        if self.lean is not None and not self.lean.ok:
            n *= 5
        scale = float(os.environ.get("VERIF_BUDGET_SCALE", "1"))
        return max(1, int(n * scale))

    @property
    def driver(self) -> Driver:
        if self._driver is None:
            self._driver = Driver(self.prop)
        return self._driver

    # -- bookkeeping
    def count(self, stream: str, case_key, nontrivial: bool = True, tag: str | None = None):
        self.evaluations += 1
        self.streams[stream] = self.streams.get(stream, 0) + 1
        if nontrivial:
            h = hashlib.blake2b(repr((stream, case_key)).encode(), digest_size=8).hexdigest()
            self.distinct.add(h)
        if tag is not None:
            d = self.hist.setdefault(stream, {})
            d[tag] = d.get(tag, 0) + 1

    def sample(self, obj, limit=6):
        if len(self.samples) < limit:
            self.samples.append(obj)

    MAX_KEPT = 400          # failures / disagreements kept in memory (the rest is only counted)

    def disagree(self, stream: str, case: dict, model, impl, variant: str = "impl"):
        self.n_disagreements = getattr(self, "n_disagreements", 0) + 1
        if len(self.disagreements) < self.MAX_KEPT:
            self.disagreements.append({"stream": stream, "case": case, "model": model, "impl": impl,
                                       "variant": variant})
        else:
            self.disagreements.append({"stream": stream, "case": {"omitted": True}, "model": str(model)[:80],
                                       "impl": str(impl)[:80], "variant": variant})

    def oracle_fail(self, stream: str, case: dict, what: str, cls: str | None = None):
        """The property's own statement fails on the real code for `case`.
        `cls` is the failing-input class used to match KNOWN_FINDINGS entries."""
        for k in self.known:
            if cls is not None and k.get("match", {}).get("class") == cls and \
                    k.get("match", {}).get("stream", stream) == stream:
                self.known_hit[k["id"]] = self.known_hit.get(k["id"], 0) + 1
                return
        self.n_oracle_failures = getattr(self, "n_oracle_failures", 0) + 1
        key = (stream, cls)
        self._fail_per_class = getattr(self, "_fail_per_class", {})
        self._kept_full = getattr(self, "_kept_full", 0)
        self._fail_per_class[key] = self._fail_per_class.get(key, 0) + 1
        # keep the first few cases of every (stream, class) and a bounded total: a badly broken tree
        # can fail on every case, and the replay only needs one case per class
        if self._fail_per_class[key] <= 5 and self._kept_full < self.MAX_KEPT:
            self._kept_full += 1
            self.oracle_failures.append({"stream": stream, "case": case, "what": what, "class": cls})
        else:
            # placeholder: len(ctx.oracle_failures) keeps counting, the bulky case is dropped
            self.oracle_failures.append({"stream": stream, "case": {"omitted": "see the first cases of this class"},
                                         "what": str(what)[:200], "class": cls})

    # -- verdict
    def write_replay(self, payload: dict) -> Path:
        d = VERIF / "replays"
        d.mkdir(exist_ok=True)
        p = d / f"{self.prop}-{self.seed}-{int(time.time())}-{len(list(d.iterdir()))}.json"
        p.write_text(json.dumps(payload, indent=1, default=repr))
        return p

    def finish(self, search=None) -> int:
        """Decide, write evidence, print verdict lines.  `search(ctx)` is the property's failing-input
        search, run when a proof obligation, the translator or the correspondence broke and no oracle
        failure has been seen yet; it should call ctx.oracle_fail for whatever it finds."""
        lean_ok = self.lean is None or self.lean.ok
        broken = (not lean_ok) or bool(self.disagreements)
        if broken and not self.oracle_failures and search is not None:
            try:
                search(self)
            except InfraError:
                raise
            except Exception:
                self.notes.append("search crashed: " + traceback.format_exc()[-800:])
        rc = 0
        lines = []
        for k in self.known:
            if self.known_hit.get(k["id"]):
                lines.append(f"KNOWN-FINDING: property={self.prop} {k['id']}: {k['what']} "
                             f"(hit {self.known_hit[k['id']]}x)")
        nviol = 0
        if self.oracle_failures:
            # one replay per failing class (first case of each)
            seen = set()
            for f in self.oracle_failures:
                key = (f["stream"], f["class"])
                if key in seen:
                    continue
                seen.add(key)
                p = self.write_replay({"property": self.prop, "kind": "failing-input", **f,
                                       "seed": self.seed, "tier": self.tier,
                                       "replay_cmd": f"./check {self.prop} --replay <this file>"})
                lines.append(f"VIOLATION property={self.prop} replay={p}")
                nviol += 1
            rc = 1
        elif broken:
            what = []
            if not lean_ok:
                what += self.lean.problems
            if self.disagreements:
                what.append(f"{getattr(self, 'n_disagreements', len(self.disagreements))} model/implementation disagreement(s)")
            p = self.write_replay({"property": self.prop, "kind": "broken-obligation",
                                   "no_longer_checks": what,
                                   "lean_log_tail": (self.lean.log[-3000:] if self.lean else ""),
                                   "disagreements": self.disagreements[:5],
                                   "seed": self.seed, "tier": self.tier})
            lines.append(f"VIOLATION property={self.prop} replay={p} no-failing-input-found")
            nviol += 1
            rc = 1
        self.write_evidence(nviol)
        for l in lines:
            print(l)
        if rc == 0:
            print(f"OK property={self.prop} tier={self.tier} seed={self.seed} evaluations={self.evaluations} "
                  f"distinct={len(self.distinct)} obligations={self.lean.obligations if self.lean else 0} "
                  f"wall={time.time() - self.t0:.1f}s")
        return rc

    def write_evidence(self, nviol: int):
        lean = self.lean
        cov = {
            "obligations": lean.obligations if lean else 0,
            "discharged": lean.discharged if lean else 0,
            "checker_cmd": f"cd /verif/lean && lake build DulwichModel.Props.{self.prop} driver_{self.prop.lower()} && "
                           f"lake env lean .lake/audit_{self.prop}.lean  # (#print axioms for every theorem)",
            "trusted_base": TRUSTED_BASE_COMMON + self.assumptions,
            "theorems": lean.theorems if lean else [],
            "axioms_used": sorted({a for v in (lean.axioms.values() if lean else []) for a in v}),
            "gen_files_changed_this_run": lean.gen_changed if lean else [],
            "proof_problems": lean.problems if lean else [],
            "leanchecker": lean.leanchecker if lean else "not run",
            "evaluations": self.evaluations,
            "distinct_nontrivial": len(self.distinct),
            "rule": "correspondence + direct-oracle cases generated from random.Random(VERIF_SEED) and exhaustive "
                    "enumerations per stream; a case is counted as distinct+non-trivial when the property module "
                    "flags it non-trivial (reached a non-error branch or a distinct error kind) and its "
                    "(stream, canonical case) hash is new",
            "samples": self.samples,
            "streams": self.streams,
            "histograms": self.hist,
            "driver_lines": self._driver.lines_sent if self._driver else 0,
            "disagreements": getattr(self, "n_disagreements", len(self.disagreements)),
            "oracle_failures": getattr(self, "n_oracle_failures", len(self.oracle_failures)),
            "known_findings_hit": self.known_hit,
            "stale_findings": [k["id"] for k in self.known if not self.known_hit.get(k["id"])],
            "notes": self.notes,
        }
        cov.update(self.extra_cov)
        ev = {
            "property_id": self.prop,
            "tier": self.tier,
            "seed": self.seed,
            "level": "proof",
            "coverage": cov,
            "assumptions": self.assumptions,
            "wall_s": round(time.time() - self.t0, 2),
            "violations": nviol,
        }
        d = VERIF / "evidence"
        d.mkdir(exist_ok=True)
        (d / f"{self.prop}.json").write_text(json.dumps(ev, indent=1, default=repr))

    def cleanup(self):
        shutil.rmtree(self.scratch, ignore_errors=True)
