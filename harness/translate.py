"""Helpers for the source-to-Lean translators (constants, literal tables, loop bounds).

Each property module exposes `translate(repo: Path) -> {"<Name>": "<lean source>"}`; the files are
written to lean/DulwichModel/Gen/<Name>.lean on every run (only when the text changed, so an
unchanged source costs no rebuild).  A translator that cannot find what it is looking for raises
TranslateError: the tie is broken and the check says so.
"""
from __future__ import annotations

import ast
import re
from pathlib import Path


class TranslateError(Exception):
    pass


_cache: dict = {}


def module_ast(path: Path) -> ast.Module:
    path = Path(path)
    key = (str(path), path.stat().st_mtime_ns)
    if key not in _cache:
        _cache[key] = ast.parse(path.read_text())
    return _cache[key]


def find_def(tree: ast.AST, qualname: str):
    """find_def(tree, 'Class.method') or 'func' or 'func.inner'."""
    node = tree
    for part in qualname.split("."):
        found = None
        for ch in ast.walk(node) if node is not tree else ast.iter_child_nodes(node):
            if isinstance(ch, (ast.FunctionDef, ast.AsyncFunctionDef, ast.ClassDef)) and ch.name == part and ch is not node:
                found = ch
                break
        if found is None:
            raise TranslateError(f"definition {qualname!r} not found (at {part!r})")
        node = found
    return node


def const_value(tree: ast.Module, name: str):
    """Value of a module-level `NAME = <literal expr>` (ints, bytes, str, tuples, simple arithmetic)."""
    for st in tree.body:
        targets = []
        if isinstance(st, ast.Assign):
            targets = [t.id for t in st.targets if isinstance(t, ast.Name)]
            val = st.value
        elif isinstance(st, ast.AnnAssign) and isinstance(st.target, ast.Name) and st.value is not None:
            targets = [st.target.id]
            val = st.value
        if name in targets:
            return eval_literal(val, tree)
    raise TranslateError(f"constant {name!r} not found")


def eval_literal(node: ast.AST, tree: ast.Module | None = None):
    try:
        return ast.literal_eval(node)
    except Exception:
        pass
    if isinstance(node, ast.BinOp):
        l, r = eval_literal(node.left, tree), eval_literal(node.right, tree)
        ops = {ast.Add: lambda a, b: a + b, ast.Sub: lambda a, b: a - b, ast.Mult: lambda a, b: a * b,
               ast.LShift: lambda a, b: a << b, ast.RShift: lambda a, b: a >> b, ast.BitOr: lambda a, b: a | b,
               ast.BitAnd: lambda a, b: a & b, ast.Pow: lambda a, b: a ** b, ast.FloorDiv: lambda a, b: a // b}
        for k, f in ops.items():
            if isinstance(node.op, k):
                return f(l, r)
    if isinstance(node, ast.UnaryOp) and isinstance(node.op, (ast.USub, ast.Invert)):
        v = eval_literal(node.operand, tree)
        return -v if isinstance(node.op, ast.USub) else ~v
    if isinstance(node, ast.Name) and tree is not None:
        return const_value(tree, node.id)
    if isinstance(node, (ast.Tuple, ast.List, ast.Set)):
        vals = [eval_literal(e, tree) for e in node.elts]
        return tuple(vals) if isinstance(node, ast.Tuple) else (vals if isinstance(node, ast.List) else set(vals))
    if isinstance(node, ast.Call) and isinstance(node.func, ast.Name) and node.func.id in ("frozenset", "set", "tuple", "list", "bytes"):
        args = [eval_literal(a, tree) for a in node.args]
        return {"frozenset": frozenset, "set": set, "tuple": tuple, "list": list, "bytes": bytes}[node.func.id](*args)
    raise TranslateError(f"cannot evaluate {ast.dump(node)[:120]}")


def range_bounds(func: ast.AST) -> list[int]:
    """The N of every `for _ in range(N)` with literal N inside func, in source order."""
    out = []
    for n in ast.walk(func):
        if isinstance(n, ast.For) and isinstance(n.iter, ast.Call) and isinstance(n.iter.func, ast.Name) \
                and n.iter.func.id == "range" and len(n.iter.args) == 1 and isinstance(n.iter.args[0], ast.Constant):
            out.append((n.lineno, n.iter.args[0].value))
    return [v for _, v in sorted(out)]


def int_constants(node: ast.AST) -> list[int]:
    out = []
    for n in ast.walk(node):
        if isinstance(n, ast.Constant) and isinstance(n.value, int) and not isinstance(n.value, bool):
            out.append((n.lineno, n.col_offset, n.value))
    return [v for _, _, v in sorted(out)]


def rust_const(path: Path, name: str) -> int:
    m = re.search(rf"const\s+{re.escape(name)}\s*:\s*\w+\s*=\s*([0-9a-fA-Fx_]+)\s*;", Path(path).read_text())
    if not m:
        raise TranslateError(f"rust const {name} not found in {path}")
    return int(m.group(1).replace("_", ""), 0)


def fingerprint(node: ast.AST) -> str:
    import hashlib
    return hashlib.sha256(ast.dump(node, include_attributes=False).encode()).hexdigest()[:16]


def lean_bytes(b: bytes) -> str:
    return "[" + ", ".join(str(x) for x in b) + "]"


def lean_header(title: str) -> str:
    return (f"/- GENERATED by the translator from /repo on every run — do not edit.\n   {title} -/\n")
