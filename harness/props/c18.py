"""C18 -- work tree round trip: checkout then stage reproduces the tree; status is exact.

Model: lean/DulwichModel/Model/WorkTree.lean; theorems: Props/C18.lean.
Tie: translate() regenerates Gen/WorkTree.lean (cleanup_mode constants, the stat fields the short-cut
compares, what the staged / unstaged comparisons look at, INVALID_DOTNAMES, and which variant of each
behaviour repaired by the C18 fix series the source has: mode comparison and its position, handling of
NotADirectoryError, link resolution in path_to_tree_path, links to directories in the walk, strict path
decoding, order of deletions and writes in update_working_tree); run() drives the
correspondence streams (model vs real dulwich on scratch repositories) and the direct oracle
(brute-force three-way comparison of HEAD tree / index / directory done by this harness, plus C git).
"""
from __future__ import annotations

import ast
from pathlib import Path

from .. import core, translate as T

MOD = "c18"


# ------------------------------------------------------------------------------------------------
# translator

def _attr_names(node: ast.AST, base: str) -> set[str]:
    return {n.attr for n in ast.walk(node)
            if isinstance(n, ast.Attribute) and isinstance(n.value, ast.Name) and n.value.id == base}


def b_(x) -> str:
    return "true" if x else "false"


def translate(repo: Path) -> dict:
    import os as os_mod
    import stat as pystat
    tree = T.module_ast(repo / "dulwich" / "index.py")

    # --- cleanup_mode: `ret = stat.S_IFREG | 0o644`, `if mode & 0o100: ret |= 0o111`, symlink / dir returns
    cm = T.find_def(tree, "cleanup_mode")
    reg_base = exec_test = exec_bits = None
    lnk_ret = dir_ret = None
    for n in ast.walk(cm):
        if isinstance(n, ast.Assign) and isinstance(n.targets[0], ast.Name) and n.targets[0].id == "ret" \
                and isinstance(n.value, ast.BinOp) and isinstance(n.value.op, ast.BitOr) \
                and isinstance(n.value.left, ast.Attribute) and n.value.left.attr == "S_IFREG":
            reg_base = pystat.S_IFREG | T.eval_literal(n.value.right)
        if isinstance(n, ast.If) and isinstance(n.test, ast.BinOp) and isinstance(n.test.op, ast.BitAnd) \
                and isinstance(n.test.left, ast.Name) and n.test.left.id == "mode":
            exec_test = T.eval_literal(n.test.right)
            for b in n.body:
                if isinstance(b, ast.AugAssign) and isinstance(b.op, ast.BitOr):
                    exec_bits = T.eval_literal(b.value)
        if isinstance(n, ast.If) and isinstance(n.test, ast.Call) and isinstance(n.test.func, ast.Attribute) \
                and isinstance(n.body[0], ast.Return) and isinstance(n.body[0].value, ast.Attribute):
            if n.test.func.attr == "S_ISLNK":
                lnk_ret = getattr(pystat, n.body[0].value.attr)
            elif n.test.func.attr == "S_ISDIR":
                dir_ret = getattr(pystat, n.body[0].value.attr)
    if None in (reg_base, exec_test, exec_bits, lnk_ret, dir_ret):
        raise T.TranslateError(f"cleanup_mode: pattern not found ({reg_base}, {exec_test}, {exec_bits}, {lnk_ret}, {dir_ret})")
    if exec_test & (exec_test - 1) or exec_test == 0:
        raise T.TranslateError(f"cleanup_mode: executable test mask {exec_test:o} is not a single bit")

    # --- _stat_matches_entry: which stat fields decide the short-cut; trust_ctime default
    sm = T.find_def(tree, "_stat_matches_entry")
    st_attrs = _attr_names(sm, "st")
    cmp_ctime = bool(st_attrs & {"st_ctime_ns", "st_ctime"})
    cmp_mtime = bool(st_attrs & {"st_mtime_ns", "st_mtime"})
    cmp_size = "st_size" in st_attrs
    other = st_attrs - {"st_ctime_ns", "st_ctime", "st_mtime_ns", "st_mtime", "st_size"}
    if other:
        raise T.TranslateError(f"_stat_matches_entry looks at stat fields the model does not have: {sorted(other)}")
    trust_default = None
    for a, d in zip(sm.args.args[-len(sm.args.defaults):], sm.args.defaults):
        if a.arg == "trust_ctime":
            trust_default = T.eval_literal(d)
    if trust_default is None:
        raise T.TranslateError("_stat_matches_entry: trust_ctime default not found")
    # ns precision: both sides must be compared in nanoseconds for the model's single Nat per time stamp
    if cmp_mtime and "st_mtime_ns" not in st_attrs:
        raise T.TranslateError("_stat_matches_entry no longer compares st_mtime_ns")

    # --- _stat_matches_entry, probed: the function's own source (annotations stripped) is evaluated on a grid of
    # (seconds, nanoseconds) pairs, including index entries whose nanoseconds are 0; the table goes to Gen and a
    # theorem says the model's exact comparison reproduces every row
    import copy
    import types
    fn = copy.deepcopy(sm)
    for a in fn.args.args + fn.args.kwonlyargs:
        a.annotation = None
    fn.returns = None
    fn.decorator_list = []
    ns_: dict = {}
    try:
        exec(compile(ast.fix_missing_locations(ast.Module(body=[fn], type_ignores=[])), "<_stat_matches_entry>", "exec"), ns_)
    except Exception as e:  # noqa: BLE001
        raise T.TranslateError(f"_stat_matches_entry: cannot evaluate the source: {e}")
    probe_fn = ns_["_stat_matches_entry"]
    G = 10 ** 9
    times = [(100, 0), (100, 7), (100, G - 1), (101, 0), (101, 7), (99, G - 1)]
    rows = []

    def probe(trust, sc, smt, ssz, ec, em, esz):
        st_ = types.SimpleNamespace(st_ctime_ns=sc[0] * G + sc[1], st_mtime_ns=smt[0] * G + smt[1], st_size=ssz,
                                    st_ctime=sc[0] + sc[1] / G, st_mtime=smt[0] + smt[1] / G)
        en = types.SimpleNamespace(ctime=ec, mtime=em, size=esz)
        try:
            r = bool(probe_fn(st_, en, trust))
        except Exception as e:  # noqa: BLE001
            raise T.TranslateError(f"_stat_matches_entry raised on a probe: {e}")
        rows.append((trust, sc[0] * G + sc[1], smt[0] * G + smt[1], ssz, ec[0] * G + ec[1], em[0] * G + em[1], esz, r))
    for a in times:
        for e_ in times:
            probe(True, (100, 7), a, 4, (100, 7), e_, 4)
            for trust in (True, False):
                probe(trust, a, (100, 7), 4, e_, (100, 7), 4)
    for trust in (True, False):
        probe(trust, (100, 0), (100, 0), 4, (100, 0), (100, 0), 5)
        probe(trust, (100, 0), (100, 0), 0, (100, 0), (100, 0), 0)
    probes_lean = ",\n  ".join(f"({b_(r[0])}, {r[1]}, {r[2]}, {r[3]}, {r[4]}, {r[5]}, {r[6]}, {b_(r[7])})" for r in rows)

    # --- _check_entry_for_changes: what of the index entry is compared with the file
    ce = T.find_def(tree, "_check_entry_for_changes")
    ent_attrs = set()
    for n in ast.walk(ce):
        if isinstance(n, ast.Compare):
            ent_attrs |= _attr_names(n, "entry")
    un_sha, un_mode = "sha" in ent_attrs, "mode" in ent_attrs
    if not un_sha:
        raise T.TranslateError("_check_entry_for_changes: comparison with entry.sha not found")
    fn_excs = set()
    for n in ast.walk(ce):
        if isinstance(n, ast.ExceptHandler) and n.type is not None:
            for e in ([n.type] if not isinstance(n.type, ast.Tuple) else n.type.elts):
                if isinstance(e, ast.Name):
                    fn_excs.add(e.id)
    catches_notdir = bool(fn_excs & {"NotADirectoryError", "OSError"})

    # --- changes_from_tree: `want_unchanged or other_sha != sha or other_mode != mode`
    cf = T.find_def(tree, "changes_from_tree")
    st_sha = st_mode = False
    for n in ast.walk(cf):
        if isinstance(n, ast.Compare) and isinstance(n.left, ast.Name) and isinstance(n.ops[0], ast.NotEq) \
                and isinstance(n.comparators[0], ast.Name):
            pair = {n.left.id, n.comparators[0].id}
            if pair == {"other_sha", "sha"}:
                st_sha = True
            if pair == {"other_mode", "mode"}:
                st_mode = True
    if not st_sha:
        raise T.TranslateError("changes_from_tree: sha comparison not found")

    # --- mode comparison in _check_entry_for_changes (`_mode_changed(...)` or a comparison with entry.mode), its
    # position relative to the stat short-cut, and whether porcelain.status / add ask for it
    def calls(node, name):
        return [n for n in ast.walk(node) if isinstance(n, ast.Call) and
                ((isinstance(n.func, ast.Name) and n.func.id == name) or (isinstance(n.func, ast.Attribute) and n.func.attr == name))]
    mode_calls = calls(ce, "_mode_changed")
    stat_calls = calls(ce, "_stat_matches_entry")
    ptree = T.module_ast(repo / "dulwich" / "porcelain" / "__init__.py")
    if mode_calls:
        asked = []
        for fn in ("status", "add"):
            f = T.find_def(ptree, fn)
            cs = calls(f, "get_unstaged_changes")
            if not cs:
                raise T.TranslateError(f"porcelain.{fn}: call of get_unstaged_changes not found")
            asked.append(all(any(k.arg == "honor_filemode" for k in c.keywords) for c in cs))
        un_mode = all(asked)
    mode_before = bool(mode_calls and stat_calls and mode_calls[0].lineno < stat_calls[0].lineno)
    if not stat_calls:
        raise T.TranslateError("_check_entry_for_changes: call of _stat_matches_entry not found")

    # --- WorkTree.unstage: handlers around os.lstat
    wtree = T.module_ast(repo / "dulwich" / "worktree.py")
    un = T.find_def(wtree, "WorkTree.unstage")
    un_excs = set()
    for n in ast.walk(un):
        if isinstance(n, ast.Try) and any(isinstance(c, ast.Call) and isinstance(c.func, ast.Attribute) and c.func.attr == "lstat" for c in ast.walk(n)):
            for h in n.handlers:
                for e in ([h.type] if not isinstance(h.type, ast.Tuple) else h.type.elts):
                    if isinstance(e, ast.Name):
                        un_excs.add(e.id)
    if not un_excs:
        raise T.TranslateError("WorkTree.unstage: try/except around os.lstat not found")
    unstage_catches = bool(un_excs & {"NotADirectoryError", "OSError"})

    # --- path_to_tree_path: is a symbolic link resolved before the lookup?
    pt = T.find_def(ptree, "path_to_tree_path")
    if not calls(pt, "resolve"):
        raise T.TranslateError("path_to_tree_path: no call of resolve()")
    guarded = any(isinstance(st_, ast.If) and isinstance(st_.test, ast.Call) and isinstance(st_.test.func, ast.Attribute)
                  and st_.test.func.attr == "is_symlink" for st_ in pt.body)
    resolves_links = not guarded

    # --- _walk_working_dir_paths: links to directories stay among os.walk's directory names?
    wk = T.find_def(ptree, "_walk_working_dir_paths")
    if not calls(wk, "walk"):
        raise T.TranslateError("_walk_working_dir_paths: os.walk not found")
    link_dirs_as_dirs = not calls(wk, "islink")

    # --- tree_path_to_fs_path: strict decoding?
    tf = T.find_def(ptree, "tree_path_to_fs_path")
    dec = calls(tf, "decode")
    if not dec:
        raise T.TranslateError("tree_path_to_fs_path: decode() not found")
    strict_decode = all(len(c.args) < 2 and not c.keywords for c in dec)

    # --- update_working_tree: deletions applied in a loop of their own, before the writes?
    uw = T.find_def(tree, "update_working_tree")
    loops = [n for n in uw.body if isinstance(n, ast.For)]
    del_loops = [n for n in loops if calls(n, "_transition_to_absent")]
    add_loops = [n for n in loops if calls(n, "_transition_to_file")]
    if not del_loops or not add_loops:
        raise T.TranslateError("update_working_tree: the loops applying the changes were not found")
    deletes_first = del_loops[0] is not add_loops[0] and del_loops[0].lineno < add_loops[0].lineno and \
        not calls(add_loops[0], "_transition_to_absent")

    # --- get_unstaged_changes: which index entries does the (serial or parallel) scan visit?  The function's own source
    # is run on a fake index with `_check_entry_for_changes` replaced by a recorder, for many index sizes and worker
    # counts (cpu_count patched); every entry must be visited exactly once.  Small cases go to Gen (a theorem re-checks
    # them), the large ones -- across the sizes where batching usually breaks -- are checked here.
    gu = copy.deepcopy(T.find_def(tree, "get_unstaged_changes"))
    for a in gu.args.args + gu.args.kwonlyargs:
        a.annotation = None
    gu.returns = None
    gu.decorator_list = []
    import multiprocessing
    visited: list = []

    def _rec(tree_path, entry, *a_, **k_):
        visited.append(entry)
        return None
    ns2: dict = {"os": os_mod, "_check_entry_for_changes": _rec}
    try:
        exec(compile(ast.fix_missing_locations(ast.Module(body=[gu], type_ignores=[])), "<get_unstaged_changes>", "exec"), ns2)
    except Exception as e:  # noqa: BLE001
        raise T.TranslateError(f"get_unstaged_changes: cannot evaluate the source: {e}")

    class _FakeIndex:
        def __init__(self, n):
            self.n = n

        def iteritems(self):
            return iter([(b"p%06d" % i, i) for i in range(self.n)])

        def __iter__(self):
            return iter([b"p%06d" % i for i in range(self.n)])

        def __len__(self):
            return self.n

        def __getitem__(self, k):
            return int(k[1:])
    scan_rows = []
    real_cpu = multiprocessing.cpu_count
    try:
        for workers in (0, 1, 2, 3, 4, 5, 7, 8, 16):       # 0 = the serial scan (preload_index=False)
            multiprocessing.cpu_count = (lambda w=workers: max(w, 1))
            for n in (0, 1, 2, 3, 7, 8, 9, 15, 16, 17, 23, 31, 32, 33, 41, 63, 64, 65, 99, 100, 101, 127, 128, 129,
                      499, 500, 501, 999, 1000, 1001, 1009, 2047, 4001):
                visited.clear()
                try:
                    list(ns2["get_unstaged_changes"](_FakeIndex(n), b"/nonexistent", None, workers > 0))
                except Exception as e:  # noqa: BLE001
                    raise T.TranslateError(f"get_unstaged_changes raised on a fake index (n={n}, workers={workers}): {type(e).__name__}: {e}")
                if sorted(visited) != list(range(n)):
                    missing = sorted(set(range(n)) - set(visited))[:5]
                    twice = sorted({x for x in visited if visited.count(x) > 1})[:5] if len(visited) < 5000 else []
                    raise T.TranslateError(f"get_unstaged_changes does not visit every index entry exactly once: {n} entries, "
                                           f"{workers or 'no'} workers: {len(visited)} visits, missing {missing}, repeated {twice}")
                if n <= 41:
                    scan_rows.append((n, workers, sorted(visited)))      # (threads call in any order: sorted, for a stable file)
    finally:
        multiprocessing.cpu_count = real_cpu
    scan_lean = ",\n  ".join(f"({n}, {w}, [{', '.join(map(str, v))}])" for n, w, v in scan_rows)
    # the partition itself: one task per entry (anything else -- slices, chunks -- the model does not describe)
    per_entry = False
    for n_ in ast.walk(gu):
        if isinstance(n_, ast.ListComp) and calls(n_, "submit") and len(n_.generators) == 1 \
                and isinstance(n_.generators[0].iter, ast.Name) and n_.generators[0].iter.id == "entries":
            per_entry = True
    if not per_entry:
        raise T.TranslateError("get_unstaged_changes: the parallel scan no longer submits one task per index entry; "
                               "the model has no description of its partition")

    # --- _transition_to_absent: is the index entry dropped also when nothing is left on disk?  (the `del index[path]`
    # before / inside the early return for `current_stat is None`)
    ta = T.find_def(tree, "_transition_to_absent")
    early = [n for n in ta.body if isinstance(n, ast.If) and isinstance(n.test, ast.Compare) and isinstance(n.test.left, ast.Name)
             and n.test.left.id == "current_stat" and any(isinstance(x, ast.Return) for x in ast.walk(n))]
    dels = [n for n in ast.walk(ta) if isinstance(n, ast.Delete)]
    if not early or not dels:
        raise T.TranslateError("_transition_to_absent: early return / `del index[path]` not found")
    absent_drops = any(isinstance(n, ast.Delete) for n in ast.walk(early[0])) or min(d.lineno for d in dels) < early[0].lineno

    # --- _perform_tree_switch: does a forced switch start from the index and visit unchanged paths?
    ps = T.find_def(ptree, "_perform_tree_switch")
    tcs = calls(ps, "tree_changes")
    if not tcs:
        raise T.TranslateError("_perform_tree_switch: call of tree_changes not found")
    force_index = any(any(k.arg == "want_unchanged" for k in c.keywords) for c in tcs) and bool(calls(ps, "open_index"))

    dotnames = T.const_value(tree, "INVALID_DOTNAMES")
    if not isinstance(dotnames, tuple) or not all(isinstance(x, bytes) for x in dotnames):
        raise T.TranslateError("INVALID_DOTNAMES is not a tuple of bytes")

    def b(x):
        return "true" if x else "false"

    src = T.lean_header("dulwich/index.py: cleanup_mode, _stat_matches_entry, _check_entry_for_changes, changes_from_tree, "
                        "update_working_tree, INVALID_DOTNAMES; porcelain: status, add, path_to_tree_path, "
                        "tree_path_to_fs_path, _walk_working_dir_paths; worktree.py: WorkTree.unstage") + f"""
namespace Dulwich.Gen.WorkTree
/-- `ret = stat.S_IFREG | 0o644` in `cleanup_mode` -/
def regFileMode : Nat := {reg_base}
/-- `if mode & N:` in `cleanup_mode` (a single bit) -/
def execTestMask : Nat := {exec_test}
/-- `ret |= N` in `cleanup_mode` -/
def execBits : Nat := {exec_bits}
/-- what `cleanup_mode` returns for symbolic links / directories -/
def symlinkMode : Nat := {lnk_ret}
def dirMode : Nat := {dir_ret}
/-- stat fields `_stat_matches_entry` compares (ctime only with `trust_ctime`, whose default follows) -/
def statCmpCtime : Bool := {b(cmp_ctime)}
def statCmpMtime : Bool := {b(cmp_mtime)}
def statCmpSize : Bool := {b(cmp_size)}
def trustCtimeDefault : Bool := {b(trust_default)}
/-- `_stat_matches_entry` evaluated (from its source) on a grid of time stamps given as (seconds, nanoseconds),
index entries with 0 nanoseconds included: (trust_ctime, st ctime, st mtime, st size, entry ctime, entry mtime,
entry size, result), times as `seconds * 10^9 + nanoseconds` -/
def statProbes : List (Bool × Nat × Nat × Nat × Nat × Nat × Nat × Bool) := [
  {probes_lean}]
/-- `_check_entry_for_changes`: the index entry fields compared with the file once the short-cut fails -/
def unstagedCmpSha : Bool := {b(un_sha)}
def unstagedCmpMode : Bool := {b(un_mode)}
/-- the mode is looked at before `_stat_matches_entry` is trusted -/
def unstagedModeBeforeStat : Bool := {b(mode_before)}
/-- `WorkTree.unstage` handles `NotADirectoryError` around `os.lstat` -/
def unstageCatchesNotDir : Bool := {b(unstage_catches)}
/-- `path_to_tree_path` resolves a symbolic link itself (not only its directory) -/
def lookupResolvesLinks : Bool := {b(resolves_links)}
/-- `_walk_working_dir_paths` leaves links to directories among `os.walk`'s directory names -/
def walkLinkDirsAsDirs : Bool := {b(link_dirs_as_dirs)}
/-- `tree_path_to_fs_path` decodes strictly (raises on paths that are not valid in the tree encoding) -/
def strictPathDecoding : Bool := {b(strict_decode)}
/-- `update_working_tree` applies all deletions before it writes -/
def switchDeletesFirst : Bool := {b(deletes_first)}
/-- `get_unstaged_changes` run (from its source) on a fake index: (number of entries, workers -- 0 = serial scan --,
positions visited, sorted) -/
def scanProbes : List (Nat × Nat × List Nat) := [
  {scan_lean}]
/-- `_transition_to_absent` removes the index entry also when the file is already gone -/
def absentDropsIndex : Bool := {b(absent_drops)}
/-- `_perform_tree_switch(force=True)` starts from the index tree with `want_unchanged` -/
def forceUsesIndex : Bool := {b(force_index)}
/-- `_check_entry_for_changes` has a handler for `NotADirectoryError` / `OSError` around `os.lstat` -/
def unstagedCatchesNotDir : Bool := {b(catches_notdir)}
/-- `changes_from_tree`: `other_sha != sha or other_mode != mode` -/
def stagedCmpSha : Bool := {b(st_sha)}
def stagedCmpMode : Bool := {b(st_mode)}
/-- `INVALID_DOTNAMES` -/
def invalidDotnames : List (List UInt8) := [{", ".join(T.lean_bytes(x) for x in dotnames)}]
end Dulwich.Gen.WorkTree
"""
    return {"WorkTree": src}


# ------------------------------------------------------------------------------------------------
# small helpers shared by the streams (everything below runs in the harness process; the code under test
# is pure Python + file system and cannot take the interpreter down)

import hashlib
import json
import os
import shutil
import stat as pystat
import subprocess

from ..core import hx, unhx

KMODE = {"r": 0o100644, "x": 0o100755, "l": 0o120000}
KMODE_TXT = {"r": b"100644", "x": b"100755", "l": b"120000"}
T0 = 1_500_000_000          # base of the forced, strictly increasing mtimes (seconds)
COMMIT_TIME = 1_000_000_000


def blob_sha(content: bytes) -> bytes:
    return hashlib.sha1(b"blob %d\0" % len(content) + content).hexdigest().encode()


def oracle_tree_id(flat: dict) -> bytes:
    """git tree id of a flat {path: (kind, blob sha hex)} map, computed without dulwich or git."""
    root: dict = {}
    for p, v in flat.items():
        parts = p.split(b"/")
        d = root
        for c in parts[:-1]:
            d = d.setdefault(c, {})
        d[parts[-1]] = v

    def h(d):
        items = []
        for name, v in d.items():
            if isinstance(v, dict):
                items.append((name + b"/", b"40000", name, h(v)))
            else:
                items.append((name, KMODE_TXT[v[0]], name, v[1]))
        items.sort(key=lambda x: x[0])
        data = b"".join(mode + b" " + name + b"\0" + bytes.fromhex(sha.decode()) for _, mode, name, sha in items)
        return hashlib.sha1(b"tree %d\0" % len(data) + data).hexdigest().encode()
    return h(root)


def content_of(spec) -> bytes:
    if "hex" in spec:
        return unhx(spec["hex"])
    import random
    return random.Random(spec["rand"][0]).randbytes(spec["rand"][1])


def spec_of(content: bytes, rng=None):
    return {"hex": hx(content)}


def is_utf8(b: bytes) -> bool:
    try:
        b.decode("utf-8")
        return True
    except UnicodeDecodeError:
        return False


def ancestors(p: bytes):
    parts = p.split(b"/")
    return [b"/".join(parts[:i]) for i in range(1, len(parts))]


class Reg:
    """content registry: blob sha (computed here with hashlib) -> small integer content id."""

    def __init__(self):
        self.by_sha: dict[bytes, int] = {}
        self.size: dict[int, int] = {}

    def cid(self, content: bytes) -> int:
        sha = blob_sha(content)
        if sha not in self.by_sha:
            self.by_sha[sha] = len(self.by_sha) + 1
            self.size[self.by_sha[sha]] = len(content)
        return self.by_sha[sha]

    def sha_of(self, cid: int) -> bytes:
        for s, c in self.by_sha.items():
            if c == cid:
                return s
        raise KeyError(cid)


class StatusView:
    """canonical status: five sets of tree paths, or an exception class name."""

    def __init__(self, a=(), d=(), m=(), u=(), t=(), err=None, dups=False):
        self.a, self.d, self.m, self.u, self.t = (frozenset(x) for x in (a, d, m, u, t))
        self.err = err
        self.dups = dups

    def key(self):
        return ("err", self.err) if self.err else (self.a, self.d, self.m, self.u, self.t)

    def __eq__(self, o):
        return self.key() == o.key()

    def clean(self):
        return not self.err and not (self.a or self.d or self.m or self.u or self.t)

    def show(self):
        if self.err:
            return "err:" + self.err
        return {k: sorted(hx(p) for p in getattr(self, k)) for k in "admut" if getattr(self, k)}


def parse_model_status(tok: str) -> StatusView:
    if tok.startswith("err:"):
        return StatusView(err=tok[4:])
    if not tok.startswith("S:"):
        return StatusView(err="unparsable:" + tok[:40])
    parts = dict(x.split("=", 1) for x in tok[2:].split("|"))
    f = lambda s: [unhx(x) for x in s.split(",")] if s else []
    return StatusView(f(parts["a"]), f(parts["d"]), f(parts["m"]), f(parts["u"]), f(parts["t"]))


def git_env(home: Path):
    env = core.clean_env({"HOME": str(home), "XDG_CONFIG_HOME": str(home / ".config"), "GIT_OPTIONAL_LOCKS": "0",
                          "GIT_CONFIG_NOSYSTEM": "1"})
    env.pop("GIT_CONFIG_GLOBAL", None)
    return env


# ------------------------------------------------------------------------------------------------
# a scenario: one scratch repository driven by a recorded script; every step is executed on the real
# code, observed by the harness's own eyes (oracle) and appended as tokens for the Lean model

class Scen:
    _n = 0

    def __init__(self, ctx, stream: str, label: str = "", commit_time: int = COMMIT_TIME):
        Scen._n += 1
        self.commit_time = commit_time
        self.ctx, self.stream, self.label = ctx, stream, label
        self.root = ctx.scratch / f"s{Scen._n}"
        if self.root.exists():
            shutil.rmtree(self.root)
        self.root.mkdir(parents=True)
        self.rootb = os.fsencode(str(self.root))
        self.home = ctx.scratch / "home"
        self.home.mkdir(exist_ok=True)
        from dulwich.repo import Repo
        self.repo = Repo.init(str(self.root))
        self.reg = Reg()
        self.trees: dict[str, dict] = {}        # name -> {path: (kind, cid)}
        self.tree_ids: dict[str, bytes] = {}    # name -> oracle tree id
        self.commits: dict[str, bytes] = {}
        self.head: str | None = None
        self.script: list[dict] = []
        self.toks: list[str] = []
        self.checks: list = []                  # (token index, fn(model output))
        self.mt = 0
        self.fs_dirty = True
        self._snap = None
        self.env_tok_at = None
        self.model_ok = True                    # False once the scenario left the model's domain
        self.cfg: dict = {}                     # non-default configuration of the repository
        self.idx_before_add = None              # the index as it was before the last add-all
        self.idx_bytes_before_add = None
        self.failed = False
        self.tok("env:0:.")                     # placeholder, patched in finish()
        self.env_tok_at = 0

    # -- plumbing
    def close(self):
        try:
            self.repo.close()
        except Exception:
            pass
        shutil.rmtree(self.root, ignore_errors=True)

    def tok(self, t: str, check=None):
        self.toks.append(t)
        if check is not None and self.model_ok:
            self.checks.append((len(self.toks) - 1, check))

    def full(self, p: bytes) -> bytes:
        return os.path.join(self.rootb, p)

    def case(self, **extra):
        d = {"script": list(self.script), "label": self.label}
        d.update(extra)
        return d

    def touch(self, full: bytes):
        self.mt += 1
        t = (T0 + self.mt) * 10 ** 9 + 1000 * self.mt
        os.utime(full, ns=(t, t), follow_symlinks=False)

    # -- observation (the harness's own eyes; no dulwich involved)
    def snapshot(self) -> dict:
        """{path: dict(kind, cid, stat=(ctime_ns, mtime_ns, size), res, sha)} for every non-directory."""
        if self._snap is not None and not self.fs_dirty:
            return self._snap
        out = {}
        real_root = os.path.realpath(self.rootb)

        def walk(d: bytes, rel: bytes):
            with os.scandir(d) as it:
                ents = sorted(it, key=lambda e: e.name)
            for e in ents:
                if rel == b"" and e.name == b".git":
                    continue
                r = rel + b"/" + e.name if rel else e.name
                st = os.lstat(e.path)
                if pystat.S_ISDIR(st.st_mode):
                    walk(e.path, r)
                    continue
                if pystat.S_ISLNK(st.st_mode):
                    content = os.readlink(e.path)
                    kind = "l"
                    rp = os.path.realpath(e.path)
                    # what following the link leads to: a directory, something that is not a directory (a file, or a
                    # path that runs *through* a file: both make lstat below the link raise ENOTDIR), or nothing
                    if os.path.isdir(e.path):
                        res = "d"
                    else:
                        try:
                            os.stat(e.path)
                            res = "f"
                        except NotADirectoryError:
                            res = "f"
                        except OSError:
                            res = "m"
                    if rp.startswith(real_root + b"/"):
                        res += "p" + hx(os.path.relpath(rp, real_root))
                elif pystat.S_ISREG(st.st_mode):
                    with open(e.path, "rb") as f:
                        content = f.read()
                    kind = "x" if st.st_mode & 0o100 else "r"
                    res = "f"
                else:
                    continue
                out[r] = {"kind": kind, "cid": self.reg.cid(content), "stat": (st.st_ctime_ns, st.st_mtime_ns, st.st_size),
                          "res": res, "mode": st.st_mode}
        walk(self.rootb, b"")
        self._snap, self.fs_dirty = out, False
        return out

    def read_index(self) -> dict:
        """{path: (kind or raw mode, cid or None, (ctime_ns, mtime_ns, size))} through dulwich's index reader."""
        out = {}
        idx = self.repo.open_index()
        for p, e in idx.items():
            kind = {0o100644: "r", 0o100755: "x", 0o120000: "l"}.get(e.mode, oct(e.mode))
            def ns(t):
                return t[0] * 10 ** 9 + t[1] if isinstance(t, tuple) else int(t * 10 ** 9)
            out[p] = (kind, self.reg.by_sha.get(bytes(e.sha)), (ns(e.ctime), ns(e.mtime), e.size))
        return out

    def wd_tok(self, snap=None) -> str:
        snap = self.snapshot() if snap is None else snap
        items = [f"{hx(p)}={f['kind']}{f['cid']}/{f['stat'][0]}/{f['stat'][1]}/{f['stat'][2]}/{f['res']}" for p, f in snap.items()]
        return "wd:" + (",".join(items) if items else ".")

    def sync_model_wd(self, extra_paths=()):
        snap = self.snapshot()
        if self.model_ok:
            for p in list(self.read_index()) + list(extra_paths):
                if any(a in snap and snap[a]["kind"] == "l" and snap[a]["res"][0] == "d" for a in ancestors(p)) \
                        and os.path.lexists(self.full(p)):
                    # a path the code looks at exists *through* a link that leads to a directory: the real lstat
                    # follows the link, the model does not describe that.  From here on this scenario is checked
                    # by the direct oracle only.
                    self.model_ok = False
                    self.ctx.count(self.stream + ".outside-model-domain", (self.label, len(self.script)), False, "path-seen-through-dir-link")
                    break
        self.tok(self.wd_tok(snap))

    def expected_status(self) -> StatusView:
        """The property's own words: three-way comparison of HEAD tree, index and directory."""
        head = self.trees[self.head] if self.head else {}
        idx = self.read_index()
        wd = self.snapshot()
        a = [p for p in idx if p not in head]
        d = [p for p in head if p not in idx]
        m = [p for p in head if p in idx and (idx[p][0], idx[p][1]) != head[p]]
        filemode = self.cfg.get("core.filemode", "true") != "false"
        symlinks = self.cfg.get("core.symlinks", "true") != "false"

        def same(f, e):
            fk, ek = f["kind"], e[0]
            if not filemode and fk != "l" and ek != "l":
                fk = ek                                   # core.filemode=false: the executable bit is not compared
            if not symlinks and ek == "l" and fk != "l":
                fk = "l"                                  # core.symlinks=false: a plain file stands in for a link
            return (fk, f["cid"]) == (ek, e[1])
        u = [p for p in idx if p not in wd or not same(wd[p], idx[p])]
        t = [p for p in wd if p not in idx]
        return StatusView(a, d, m, u, t)

    def collapse_untracked(self, exp: StatusView) -> StatusView:
        """the three-way comparison in git's default "normal" mode: an untracked file is reported as the shallowest
        of its leading directories below which nothing is tracked (with a trailing slash), else by name."""
        idx = list(self.read_index())

        def col(u: bytes) -> bytes:
            for a in ancestors(u):
                if not any(k.startswith(a + b"/") for k in idx):
                    return a + b"/"
            return u
        return StatusView(exp.a, exp.d, exp.m, exp.u, {col(u) for u in exp.t})

    def real_status(self, mode: str = "all") -> StatusView:
        from dulwich import porcelain
        try:
            st = porcelain.status(self.repo, untracked_files=mode)
        except Exception as e:  # noqa: BLE001 - every exception is an observation
            return StatusView(err=type(e).__name__)
        lists = [st.staged["add"], st.staged["delete"], st.staged["modify"], st.unstaged, st.untracked]
        dups = any(len(set(x)) != len(x) for x in lists)
        return StatusView(*lists, dups=dups)

    def git_status(self, mode: str = "all") -> StatusView:
        p = subprocess.run(["git", "-c", "core.quotepath=off", "status", "--porcelain=v1", "-z",
                            f"--untracked-files={mode}", "--no-renames"], cwd=str(self.root), env=git_env(self.home),
                           stdout=subprocess.PIPE, stderr=subprocess.PIPE)
        if p.returncode != 0:
            return StatusView(err="git:" + p.stderr.decode(errors="replace")[:200])
        a, d, m, u, t = [], [], [], [], []
        for rec in p.stdout.split(b"\0"):
            if not rec:
                continue
            xy, path = rec[:2], rec[3:]
            if xy == b"??":
                t.append(path)
                continue
            x, y = chr(xy[0]), chr(xy[1])
            if x == "A":
                a.append(path)
            elif x == "D":
                d.append(path)
            elif x in "MT":
                m.append(path)
            elif x != " ":
                return StatusView(err=f"git:unexpected XY {xy!r}")
            if y in "MTD":
                u.append(path)
            elif y != " ":
                return StatusView(err=f"git:unexpected XY {xy!r}")
        return StatusView(a, d, m, u, t)

    # -- classification of a deviation of the real status from the three-way comparison
    def classify(self, exp: StatusView, real: StatusView):
        """-> list of (what, cls); cls None = unclassified (a new violation)."""
        idx, wd = self.read_index(), self.snapshot()
        out = []
        if real.err:
            if real.err == "NotADirectoryError" and any(a in wd and wd[a]["res"][0] != "m" for p in idx for a in ancestors(p)):
                return [("status raises NotADirectoryError: a tracked path lies below what is now a file",
                         "status-raises:NotADirectoryError:tracked-path-below-file")]
            if real.err == "UnicodeDecodeError" and any(not is_utf8(p) for p in exp.a | exp.d | exp.m | exp.u):
                return [("status raises UnicodeDecodeError: a staged/unstaged path is not UTF-8",
                         "status-raises:UnicodeDecodeError:changed-path-not-utf8")]
            return [(f"status raises {real.err}", None)]
        if real.dups:
            out.append(("status lists a path twice", None))
        for cat in "adm":
            for p in getattr(exp, cat) ^ getattr(real, cat):
                out.append((f"staged[{cat}] differs at {p!r}", None))
        for p in exp.u - real.u:
            f = wd.get(p)
            if any(a in wd and wd[a]["kind"] == "l" and wd[a]["res"][0] == "d" for a in ancestors(p)):
                out.append((f"unstaged misses {p!r}: judged through a symlink that replaced its directory",
                            "unstaged-misses:tracked-path-seen-through-symlinked-directory"))
            elif f is not None and f["cid"] == idx[p][1] and f["kind"] != idx[p][0]:
                if "l" in (f["kind"], idx[p][0]):
                    out.append((f"unstaged misses type change (same blob) at {p!r}", "unstaged-misses:type-change-same-blob"))
                else:
                    out.append((f"unstaged misses mode-only change at {p!r}", "unstaged-misses:mode-only-change"))
            elif f is not None and f["stat"] == idx[p][2]:
                out.append((f"unstaged misses {p!r}: stat key equal but content differs (racy)", "racy:stat-equal-content-differs"))
            else:
                out.append((f"unstaged misses {p!r}", None))
        for p in real.u - exp.u:
            out.append((f"unstaged lists unchanged {p!r}", None))
        for p in real.t - exp.t:
            f = wd.get(p)
            if f is not None and p in idx and f["kind"] == "l" and f["res"][0] != "d" and "p" in f["res"] and unhx(f["res"][2:]) not in idx:
                out.append((f"untracked lists the tracked symlink {p!r} (looked up by its resolved target)",
                            "untracked-lists:tracked-symlink-looked-up-by-target"))
            else:
                out.append((f"untracked lists {p!r}", None))
        for p in exp.t - real.t:
            f = wd.get(p)
            if f is not None and f["kind"] == "l" and f["res"][0] == "d":
                out.append((f"untracked misses {p!r}: symlink to a directory", "untracked-misses:symlink-to-directory"))
            elif f is not None and f["kind"] == "l" and "p" in f["res"] and unhx(f["res"][2:]) in idx:
                out.append((f"untracked misses {p!r}: symlink whose target is tracked", "untracked-misses:symlink-to-tracked-path"))
            else:
                out.append((f"untracked misses {p!r}", None))
        return out

    def stat_honest(self) -> bool:
        idx, wd = self.read_index(), self.snapshot()
        return all(not (p in wd and wd[p]["stat"] == e[2] and wd[p]["cid"] != e[1]) for p, e in idx.items())

    # -- steps
    def exec(self, step: dict):
        self.script.append(step)
        getattr(self, "do_" + step["op"])(step)

    def do_tree(self, s):
        """define a tree (objects written with dulwich's commit_tree; id cross-checked by the harness)."""
        from dulwich.index import commit_tree
        from dulwich.objects import Blob, Commit
        flat, blobs, oflat = {}, [], {}
        for ph, kind, spec in s["entries"]:
            content = content_of(spec)
            b = Blob.from_string(content)
            self.repo.object_store.add_object(b)
            p = unhx(ph)
            flat[p] = (kind, self.reg.cid(content))
            oflat[p] = (kind, blob_sha(content))
            blobs.append((p, b.id, KMODE[kind]))
        tid = commit_tree(self.repo.object_store, blobs)
        want = oracle_tree_id(oflat)
        if bytes(tid) != want:
            self.ctx.oracle_fail(self.stream, self.case(), f"commit_tree id {tid!r} != independently computed {want!r}")
        c = Commit()
        c.tree = tid
        c.parents = []
        c.author = c.committer = b"verif <verif@example.com>"
        c.author_time = c.commit_time = self.commit_time
        c.author_timezone = c.commit_timezone = 0
        c.message = b"tree " + s["name"].encode()
        self.repo.object_store.add_object(c)
        self.repo.refs[b"refs/heads/" + s["name"].encode()] = c.id
        self.trees[s["name"]], self.tree_ids[s["name"]], self.commits[s["name"]] = flat, want, c.id
        items = [f"{hx(p)}={k}{c_}" for p, (k, c_) in flat.items()]
        self.tok(f"tree:{s['name']}:" + (",".join(items) if items else "."))

    def obs_tok(self, paths) -> str:
        snap = self.snapshot()
        items = [f"{hx(p)}={snap[p]['stat'][0]}/{snap[p]['stat'][1]}/{snap[p]['stat'][2]}/{snap[p]['res']}" for p in paths if p in snap]
        return "obs:" + (",".join(items) if items else ".")

    def mode_untrusted(self, got, want) -> bool:
        """the index entry `got` differs from `want` exactly in what the configuration says the file system cannot tell
        (core.filemode=false: the executable bit; core.symlinks=false: link or plain file)."""
        if got is None or want is None or got == want or got[1] != want[1]:
            return False
        if self.cfg.get("core.filemode") == "false" and {got[0], want[0]} == {"r", "x"}:
            return True
        return self.cfg.get("core.symlinks") == "false" and want[0] == "l" and got[0] in ("r", "x")

    def wd_modulo_config(self, want: dict) -> dict:
        """{path: (kind, cid)} of the directory; what the configuration declares meaningless on disk is taken from `want`."""
        got = {p: (f["kind"], f["cid"]) for p, f in self.snapshot().items()}
        if self.cfg.get("core.symlinks") == "false":       # links are checked out as plain files holding the target
            got = {p: (("l" if (want.get(p) or ("",))[0] == "l" and k != "l" else k), c) for p, (k, c) in got.items()}
        if self.cfg.get("core.filemode") == "false":       # the executable bit of the work tree carries no information
            got = {p: ((want[p][0] if want.get(p) and {k, want[p][0]} <= {"r", "x"} else k), c) for p, (k, c) in got.items()}
        return got

    def check_files(self, want: dict, what: str, cls=None):
        """oracle: the directory holds exactly `want` ({path: (kind, cid)}): contents, link targets, exec bits."""
        got = self.wd_modulo_config(want)
        if got != want:
            diff = sorted(hx(p) for p in set(got) ^ set(want)) + sorted(hx(p) for p in got if p in want and got[p] != want[p])
            self.ctx.oracle_fail(self.stream, self.case(differing=diff[:10]), f"{what}: working directory differs from the tree at {diff[:5]}", cls)
            return False
        return True

    def do_fresh(self, s):
        """fresh checkout of tree `s['tree']` with the real code into the (empty) scratch directory."""
        name = s["tree"]
        self.repo.refs.set_symbolic_ref(b"HEAD", b"refs/heads/" + name.encode())
        self.head = name
        err = None
        try:
            self.repo.get_worktree().reset_index()
        except Exception as e:  # noqa: BLE001
            err = type(e).__name__
        self.fs_dirty = True
        t = self.trees[name]
        self.tok(self.obs_tok(t.keys()))
        real = "ok" if err is None else "err:" + err
        self.tok(f"fresh:{name}", lambda o, real=real: self.cmp("fresh", o, real))
        if err is not None:
            from dulwich.index import validate_path
            if all(validate_path(p) for p in t):
                self.ctx.oracle_fail(self.stream, self.case(), f"checkout of a tree of valid paths raised {err}")
            self.failed = True
            return
        self.check_files(t, "after checkout")
        self.cmp_index_files()
        if s.get("cfg"):
            # direct oracle under a non-default configuration: the index of a fresh checkout is the tree
            idx = {p: (k, c) for p, (k, c, _) in self.read_index().items()}
            bad = sorted(p for p in set(idx) | set(t) if idx.get(p) != t.get(p))
            if bad:
                cls = "config:index-mode-from-filesystem:checkout" if all(self.mode_untrusted(idx.get(p), t.get(p)) for p in bad) else None
                self.ctx.oracle_fail(self.stream, self.case(differing=[hx(p) for p in bad[:6]]),
                                     f"after a fresh checkout the index differs from the tree at {len(bad)} paths, e.g. {bad[0]!r}: index {idx.get(bad[0])}, tree {t.get(bad[0])}", cls)
                self.failed = True

    def cmp(self, what, model_out, real_out):
        if model_out != real_out:
            self.ctx.disagree(self.stream, self.case(what=what), model_out[:300], real_out[:300])

    def cmp_index_files(self):
        """model index / files dump vs the real index and directory."""
        idx = self.read_index()
        real_i = sorted(f"{hx(p)}={k}{c}/{s[0]}/{s[1]}/{s[2]}" for p, (k, c, s) in idx.items())
        self.tok("index", lambda o, real_i=real_i: self.cmp("index", ",".join(sorted(o[2:].split(","))) if o[2:] else "", ",".join(real_i)))
        snap = self.snapshot()
        real_w = sorted(f"{hx(p)}={f['kind']}{f['cid']}" for p, f in snap.items())
        self.tok("files", lambda o, real_w=real_w: self.cmp("files", ",".join(sorted(o[2:].split(","))) if o[2:] else "", ",".join(real_w)))

    def _clear(self, full: bytes):
        """make room for a file at `full`: remove what is there; leading components that are files become directories."""
        rel = os.path.relpath(full, self.rootb)
        cur = self.rootb
        for c in rel.split(b"/")[:-1]:
            cur = os.path.join(cur, c)
            if os.path.islink(cur) or (os.path.lexists(cur) and not os.path.isdir(cur)):
                os.unlink(cur)
            if not os.path.lexists(cur):
                os.mkdir(cur)
        if os.path.islink(full) or (os.path.lexists(full) and not os.path.isdir(full)):
            os.unlink(full)
        elif os.path.isdir(full):
            shutil.rmtree(full)

    def edit_tok(self, name: str, p: bytes, with_file=True):
        """the model's named edit (Edit.*) for what the harness just did to the directory, checked against
        the harness's own view of the result (paths, kinds, contents)."""
        if with_file:
            f = self.snapshot()[p]
            self.tok(f"{name}:{hx(p)}:{f['kind']}{f['cid']}/{f['stat'][0]}/{f['stat'][1]}/{f['stat'][2]}/{f['res']}")
        else:
            self.tok(f"{name}:{hx(p)}")
        snap = self.snapshot()
        real_w = sorted(f"{hx(q)}={g['kind']}{g['cid']}" for q, g in snap.items())
        self.tok("files", lambda o, real_w=real_w, name=name: self.cmp("edit " + name, ",".join(sorted(o[2:].split(","))) if o[2:] else "", ",".join(real_w)))

    def do_write(self, s):
        p = unhx(s["path"])
        full = self.full(p)
        before = self.snapshot().get(p)
        simple = before is not None and before["kind"] != "l" and s.get("tag", "").startswith("modify")
        self._clear(full)
        with open(full, "wb") as f:
            f.write(content_of(s["content"]))
        os.chmod(full, s.get("mode", 0o755 if s["kind"] == "x" else 0o644))
        self.touch(full)
        self.fs_dirty = True
        self.edit_tok("e_modify" if simple else "e_create", p)

    def do_symlink(self, s):
        full = self.full(unhx(s["path"]))
        self._clear(full)
        os.symlink(unhx(s["target"]), full)
        try:
            os.stat(full)
        except OSError as e:
            import errno
            if e.errno == errno.ELOOP:     # symlink loops are outside the generated domain (Path.resolve raises)
                os.unlink(full)
                os.symlink(b"/nonexistent-c18/loop-avoided", full)
        self.touch(full)
        self.fs_dirty = True
        self.edit_tok("e_create", unhx(s["path"]))

    def do_chmod(self, s):
        full = self.full(unhx(s["path"]))
        os.chmod(full, s["mode"])
        self.fs_dirty = True
        self.edit_tok("e_chmod", unhx(s["path"]))

    def do_unlink(self, s):
        os.unlink(self.full(unhx(s["path"])))
        self.fs_dirty = True
        self.edit_tok("e_delete", unhx(s["path"]), with_file=False)

    def do_rmtree(self, s):
        shutil.rmtree(self.full(unhx(s["path"])))
        self.fs_dirty = True
        self.edit_tok("e_rmtree", unhx(s["path"]), with_file=False)

    def do_mkdir(self, s):
        full = self.full(unhx(s["path"]))
        self._clear(full)
        os.mkdir(full)
        self.fs_dirty = True
        self.edit_tok("e_mkdir", unhx(s["path"]), with_file=False)

    def _index_op(self, name, tokname, fn, path=None):
        self.sync_model_wd([path] if path is not None else [])
        err = None
        try:
            fn()
        except Exception as e:  # noqa: BLE001
            err = type(e).__name__
        real = "ok" if err is None else "err"
        self.ctx.count(self.stream + ".ops", (self.label, len(self.script)), True, f"{name}:{'ok' if err is None else err}")
        self.tok(tokname, lambda o, real=real: self.cmp(name, o.split(":")[0], real))
        self.cmp_index_files()
        if err is None and path is not None:
            # direct oracle for the edit itself: it did to the index what its name says
            idx, wd, head = self.read_index(), self.snapshot(), (self.trees[self.head] if self.head else {})
            got = idx.get(path)
            got = None if got is None else (got[0], got[1])
            if name == "stage":
                want = (wd[path]["kind"], wd[path]["cid"]) if path in wd else None
            elif name == "unstage":
                want = head.get(path)
            else:
                want = None
            if got != want:
                self.ctx.oracle_fail(self.stream, self.case(path=hx(path)), f"after {name} the index entry of {path!r} is {got}, expected {want}")

    def do_stage(self, s):
        p = unhx(s["path"])
        from dulwich import porcelain
        if s.get("via") == "porcelain":
            fn = lambda: porcelain.add(self.repo, paths=[os.fsdecode(self.full(p))])
        else:
            fn = lambda: self.repo.get_worktree().stage([p])
        self._index_op("stage", ("addpath:" if s.get("via") == "porcelain" else "stage:") + hx(p), fn, p)

    def do_unstage(self, s):
        p = unhx(s["path"])
        self._index_op("unstage", "unstage:" + hx(p), lambda: self.repo.get_worktree().unstage([os.fsdecode(p)]), p)

    def do_rmc(self, s):
        p = unhx(s["path"])
        from dulwich import porcelain
        self._index_op("rmc", "rmc:" + hx(p), lambda: porcelain.remove(self.repo, paths=[os.fsdecode(self.full(p))], cached=True), p)

    def do_addall(self, s):
        from dulwich import porcelain
        self.idx_before_add = self.read_index()
        try:
            self.idx_bytes_before_add = open(self.repo.index_path(), "rb").read()
        except FileNotFoundError:
            self.idx_bytes_before_add = None
        self._index_op("addall", "addall", lambda: porcelain.add(self.repo))

    def do_configs(self, s):
        """repository configuration (written with dulwich's config writer; C git reads the same file)."""
        cfg = self.repo.get_config()
        for key, value in s["set"].items():
            section, name = key.split(".", 1)
            cfg.set((section.encode(),), name.encode(), value.encode())
        cfg.write_to_path()
        self.cfg = dict(s["set"])
        if any(k in self.cfg for k in ("core.filemode", "core.symlinks", "core.trustctime")):
            self.model_ok = False        # the model describes the default configuration

    def do_addallcheck(self, s):
        """after porcelain.add(): the index's tree is the tree of the directory, and `git add -A; git write-tree` agrees."""
        snap, idx = self.snapshot(), self.read_index()
        filemode = self.cfg.get("core.filemode", "true") != "false"
        symlinks = self.cfg.get("core.symlinks", "true") != "false"
        before = self.idx_before_add or {}
        want = {}
        for p, f in snap.items():
            k = f["kind"]
            if not filemode and k != "l":
                # the executable bit is not taken from the file system: kept from the entry that was there, 644 for new paths
                k = before[p][0] if p in before and before[p][0] != "l" else "r"
            if not symlinks and k != "l" and p in before and before[p][0] == "l":
                k = "l"                           # links are plain files on disk
            want[p] = (k, self.reg.sha_of(f["cid"]))
        wid = oracle_tree_id(want)
        try:
            got = bytes(self.repo.open_index().commit(self.repo.object_store))
        except Exception as e:  # noqa: BLE001
            got = b"exception " + type(e).__name__.encode()
        self.ctx.count(self.stream + ".addall-tree", (self.label, len(self.script)), True, "equal" if got == wid else "differs")
        if got != wid:
            have = {p: (k, c) for p, (k, c, _) in idx.items()}
            bad = sorted(hx(p) for p in set(have) ^ set(want)) + sorted(hx(p) for p in have if p in want and (have[p][0], self.reg.sha_of(have[p][1])) != want[p])
            cls = None
            if set(have) == set(want) and all(self.mode_untrusted((have[unhx(b)][0], self.reg.sha_of(have[unhx(b)][1])), want[unhx(b)]) for b in bad):
                cls = "config:index-mode-from-filesystem:add"
            self.ctx.oracle_fail(self.stream, self.case(differing=bad[:6], n=len(idx)),
                                 f"after add() the index's tree {got!r} is not the directory's {wid!r}; {len(bad)} paths differ, e.g. "
                                 f"{[(unhx(b), have.get(unhx(b), ('-',))[0], want.get(unhx(b), ('-',))[0]) for b in bad[:3]]} (path, kind in the index, kind expected)", cls)
            if cls:
                self.failed = True  # (the index now differs from what the rest of the scenario assumes)
        if s.get("git"):
            # C git starts from a copy of the index as it was BEFORE dulwich's add (its own add-all, not a look at
            # dulwich's result), then once more on the shared index file
            alt = self.root / ".git" / "index-before-add"
            if self.idx_bytes_before_add is not None:
                alt.write_bytes(self.idx_bytes_before_add)
            self.git("add", "-A", index_file=alt)
            gid0 = self.git("write-tree", index_file=alt).strip()
            alt.unlink()
            if gid0 != wid:
                self.ctx.oracle_fail(self.stream, self.case(), f"git add -A from the same index; git write-tree gives {gid0!r}, the directory's tree computed here is {wid!r}",
                                     "oracle:git-vs-three-way")
            if got != wid:
                return
            self.git("add", "-A")
            gid = self.git("write-tree").strip()
            self.ctx.count(self.stream + ".git-add-A", (self.label, len(self.script)), True)
            if gid != wid:
                self.ctx.oracle_fail(self.stream, self.case(), f"git add -A; git write-tree gives {gid!r}, the directory's tree computed here is {wid!r}",
                                     "oracle:git-vs-three-way")

    def do_clock(self, s):
        """choose HEAD's commit time: a fixed second, or the current one (waiting for the start of a second)."""
        import time
        if s["mode"] == "now":
            now = time.time()
            if now - int(now) > 0.55:
                time.sleep(1.0 - (now - int(now)) + 0.01)
            self.commit_time = int(time.time())
        else:
            self.commit_time = int(s["mode"])

    def do_config(self, s):
        cfg = self.repo.get_config()
        cfg.set((b"core",), s["key"].encode(), s["value"].encode())
        cfg.write_to_path()

    def do_rewrite(self, s):
        """same size, different content, mtime inside the second of HEAD's commit time at the given nanosecond."""
        p = unhx(s["path"])
        full = self.full(p)
        with open(full, "rb") as f:
            old = f.read()
        new = bytes([(old[0] + s["k"]) % 256]) + old[1:]
        with open(full, "wb") as f:
            f.write(new)
        t = self.commit_time * 10 ** 9
        os.utime(full, ns=(t + 1, t + s["nsec"]))
        self.fs_dirty = True
        self.edit_tok("e_modify", p)

    def do_note(self, s):
        pass

    def do_clearidx(self, s):
        os.unlink(self.repo.index_path())
        self.tok("clearidx")

    def do_treecheck(self, s):
        """Index.commit() must give the id of tree `s['tree']` (and so must git write-tree, when sampled)."""
        want = self.tree_ids[s["tree"]]
        try:
            got = bytes(self.repo.open_index().commit(self.repo.object_store))
        except Exception as e:  # noqa: BLE001
            got = b"exception " + type(e).__name__.encode()
        self.ctx.count(self.stream + ".treeid", (self.label, len(self.script)), True, "equal" if got == want else "differs")
        if got != want:
            idx, t = self.read_index(), self.trees[s["tree"]]
            missing = [p for p in t if p not in idx]
            snap = self.snapshot()
            cls = None
            if missing and all(p in snap and snap[p]["kind"] == "l" and snap[p]["res"][0] == "d" for p in missing) \
                    and all((idx[p][0], idx[p][1]) == t[p] for p in idx if p in t) and not [p for p in idx if p not in t]:
                cls = "add-all-misses:symlink-to-directory"
            self.ctx.oracle_fail(self.stream, self.case(missing=[hx(p) for p in missing[:5]]),
                                 f"checkout + {s.get('how', 'add')} + Index.commit gives {got!r}, the tree was {want!r}", cls)
        if s.get("git"):
            p = subprocess.run(["git", "write-tree"], cwd=str(self.root), env=git_env(self.home), stdout=subprocess.PIPE, stderr=subprocess.PIPE)
            gid = p.stdout.strip()
            self.ctx.count(self.stream + ".git-write-tree", (self.label, len(self.script)), True)
            if p.returncode != 0 or gid != got:
                self.ctx.oracle_fail(self.stream, self.case(), f"git write-tree {gid!r} ({p.stderr[:100]!r}) != Index.commit {got!r}")
        mt = ",".join(sorted(f"{hx(p)}={k}{c}" for p, (k, c) in self.trees[s["tree"]].items()))
        self.tok("index", lambda o, mt=mt, ok=(got == want): self.cmp(
            "treeOf(index)=tree", str(",".join(sorted(x.split("/")[0] for x in o[2:].split(","))) == mt if o[2:] else mt == ""), str(ok)))

    def do_switch(self, s):
        """porcelain.checkout(repo, branch) from the current (clean) state."""
        from dulwich import porcelain
        name = s["tree"]
        a, b = self.trees[self.head], self.trees[name]
        if s.get("dirty") and self.model_ok and any(
                os.path.isdir(self.full(p)) and not os.path.islink(self.full(p)) and not os.listdir(self.full(p)) for p in a):
            # an EMPTY directory where the old tree has a file: _transition_to_absent removes it and drops the index
            # entry, whereas for an absent path it keeps the entry; the model has no empty directories
            self.model_ok = False
            self.ctx.count(self.stream + ".outside-model-domain", (self.label, len(self.script)), False, "empty-dir-at-tracked-path")
        self.sync_model_wd()
        err = None
        try:
            porcelain.checkout(self.repo, name.encode())
        except Exception as e:  # noqa: BLE001
            err = type(e).__name__
        self.fs_dirty = True
        self.tok(self.obs_tok(b.keys()))
        real = "ok" if err is None else "err:" + err
        if s.get("dirty"):   # which of several refusals comes first depends on iteration orders: compare ok / refused
            self.tok(f"switch:{name}", lambda o, real=real: self.cmp("switch", o.split(":")[0], real.split(":")[0]))
        else:
            self.tok(f"switch:{name}", lambda o, real=real: self.cmp("switch", o, real))
        self.cmp_index_files()
        self.ctx.count(self.stream + ".switch", (self.label, len(self.script)), True, real)
        if s.get("dirty"):
            # switch from a state with local changes: correspondence only (the property speaks of clean checkouts)
            if err is None:
                self.head = name
            return
        if err is not None:
            cls = None
            if err == "IsADirectoryError" and any(q in b for p in a for q in ancestors(p)):
                cls = "switch-raises:IsADirectoryError:directory-becomes-file"
            self.ctx.oracle_fail(self.stream, self.case(), f"branch switch between two trees of valid paths raised {err}", cls)
            self.failed = True
            return
        self.head = name
        hd = self.repo.refs.read_ref(b"HEAD")
        if hd != b"ref: refs/heads/" + name.encode():
            self.ctx.oracle_fail(self.stream, self.case(), f"HEAD is {hd!r} after checkout of {name}")
        self.check_files(b, "after branch switch")

    # -- reset --hard / forced checkout from states in which index, work tree and target all differ
    def do_hardreset(self, s):
        """porcelain.reset(hard) / checkout(force=True) / switch(force=True) to tree `s['tree']`; afterwards index and
        work tree must be the target at every tracked path, HEAD the target, and a second reset must change nothing."""
        from dulwich import porcelain
        name, via = s["tree"], s.get("via", "reset")
        T_ = self.trees[name]
        H_ = self.trees[self.head] if self.head else {}
        I_ = {p: (k, c) for p, (k, c, _) in self.read_index().items()}
        W_ = {p: (f["kind"], f["cid"]) for p, f in self.snapshot().items()}
        self.sync_model_wd()
        err = None
        try:
            if via == "reset":
                porcelain.reset(self.repo, "hard", self.commits[name].decode())
            elif via == "checkout":
                porcelain.checkout(self.repo, name.encode(), force=True)
            else:
                porcelain.switch(self.repo, name.encode(), force=True)
        except Exception as e:  # noqa: BLE001
            err = type(e).__name__
        self.fs_dirty = True
        self.tok(self.obs_tok(T_.keys()))
        real = "ok" if err is None else "err:" + err
        self.tok(("reset:" if via == "reset" else "forceco:") + name, lambda o, real=real: self.cmp(via, o, real))
        self.cmp_index_files()
        self.ctx.count(self.stream + ".hardreset", (self.label, len(self.script)), True, f"{via}:{real}")
        if err is not None:
            self.ctx.oracle_fail(self.stream, self.case(), f"{via} to a tree of valid paths raised {err}")
            self.failed = True
            return
        self.head = name
        idx = {p: (k, c) for p, (k, c, _) in self.read_index().items()}
        wd = self.wd_modulo_config(T_)

        def cls_of(p):
            if self.mode_untrusted(idx.get(p), T_.get(p)):
                return "config:index-mode-from-filesystem:checkout"
            if I_.get(p) is not None and W_.get(p) is None and T_.get(p) is None and (via == "reset" or H_.get(p) is not None):
                return "hardreset:index-entry-kept:file-already-deleted"    # (a deletion is applied, the file is already gone)
            # checkout/switch(force=True) take the changes from HEAD's tree to the target and skip equal entries: a
            # path staged differently from HEAD, or locally modified where HEAD and the target agree, is not reset
            if via != "reset" and (H_.get(p) != I_.get(p) or (H_.get(p) == T_.get(p) and W_.get(p) != T_.get(p))):
                return "force-checkout:starts-from-head-not-index"
            return None
        tracked = set(T_) | set(I_)          # (a path only HEAD knows is untracked for the operation)
        self.reset_exact = all(idx.get(p) == T_.get(p) for p in tracked | set(idx))
        for p in sorted(tracked | set(idx)):
            tags = f"I={I_.get(p)} W={W_.get(p)} T={T_.get(p)}" + (f" H={H_.get(p)}" if via != "reset" else "")
            if idx.get(p) != T_.get(p):
                self.ctx.oracle_fail(self.stream, self.case(path=hx(p), via=via), f"after {via} the index has {idx.get(p)} at {p!r}, the target {T_.get(p)} ({tags})", cls_of(p))
            if p in tracked and wd.get(p) != T_.get(p):
                self.ctx.oracle_fail(self.stream, self.case(path=hx(p), via=via), f"after {via} the work tree has {wd.get(p)} at {p!r}, the target {T_.get(p)} ({tags})", cls_of(p))
        for p in sorted(set(W_) - tracked):
            if wd.get(p) != W_[p]:
                self.ctx.oracle_fail(self.stream, self.case(path=hx(p), via=via), f"{via} touched the untracked file {p!r} "
                                     f"(H={H_.get(p)} W={W_.get(p)})", cls_of(p))
        if any(self.mode_untrusted(idx.get(p), T_.get(p)) for p in T_):
            self.failed = True      # (everything after this would repeat the same finding)
        hd = self.repo.refs.read_ref(b"HEAD")
        if self.repo.refs[b"HEAD"] != self.commits[name]:
            self.ctx.oracle_fail(self.stream, self.case(), f"HEAD is {hd!r} after {via} to {name}")
        if s.get("again") and all(idx.get(p) == T_.get(p) for p in tracked):
            # (core.symlinks=false: the plain file standing for a link is written again, with the same content; only
            # kind and content are compared there)
            relink = {p for p, v in T_.items() if v[0] == "l"} if self.cfg.get("core.symlinks") == "false" else set()

            def state():
                return ({p: (v[:2] if p in relink else v) for p, v in self.read_index().items()},
                        {p: ((f["kind"], f["cid"]) if p in relink else (f["kind"], f["cid"], f["stat"][1], f["stat"][2])) for p, f in self.snapshot().items()})
            before = state()
            try:
                porcelain.reset(self.repo, "hard", self.commits[name].decode())
            except Exception as e:  # noqa: BLE001
                self.ctx.oracle_fail(self.stream, self.case(), f"a second reset --hard raised {type(e).__name__}")
            self.fs_dirty = True
            after = state()
            if before != after:
                self.ctx.oracle_fail(self.stream, self.case(), "a second reset --hard to the same commit changed the index or the work tree")
            self.tok(self.obs_tok(T_.keys()))
            self.tok("reset:" + name)
            self.cmp_index_files()

    # -- C git working on the same index file
    def index_extensions(self) -> str:
        """signatures of the extensions in .git/index (parsed here), e.g. 'TREE+UNTR'; 'v4' for index version 4."""
        import struct
        try:
            data = open(self.repo.index_path(), "rb").read()
        except FileNotFoundError:
            return "no-index"
        if data[:4] != b"DIRC":
            return "?"
        ver, n = struct.unpack(">II", data[4:12])
        if ver >= 4:
            return "v4"
        off = 12
        for _ in range(n):
            flags = struct.unpack(">H", data[off + 60:off + 62])[0]
            fixed = 62 + (2 if (ver >= 3 and flags & 0x4000) else 0)
            ln = flags & 0xFFF
            if ln == 0xFFF:
                ln = data.index(b"\0", off + fixed) - (off + fixed)
            off += (fixed + ln + 8) & ~7
        sigs = []
        while off + 8 <= len(data) - 20:
            sigs.append(data[off:off + 4].decode("latin-1"))
            off += 8 + struct.unpack(">I", data[off + 4:off + 8])[0]
        return "+".join(sigs) or "none"

    def git(self, *args, config=(), ok_rc=(0,), index_file=None):
        cmd = ["git"]
        for c in config:
            cmd += ["-c", c]
        env = git_env(self.home)
        if index_file is not None:
            env["GIT_INDEX_FILE"] = str(index_file)
        env.pop("GIT_OPTIONAL_LOCKS", None)           # these commands are meant to write the index
        env["GIT_AUTHOR_DATE"] = env["GIT_COMMITTER_DATE"] = f"{self.commit_time} +0000"   # (unstage stamps entries with it)
        p = subprocess.run(cmd + list(args), cwd=str(self.root), env=env, stdout=subprocess.PIPE, stderr=subprocess.PIPE)
        if p.returncode not in ok_rc:
            raise core.InfraError(f"C18 harness: git {' '.join(args)} failed: {p.stderr.decode(errors='replace')[:300]}")
        return p.stdout

    def git_index_view(self) -> dict:
        """{path: (kind, cid)} as `git ls-files -s -z` shows the index."""
        out = {}
        p = subprocess.run(["git", "ls-files", "-s", "-z"], cwd=str(self.root), env=git_env(self.home), stdout=subprocess.PIPE, stderr=subprocess.PIPE)
        if p.returncode != 0:
            return {b"<git ls-files failed>": (p.stderr.decode(errors="replace")[:100], None)}
        for rec in p.stdout.split(b"\0"):
            if rec:
                meta, path = rec.split(b"\t", 1)
                mode, sha, stage = meta.split(b" ")
                out[path] = ({b"100644": "r", b"100755": "x", b"120000": "l"}.get(mode, mode.decode()), self.reg.by_sha.get(sha), ) if stage == b"0" \
                    else ("stage" + stage.decode(), None)
        return out

    def sync_model_index(self):
        """C git has rewritten the index (and possibly HEAD): tell the model what it now holds."""
        idx = self.read_index()
        gv = self.git_index_view()
        dv = {p: (k, c) for p, (k, c, _) in idx.items()}
        if gv != dv:
            diff = sorted(hx(p) for p in set(gv) ^ set(dv)) + sorted(hx(p) for p in gv if p in dv and gv[p] != dv[p])
            self.ctx.oracle_fail(self.stream, self.case(differing=diff[:8]), "dulwich reads another index than git ls-files shows after a git write")
        items = [f"{hx(p)}={k}{c}/{st[0]}/{st[1]}/{st[2]}" for p, (k, c, st) in idx.items()]
        self.tok("idx:" + (",".join(items) if items else "."))

    def do_git(self, s):
        """a C git command that writes .git/index (and may leave extensions in it)."""
        before_head = self.repo.refs[b"HEAD"] if b"HEAD" in self.repo.refs else None
        self.git(*s["args"], config=s.get("config", ()), ok_rc=(0, 1) if "--refresh" in s["args"] else (0,))
        self.fs_dirty = True
        self.snapshot()                            # (registers the contents git may have hashed from the directory)
        self.ctx.count(self.stream + ".git-writes", (self.label, len(self.script)), True, s["args"][0] + ":" + self.index_extensions())
        after_head = self.repo.refs[b"HEAD"] if b"HEAD" in self.repo.refs else None
        if after_head != before_head:
            # git commit: HEAD's tree is what the index held
            name = f"g{len(self.trees)}"
            flat = {p: (k, c) for p, (k, c, _) in self.read_index().items()}
            self.trees[name], self.commits[name] = flat, after_head
            self.tree_ids[name] = oracle_tree_id({p: (k, self.reg.sha_of(c)) for p, (k, c) in flat.items()})
            items = [f"{hx(p)}={k}{c}" for p, (k, c) in flat.items()]
            self.tok(f"tree:{name}:" + (",".join(items) if items else "."))
            self.tok(f"head:{name}")
            self.head = name
        self.sync_model_index()
        self.sync_model_wd()                         # (git checkout / reset rewrite files too)

    def do_reuc(self, s):
        """a merge conflict at one path, resolved with git add: git records it in the resolve-undo (REUC) extension."""
        pb = unhx(s["path"])
        p = os.fsdecode(pb)
        self.git("checkout", "-q", "-b", "side")
        with open(self.full(pb), "wb") as f:
            f.write(b"side\n")
        self.git("commit", "-q", "-am", "side")
        self.git("checkout", "-q", "-")
        with open(self.full(pb), "wb") as f:
            f.write(b"ours\n")
        self.git("commit", "-q", "-am", "ours")
        self.git("merge", "-q", "side", ok_rc=(0, 1))
        with open(self.full(pb), "wb") as f:
            f.write(b"resolved\n")
        self.fs_dirty = True
        self.snapshot()
        # HEAD moved (commit "ours") and a merge is in progress: register HEAD's tree, then let git record the resolution
        flat = {}
        for rec in self.git("ls-tree", "-r", "-z", "HEAD").split(b"\0"):
            if rec:
                meta, path = rec.split(b"\t", 1)
                mode, _typ, sha = meta.split(b" ")
                flat[path] = ({b"100644": "r", b"100755": "x", b"120000": "l"}[mode], self.reg.cid(self.repo.object_store[sha].data))
        name = f"g{len(self.trees)}"
        self.trees[name], self.commits[name] = flat, self.repo.refs[b"HEAD"]
        self.tree_ids[name] = oracle_tree_id({q: (k, self.reg.sha_of(c)) for q, (k, c) in flat.items()})
        self.tok(f"tree:{name}:" + ",".join(f"{hx(q)}={k}{c}" for q, (k, c) in flat.items()))
        self.tok(f"head:{name}")
        self.head = name
        self.do_git({"args": ["add", "--", p]})

    def do_gitobserve(self, s):
        """after a dulwich mutation: what C git makes of the index must be what the model (and dulwich) hold."""
        ext = self.index_extensions()
        idx = self.read_index()
        dv = {p: (k, c) for p, (k, c, _) in idx.items()}
        gv = self.git_index_view()
        self.ctx.count(self.stream + ".git-observe", (self.label, len(self.script)), True, "ext-left-by-dulwich:" + ext)
        if gv != dv:
            diff = sorted(hx(p) for p in set(gv) ^ set(dv)) + sorted(hx(p) for p in gv if p in dv and gv[p] != dv[p])
            self.ctx.oracle_fail(self.stream, self.case(differing=diff[:8]), "git ls-files shows another index than dulwich holds after a dulwich edit")
        # the tree: Index.commit(), git write-tree, and the id computed here from the entries git lists
        want = oracle_tree_id({p: (k, self.reg.sha_of(c)) for p, (k, c) in gv.items() if c is not None}) if all(c is not None for _, c in gv.values()) else None
        try:
            got = bytes(self.repo.open_index().commit(self.repo.object_store))
        except Exception as e:  # noqa: BLE001
            got = b"exception " + type(e).__name__.encode()
        p = subprocess.run(["git", "write-tree"], cwd=str(self.root), env=git_env(self.home), stdout=subprocess.PIPE, stderr=subprocess.PIPE)
        gid = p.stdout.strip()
        if want is not None and not (got == want == gid):
            self.ctx.oracle_fail(self.stream, self.case(ext=ext), f"tree of the index: Index.commit() {got!r}, git write-tree {gid!r} ({p.stderr[:80]!r}), "
                                 f"computed from the entries {want!r}")
        mt = ",".join(sorted(f"{hx(q)}={k}{c}" for q, (k, c) in dv.items()))
        self.tok("index", lambda o, mt=mt: self.cmp("git-observe: model index = index", ",".join(sorted(x.split("/")[0] for x in o[2:].split(","))) if o[2:] else "", mt))
        # git diff --cached --name-status must list exactly the staged paths
        head = self.trees[self.head] if self.head else {}
        exp = {}
        for q in set(head) | set(dv):
            if q not in head:
                exp[q] = "A"
            elif q not in dv:
                exp[q] = "D"
            elif head[q] != dv[q]:
                exp[q] = "T" if ("l" in (head[q][0], dv[q][0]) and head[q][0] != dv[q][0]) else "M"
        p = subprocess.run(["git", "diff", "--cached", "--name-status", "-z", "--no-renames"], cwd=str(self.root), env=git_env(self.home),
                           stdout=subprocess.PIPE, stderr=subprocess.PIPE)
        toks = p.stdout.split(b"\0")
        gd = {toks[i + 1]: toks[i].decode() for i in range(0, len(toks) - 1, 2)}
        if gd != exp:
            diff = sorted(hx(q) for q in set(gd) ^ set(exp)) + sorted(hx(q) for q in gd if q in exp and gd[q] != exp[q])
            self.ctx.oracle_fail(self.stream, self.case(differing=diff[:8], ext=ext), f"git diff --cached --name-status lists {len(gd)} paths, staged are {len(exp)}; differing {diff[:4]}")
        self.fs_dirty = True            # git write-tree may have rewritten the index (cache-tree)
        self.do_status({"git": True})

    def do_idxapi(self, s):
        """the Index class used directly: index[path] = entry / del index[path], then write()."""
        from dulwich.index import blob_from_path_and_stat, index_entry_from_stat
        p = unhx(s["path"])
        self.sync_model_wd([p])

        def fn():
            idx = self.repo.open_index()
            if s["kind"] == "set":
                st = os.lstat(self.full(p))
                blob = blob_from_path_and_stat(self.full(p), st)
                self.repo.object_store.add_object(blob)
                idx[p] = index_entry_from_stat(st, blob.id)
            else:
                del idx[p]
            idx.write()
        err = None
        try:
            fn()
        except Exception as e:  # noqa: BLE001
            err = type(e).__name__
        self.ctx.count(self.stream + ".ops", (self.label, len(self.script)), True, f"idxapi-{s['kind']}:{'ok' if err is None else err}")
        self.tok(("stage:" if s["kind"] == "set" else "rmc:") + hx(p), lambda o, real=("ok" if err is None else "err"): self.cmp("idxapi", o.split(":")[0], real))
        self.cmp_index_files()

    def do_status(self, s):
        self.sync_model_wd()
        exp, real = self.expected_status(), self.real_status()
        self.ctx.count(self.stream + ".status", (self.label, len(self.script)), True,
                       "clean" if exp.clean() else ("err:" + real.err if real.err else "dirty"))
        if not s.get("racy") and not self.stat_honest():
            raise core.InfraError("C18 harness: StatHonest does not hold in a stream that forces distinct mtimes")
        self.tok("status", lambda o, real=real: self.cmp("status", str(parse_model_status(o).show()), str(real.show())))
        for what, cls in self.classify(exp, real):
            if s.get("racy") and cls == "racy:stat-equal-content-differs":
                self.ctx.extra_cov.setdefault("racy_stream", {}).setdefault("missed_by_dulwich", 0)
                self.ctx.extra_cov["racy_stream"]["missed_by_dulwich"] += 1
                continue
            self.ctx.oracle_fail(self.stream, self.case(expected=exp.show(), real=real.show()), what, cls)
        if s.get("git"):
            g = self.git_status()
            self.ctx.count(self.stream + ".git-status", (self.label, len(self.script)), True)
            if g != exp:
                self.ctx.oracle_fail(self.stream, self.case(expected=exp.show(), git=g.show()),
                                     "git status disagrees with the three-way comparison of HEAD, index and directory", "oracle:git-vs-three-way")
        # the same in "normal" mode (the default of porcelain.status and of git): only the untracked list differs
        exp_n, real_n = self.collapse_untracked(exp), self.real_status("normal")
        self.tok("statusn", lambda o, real_n=real_n: self.cmp("status-normal", str(parse_model_status(o).show()), str(real_n.show())))
        self.ctx.count(self.stream + ".status-normal", (self.label, len(self.script)), True,
                       "err" if real_n.err else ("dirs" if any(p.endswith(b"/") for p in exp_n.t) else ("files" if exp_n.t else "none")))
        if real_n.err != real.err:
            self.ctx.oracle_fail(self.stream, self.case(expected=exp_n.show(), real=real_n.show()),
                                 f"status(untracked_files='normal') raises {real_n.err}, 'all' gives {real.err}")
        elif not real_n.err and exp.t == real.t:
            for p in exp_n.t - real_n.t:
                self.ctx.oracle_fail(self.stream, self.case(expected=exp_n.show(), real=real_n.show()), f"untracked (normal mode) misses {p!r}")
            for p in real_n.t - exp_n.t:
                self.ctx.oracle_fail(self.stream, self.case(expected=exp_n.show(), real=real_n.show()), f"untracked (normal mode) lists {p!r}")
            if (real_n.a, real_n.d, real_n.m, real_n.u) != (real.a, real.d, real.m, real.u):
                self.ctx.oracle_fail(self.stream, self.case(real=real_n.show()), "staged / unstaged lists depend on the untracked mode")
        if s.get("git"):
            g = self.git_status("normal")
            self.ctx.count(self.stream + ".git-status-normal", (self.label, len(self.script)), True)
            # C git's "normal" mode does not mention an untracked directory `d/` whose name `d` is a tracked FILE in the
            # index (it prints only " D d"; with -uall it lists d/x): the comparison with git allows exactly that
            idxn = self.read_index()
            hidden = {p for p in exp_n.t if p.endswith(b"/") and p[:-1] in idxn}
            if hidden:
                self.ctx.count(self.stream + ".git-normal-hides-dir-named-like-tracked-file", (self.label, len(self.script)), False)
            want_n = StatusView(exp_n.a, exp_n.d, exp_n.m, exp_n.u, exp_n.t - hidden)
            if g != want_n:
                cls = "oracle:git-vs-three-way"
                if "UNTR" in self.index_extensions() and not g.err and (g.a, g.d, g.m, g.u) == (want_n.a, want_n.d, want_n.m, want_n.u):
                    # the index still carries an untracked cache written by git BEFORE dulwich changed entries
                    cls = "git-status-wrong:stale-untracked-cache-written-back"
                self.ctx.oracle_fail(self.stream, self.case(expected=exp_n.show(), git=g.show(), ext=self.index_extensions()),
                                     "git status (normal mode) disagrees with the three-way comparison", cls)
        if s.get("expect_clean") and not exp.clean():
            self.ctx.oracle_fail(self.stream, self.case(expected=exp.show()), "status is not clean right after checkout (three-way comparison)")
        return exp, real

    # -- model side
    def finish(self, lines: list, owners: list):
        sizes = ",".join(f"{c}={z}" for c, z in self.reg.size.items()) or "."
        self.toks[self.env_tok_at] = f"env:{self.commit_time}:{sizes}"
        if not self.checks:
            return                               # nothing is compared with the model (scenario outside its domain from the start)
        lines.append("c18.run " + " ".join(self.toks))
        owners.append(self)

    def check_model(self, out: str):
        outs = out.split(" ")
        if len(outs) != len(self.toks):
            self.ctx.disagree(self.stream, self.case(), f"{len(outs)} outputs", f"{len(self.toks)} steps")
            return
        bad = [i for i, o in enumerate(outs) if o in ("bad-arg", "bad-step")]
        if bad:
            self.ctx.disagree(self.stream, self.case(), f"driver rejected step {self.toks[bad[0]][:80]}", "accepted")
            return
        for i, fn in self.checks:
            fn(outs[i])


# ------------------------------------------------------------------------------------------------
# generators

NAMES_SIMPLE = [b"a", b"b", b"c", b"d", b"e", b"f1", b"main.c", b"README", b"x", b"y", b"x.a", b"x0", b"A", b"Makefile", b".hidden"]
NAMES_QUOTE = [b"sp ace", b'q"uote', b"new\nline", b"tab\there", b"back\\slash", b"star*", b"quest?", b"[br]", b"#hash",
               b"-dash", b"~tilde", b" lead", b"trail ", b"a:b", b"semi;colon", b"'single'", b"$dollar", b"\x01ctl",
               b"\x7fdel", b"per%cent", b"dot.", b"a..b", b"@at", b"!bang", b"{brace}", b"a&b", b"pipe|", b"<lt>"]
NAMES_UTF8 = ["é".encode(), "日本語".encode(), "\U0001F600".encode(), "ü-ber".encode(), "é".encode(),
              "Ångström".encode()]
NAMES_NONUTF8 = [b"\xff\xfe", b"caf\xe9", b"\x80abc", b"tr\xc3", b"\xed\xa0\x80", b"\xc0\xaf", b"\xf5x", b"ok\xf0\x9f"]
NAME_LONG = b"L" * 200
BIG_SIZES = [70_000, 300_000, 1_100_000]      # thorough adds 9 MB


def gen_name(rng, profile):
    r = rng.random()
    if profile == "plain":
        return rng.choice(NAMES_SIMPLE + NAMES_UTF8[:2]) if r < 0.8 else rng.choice(NAMES_QUOTE + NAMES_UTF8)
    if r < 0.35:
        return rng.choice(NAMES_SIMPLE)
    if r < 0.6:
        return rng.choice(NAMES_QUOTE)
    if r < 0.75:
        return rng.choice(NAMES_UTF8)
    if r < 0.95:
        return rng.choice(NAMES_NONUTF8)
    return NAME_LONG


def gen_content(rng, big_ok=False):
    r = rng.random()
    if r < 0.12:
        return {"hex": "-"}
    if r < 0.25:
        return {"hex": hx(rng.choice([b"shared\n", b"x", b"line1\r\nline2\r\n", b"\x00\x01\x02bin\x00"]))}
    if big_ok and r < 0.32:
        return {"rand": [rng.randrange(10 ** 6), rng.choice(BIG_SIZES)]}
    return {"hex": hx(rng.randbytes(rng.choice([1, 2, 5, 17, 64, 300, 4096])))}


def conflicts(p: bytes, paths) -> bool:
    return any(q == p or q.startswith(p + b"/") or p.startswith(q + b"/") for q in paths)


def gen_link_target(rng, profile, path: bytes, files: list, dirs: list) -> bytes:
    """a symlink target for a link at `path`; `files`/`dirs` are other paths of the tree."""
    depth = path.count(b"/")
    up = b"../" * depth
    choices = ["outside-missing", "outside-file"]
    if files:
        choices += ["tracked"] * 3
    if profile != "plain":
        choices += ["dangling"] * 2 + ["nonutf8", "long", "outside-dir"]
        if dirs:
            choices += ["dir"] * 2
    c = rng.choice(choices)
    if c == "tracked":
        return up + rng.choice(files)
    if c == "dir":
        return up + rng.choice(dirs)
    if c == "dangling":
        return rng.choice([b"no-such-file", b"missing/deeper", up + b"gone"])
    if c == "nonutf8":
        return b"\xfftarget\xfe"
    if c == "long":
        return b"t" * 200                   # (a component above NAME_MAX makes the ignore probing raise OSError)
    if c == "outside-dir":
        return b"/usr"
    if c == "outside-file":
        return b"/etc/hostname"
    return b"/nonexistent-c18/target"


# a directory `d` next to names that are `d` followed by a byte around "/" (0x2f): they sort between `d` and `d/…`
# (below 0x2f) or right after everything under `d/` (above)
SIBLING_SUFFIXES = [b".x", b"-x", b" x", b"0", b".rs", b"-old", b"!", b"\x01", b".", b"-", b"+", b",", b"0x", b"\xff"]


def add_prefix_family(rng, paths: list, profile: str) -> None:
    """make sure some directory of the tree has siblings whose names extend its name by a byte around '/'."""
    dirs = sorted({a for p in paths for a in ancestors(p)})
    for _ in range(rng.choice([1, 1, 2])):
        if dirs and rng.random() < 0.6:
            d = rng.choice(dirs)
        else:
            d = b"/".join([gen_name(rng, "plain") for _ in range(rng.choice([1, 1, 2]))])
            q = d + b"/" + gen_name(rng, "plain")
            if conflicts(d, paths) or conflicts(q, paths):
                continue
            paths.append(q)
        for suf in rng.sample(SIBLING_SUFFIXES, rng.choice([1, 2, 3])):
            sib = d + suf
            if profile == "plain" and not is_utf8(sib):
                continue
            q = sib if rng.random() < 0.5 else sib + b"/" + gen_name(rng, "plain")
            if rng.random() < 0.2:
                q = sib + b"/" + gen_name(rng, "plain") + b"/" + gen_name(rng, "plain")
            if len(q) < 900 and not conflicts(q, paths):
                paths.append(q)


def gen_tree(rng, profile, n=None, big_ok=False) -> list:
    """[[pathhex, kind, contentspec]] over valid names, nested up to depth 3, no path below another."""
    if n is None:
        n = rng.choice([0, 1, 2, 3, 5, 8, 12]) if rng.random() < 0.9 else 30
    paths: list[bytes] = []
    tries = 0
    while len(paths) < n and tries < 20 * n + 20:
        tries += 1
        depth = rng.choice([0, 0, 0, 1, 1, 2, 3])
        if paths and rng.random() < 0.4:  # reuse a directory
            base = rng.choice(paths)
            comps = base.split(b"/")[:-1][:depth]
        else:
            comps = []
        while len(comps) < depth:
            comps.append(gen_name(rng, profile))
        p = b"/".join(comps + [gen_name(rng, profile)])
        if len(p) > 900 or conflicts(p, paths):
            continue
        paths.append(p)
    if n and rng.random() < 0.6:
        add_prefix_family(rng, paths, profile)
    dirs = sorted({a for p in paths for a in ancestors(p)})
    kinds = {p: rng.choices(["r", "x", "l"], [60, 15, 25])[0] for p in paths}
    files = [q for q in paths if kinds[q] != "l"]        # links never point at links: no symlink loops
    ents = []
    for p in paths:
        k = kinds[p]
        if k == "l":
            ents.append([hx(p), "l", {"hex": hx(gen_link_target(rng, profile, p, files, dirs))}])
        else:
            ents.append([hx(p), k, gen_content(rng, big_ok)])
    return ents


def mutate_tree(rng, profile, ents: list) -> list:
    """a second tree close to the first: content / mode / type changes, deletions, additions, file<->directory swaps."""
    cur = {unhx(ph): (k, spec) for ph, k, spec in ents}
    for _ in range(rng.randint(1, 5)):
        op = rng.choice(["content", "mode", "type", "delete", "add", "file->dir", "dir->file", "dir->file", "sibling", "sibling"])
        paths = list(cur)
        if op == "sibling":
            ps = list(cur)
            add_prefix_family(rng, ps, profile)
            for q in ps:
                if q not in cur:
                    cur[q] = (rng.choice(["r", "x"]), gen_content(rng))
            continue
        if op == "add" or not paths:
            for _ in range(10):
                p = b"/".join(gen_name(rng, profile) for _ in range(rng.choice([1, 1, 2])))
                if not conflicts(p, cur):
                    cur[p] = ("r", gen_content(rng))
                    break
            continue
        p = rng.choice(paths)
        k, spec = cur[p]
        if op == "content":
            cur[p] = (k, {"hex": hx(rng.randbytes(5))}) if k != "l" else (k, {"hex": hx(b"retarget")})
        elif op == "mode" and k != "l":
            cur[p] = ("x" if k == "r" else "r", spec)
        elif op == "type":
            if k == "l":
                cur[p] = ("r", spec if rng.random() < 0.5 else gen_content(rng))
            elif content_of(spec) and b"\0" not in content_of(spec) and len(content_of(spec)) < 200 and rng.random() < 0.5:
                cur[p] = ("l", spec)           # same blob, different type
            else:
                cur[p] = ("l", {"hex": hx(b"/nonexistent-c18/t")})
        elif op == "delete":
            del cur[p]
        elif op == "file->dir":
            del cur[p]
            if k == "l":                      # a relative target would now resolve differently (possibly to itself)
                spec = {"hex": hx(b"/nonexistent-c18/moved")}
            cur[p + b"/" + gen_name(rng, "plain")] = (k, spec)
            if rng.random() < 0.4:
                q = p + b"/" + gen_name(rng, "plain") + b"/" + gen_name(rng, "plain")
                if not conflicts(q, cur):
                    cur[q] = ("r", gen_content(rng))
        elif op == "dir->file":
            ds = sorted({a for q in cur for a in ancestors(q)})
            if ds:
                d = rng.choice(ds)
                for q in [q for q in cur if q.startswith(d + b"/")]:
                    del cur[q]
                cur[d] = (rng.choice(["r", "x", "l"]), {"hex": hx(b"/nonexistent-c18/was-dir")})
    return [[hx(p), k, spec] for p, (k, spec) in cur.items()]


# ------------------------------------------------------------------------------------------------
# streams

def _hermetic(ctx):
    home = ctx.scratch / "home"
    home.mkdir(exist_ok=True)
    os.environ["HOME"] = str(home)
    os.environ["XDG_CONFIG_HOME"] = str(home / ".config")
    os.environ["GIT_CONFIG_NOSYSTEM"] = "1"
    os.environ.pop("GIT_CONFIG_GLOBAL", None)
    os.environ.pop("GIT_CONFIG_SYSTEM", None)


class Batch:
    """collects finished scenarios and sends them to the Lean driver in one go."""

    def __init__(self, ctx):
        self.ctx, self.lines, self.owners = ctx, [], []

    def add(self, sc: Scen):
        sc.finish(self.lines, self.owners)
        sc.close()
        if len(self.lines) >= 40:
            self.flush()

    def flush(self):
        if not self.lines:
            return
        outs = self.ctx.driver.batch(self.lines)
        for sc, o in zip(self.owners, outs):
            sc.check_model(o)
        self.lines, self.owners = [], []


def _stream_modes(ctx):
    """cleanup_mode / kind, UTF-8 validity, path validity: model vs the real functions (pure, in-process)."""
    from dulwich.index import cleanup_mode, validate_path
    rng = ctx.rng
    modes = [0o100644, 0o100755, 0o100664, 0o100600, 0o100700, 0o100744, 0o100654, 0o104755, 0o102644, 0o101777, 0o120000,
             0o120777, 0o40000, 0o40755, 0o160000, 0o10644, 0o140755, 0o60660, 0o20620, 0, 0o644, 0o755, 0o100, 0o100000]
    modes += [rng.choice([0o100000, 0o120000, 0o40000, 0o160000, 0o10000, 0o140000, 0]) | rng.getrandbits(12) for _ in range(ctx.budget(300))]
    outs = ctx.driver.batch([f"c18.cleanup {m}" for m in modes])
    for m, o in zip(modes, outs):
        real = str(cleanup_mode(m))
        ctx.count("modes.cleanup", m, True, oct(int(real)))
        if o != real:
            ctx.disagree("modes.cleanup", {"mode": m}, o, real)
        # git's rule, independently: a regular file is executable iff the owner-execute bit is set
        if pystat.S_ISREG(m) and (int(real) == 0o100755) != bool(m & 0o100):
            ctx.oracle_fail("modes.cleanup", {"mode": m}, f"cleanup_mode({m:o}) = {int(real):o}: executable bit not derived from the owner-execute bit")
    names = [b"", b"a", b".git", b".GIT", b".Git/x", b"a/.git/b", b".", b"..", b"a/../b", b"a//b", b"/a", b"a/", b".gitx", b"git", b"a/b/c"]
    names += NAMES_SIMPLE + NAMES_QUOTE + NAMES_UTF8 + NAMES_NONUTF8
    names += [rng.randbytes(rng.randint(1, 6)) for _ in range(ctx.budget(200))]
    names += [bytes(rng.choice([0x7f, 0x80, 0xbf, 0xc0, 0xc2, 0xdf, 0xe0, 0xa0, 0x9f, 0xed, 0xef, 0xf0, 0x90, 0x8f, 0xf4, 0xf5, 0x41])
                    for _ in range(rng.randint(1, 5))) for _ in range(ctx.budget(600))]
    outs = ctx.driver.batch([f"c18.utf8 {hx(n)}" for n in names] + [f"c18.valid {hx(n)}" for n in names])
    for i, n in enumerate(names):
        real = "1" if is_utf8(n) else "0"
        ctx.count("modes.utf8", n, True, real)
        if outs[i] != real:
            ctx.disagree("modes.utf8", {"bytes": hx(n)}, outs[i], real)
        real = "1" if validate_path(n) else "0"
        ctx.count("modes.validpath", n, True, real)
        if outs[len(names) + i] != real:
            ctx.disagree("modes.validpath", {"path": hx(n)}, outs[len(names) + i], real)


def _stream_changes(ctx):
    """order and kinds of tree_changes(a, b) on flattened trees: model vs dulwich.diff_tree (in a MemoryObjectStore)."""
    from dulwich.diff_tree import tree_changes
    from dulwich.index import commit_tree
    from dulwich.object_store import MemoryObjectStore
    from dulwich.objects import Blob
    rng = ctx.rng
    store = MemoryObjectStore()
    lines, reals = [], []
    for i in range(ctx.budget(150, mult=20)):
        profile = rng.choice(["plain", "wild"])
        a = gen_tree(rng, profile, n=rng.choice([0, 1, 3, 6, 10]))
        b = mutate_tree(rng, profile, a) if rng.random() < 0.8 else gen_tree(rng, profile, n=rng.choice([0, 2, 5]))
        ids, toks = [], []
        for ents in (a, b):
            blobs, items = [], []
            for ph, k, spec in ents:
                bl = Blob.from_string(content_of(spec))
                store.add_object(bl)
                blobs.append((unhx(ph), bl.id, KMODE[k]))
                items.append(f"{ph}={k}{int(bl.id[:7], 16)}")
            ids.append(commit_tree(store, blobs))
            toks.append(",".join(items) if items else ".")
        real = []
        for ch in tree_changes(store, ids[0], ids[1]):
            real.append({"add": "a:", "delete": "d:", "modify": "m:"}[ch.type] + hx(ch.new.path if ch.type != "delete" else ch.old.path))
        lines.append(f"c18.changes {toks[0]} {toks[1]}")
        reals.append((a, b, "|".join(real)))
    outs = ctx.driver.batch(lines)
    for o, (a, b, real) in zip(outs, reals):
        ctx.count("changes", (str(a), str(b)), True, f"n{len(real.split('|')) if real else 0}")
        if o != real:
            ctx.disagree("changes", {"a": a, "b": b}, o, real)


def _untracked_probe(rng, sc: Scen, git: bool):
    """untracked files inside a tracked directory, next to it (sibling names around '/') and inside such a sibling,
    then status in both untracked modes."""
    snap, idx = sc.snapshot(), sc.read_index()
    files = list(snap)
    alld = sorted({a for p in list(idx) + files for a in ancestors(p)})
    if not alld:
        return
    done = 0
    for _ in range(12):
        d = rng.choice(alld)
        p = rng.choice([d + b"/" + gen_name(rng, "plain"), d + rng.choice(SIBLING_SUFFIXES),
                        d + rng.choice(SIBLING_SUFFIXES) + b"/" + gen_name(rng, "plain")])
        if len(p) > 900 or conflicts(p, files) or p.split(b"/")[0] == b".git":
            continue
        sc.exec({"op": "write", "path": hx(p), "kind": "r", "content": {"hex": hx(b"untracked")}, "tag": "add-sibling"})
        files.append(p)
        done += 1
        if done >= 2:
            break
    sc.exec({"op": "status", "git": git})


def _stream_roundtrip(ctx, batch, n=None, stream="roundtrip"):
    """(a) checkout -> files match the tree, status clean, add + Index.commit reproduces the tree id."""
    rng = ctx.rng
    n = ctx.budget(45, mult=20) if n is None else n
    for i in range(n):
        profile = rng.choice(["plain", "wild", "wild"])
        ents = gen_tree(rng, profile, big_ok=True)
        _roundtrip_case(ctx, batch, stream, ents, profile, git=(i % 4 == 0) or ctx.thorough)


def _roundtrip_case(ctx, batch, stream, ents, profile="corpus", git=False):
    sc = Scen(ctx, stream, profile)
    try:
        sc.exec({"op": "tree", "name": "t", "entries": ents})
        sc.exec({"op": "fresh", "tree": "t"})
        ctx.count(stream, str(ents), True, f"{profile}:n{len(ents)}")
        if not sc.failed:
            sc.exec({"op": "status", "git": git, "expect_clean": True})
            sc.exec({"op": "addall"})
            sc.exec({"op": "treecheck", "tree": "t", "git": git, "how": "add (index kept)"})
            sc.exec({"op": "clearidx"})
            sc.exec({"op": "addall"})
            sc.exec({"op": "treecheck", "tree": "t", "git": git, "how": "add (index deleted first)"})
            sc.exec({"op": "status", "git": git})
            _untracked_probe(ctx.rng, sc, git)
        if len(ctx.samples) < 2:
            ctx.sample({"stream": stream, "tree": [[unhx(p).decode("latin-1"), k] for p, k, _ in ents][:8]})
    finally:
        batch.add(sc)


def _pick_edit(rng, sc: Scen, profile):
    """one random edit step for the current state of the scenario (working directory or index)."""
    snap, idx = sc.snapshot(), sc.read_index()
    head = sc.trees[sc.head]
    files = list(snap)
    regs = [p for p in files if snap[p]["kind"] != "l"]
    links = [p for p in files if snap[p]["kind"] == "l"]
    dirs = sorted({a for p in files for a in ancestors(p)})
    kinds = ["modify-same", "modify-diff", "chmod", "delete", "add", "add", "file->link", "link->file", "file->dir",
             "dir->file", "revert", "stage", "stage", "unstage", "rmc", "addall", "mkdir-empty", "add-sibling", "add-sibling"]
    for _ in range(30):
        k = rng.choice(kinds)
        if k == "modify-same" and regs:
            p = rng.choice(regs)
            n = snap[p]["stat"][2]
            if n == 0:
                continue
            old = open(sc.full(p), "rb").read()
            new = bytes((old[0] + 1) % 256 for _ in range(1)) + old[1:] if rng.random() < 0.5 else rng.randbytes(n)
            if new == old:
                continue
            return {"op": "write", "path": hx(p), "kind": snap[p]["kind"], "content": spec_of(new), "tag": k}
        if k == "modify-diff" and regs:
            p = rng.choice(regs)
            old = open(sc.full(p), "rb").read()
            new = rng.choice([old + b"more", old[: len(old) // 2] if old else b"grown", b"", rng.randbytes(rng.choice([3, 100]))])
            if len(new) == len(old):
                continue
            return {"op": "write", "path": hx(p), "kind": snap[p]["kind"], "content": spec_of(new), "tag": k}
        if k == "chmod" and regs:
            p = rng.choice(regs)
            cur = snap[p]["mode"] & 0o777
            new = rng.choice([0o644, 0o755, 0o700, 0o744, 0o600, 0o664, 0o775, 0o654])
            if new == cur:
                continue
            return {"op": "chmod", "path": hx(p), "mode": new, "tag": k}
        if k == "delete" and files:
            return {"op": "unlink", "path": hx(rng.choice(files)), "tag": k}
        if k == "add":
            d = rng.choice(dirs + [b""] * 3) if dirs else b""
            comps = ([d] if d else []) + [gen_name(rng, profile) for _ in range(rng.choice([1, 1, 1, 2, 3]))]
            p = b"/".join(comps)
            if len(p) > 900 or conflicts(p, files) or p.split(b"/")[0] == b".git":
                continue
            kk = rng.choices(["r", "x", "l"], [60, 15, 25])[0]
            if kk == "l":
                return {"op": "symlink", "path": hx(p), "target": hx(gen_link_target(rng, profile, p, regs, dirs)), "tag": "add-untracked-link"}
            return {"op": "write", "path": hx(p), "kind": kk, "content": gen_content(rng), "tag": "add-untracked"}
        if k == "add-sibling":
            alld = sorted(set(dirs) | {a for p in idx for a in ancestors(p)})
            if not alld:
                continue
            d = rng.choice(alld)
            r_ = rng.random()
            if r_ < 0.35:
                p = d + b"/" + gen_name(rng, "plain")                       # untracked file inside the directory
            elif r_ < 0.7:
                p = d + rng.choice(SIBLING_SUFFIXES)                          # sibling file
            else:
                p = d + rng.choice(SIBLING_SUFFIXES) + b"/" + gen_name(rng, "plain")   # file inside a sibling directory
            if len(p) > 900 or conflicts(p, files) or p.split(b"/")[0] == b".git" or (profile == "plain" and not is_utf8(p)):
                continue
            return {"op": "write", "path": hx(p), "kind": "r", "content": gen_content(rng), "tag": "add-sibling"}
        if k == "file->link" and regs:
            p = rng.choice(regs)
            old = open(sc.full(p), "rb").read()
            if old and b"\0" not in old and len(old) < 200 and rng.random() < 0.5:
                tgt = old                         # same blob, different type
            else:
                tgt = gen_link_target(rng, profile, p, [q for q in regs if q != p], dirs)
            return {"op": "symlink", "path": hx(p), "target": hx(tgt), "tag": k}
        if k == "link->file" and links:
            p = rng.choice(links)
            old = os.readlink(sc.full(p))
            new = old if rng.random() < 0.5 else rng.randbytes(4)
            return {"op": "write", "path": hx(p), "kind": rng.choice(["r", "x"]), "content": spec_of(new), "tag": k}
        if k == "file->dir" and files:
            p = rng.choice(files)
            if rng.random() < 0.3:
                return {"op": "mkdir", "path": hx(p), "tag": "file->emptydir"}
            q = p + b"/" + gen_name(rng, "plain")
            return {"op": "write", "path": hx(q), "kind": "r", "content": gen_content(rng), "tag": k}
        if k == "dir->file" and dirs:
            d = rng.choice(dirs)
            if profile == "plain" and any(p.startswith(d + b"/") for p in idx):
                continue                          # would make status raise (known finding); keep "plain" scenarios going
            if rng.random() < 0.3:
                tgt = gen_link_target(rng, "wild", d, [q for q in regs if not q.startswith(d + b"/")], [x for x in dirs if x != d and not x.startswith(d + b"/")])
                if os.path.isdir(os.path.join(os.path.dirname(sc.full(d)), tgt)) and any(p.startswith(d + b"/") for p in idx):
                    continue                      # a link to a directory above tracked paths: outside the model (see _stream_linkdir)
                return {"op": "symlink", "path": hx(d), "target": hx(tgt), "tag": "dir->link"}
            return {"op": "write", "path": hx(d), "kind": "r", "content": gen_content(rng), "tag": k}
        if k == "mkdir-empty":
            p = gen_name(rng, "plain") + b".d"
            if conflicts(p, files):
                continue
            return {"op": "mkdir", "path": hx(p), "tag": k}
        if k == "revert":
            cand = [p for p in idx if idx[p][1] is not None and idx[p][0] in "rxl" and not any(a in snap for a in ancestors(p))]
            if not cand:
                continue
            p = rng.choice(cand)
            kind, cid, _ = idx[p]
            content = sc.repo.object_store[sc.reg.sha_of(cid)].data
            if kind == "l":
                if not content or b"\0" in content or len(content) > 200:
                    continue
                return {"op": "symlink", "path": hx(p), "target": hx(content), "tag": k}
            return {"op": "write", "path": hx(p), "kind": kind, "content": spec_of(content), "tag": k}
        if k == "stage":
            cand = sorted(set(files) | set(idx))
            if not cand:
                continue
            p = rng.choice(cand)
            via = "worktree"
            if rng.random() < 0.25 and p in snap and snap[p]["kind"] != "l":
                via = "porcelain"
            return {"op": "stage", "path": hx(p), "via": via, "tag": k}
        if k == "unstage":
            cand = sorted(set(idx) | set(head))
            if not cand:
                continue
            return {"op": "unstage", "path": hx(rng.choice(cand)), "tag": k}
        if k == "rmc":
            # porcelain.remove resolves the directories of the path it is given: only paths that are not below a
            # symbolic link are used here (the path itself may be a link: it is removed under its own name)
            cand = [p for p in idx if not any(q in snap and snap[q]["kind"] == "l" for q in ancestors(p))]
            if not cand:
                continue
            return {"op": "rmc", "path": hx(rng.choice(cand)), "tag": k}
        if k == "addall":
            return {"op": "addall", "tag": k}
    return {"op": "status", "tag": "status"}


def _stream_edits(ctx, batch, n=None, stream="edits"):
    """(b) random edit sequences between status calls: model vs porcelain.status vs three-way oracle vs git."""
    rng = ctx.rng
    n = ctx.budget(40, mult=25) if n is None else n
    for i in range(n):
        profile = rng.choice(["plain", "plain", "wild"])
        ents = gen_tree(rng, profile, n=rng.choice([1, 3, 5, 8, 12]))
        sc = Scen(ctx, stream, profile)
        try:
            sc.exec({"op": "tree", "name": "t", "entries": ents})
            sc.exec({"op": "fresh", "tree": "t"})
            if sc.failed:
                continue
            steps = rng.choice([4, 8, 14, 30] if ctx.thorough else [4, 8, 14])
            for j in range(steps):
                for _ in range(rng.choice([1, 1, 2, 3])):
                    e = _pick_edit(rng, sc, profile)
                    if e["op"] == "status":
                        break
                    sc.exec(e)
                    ctx.count(stream + ".edit", (i, j, len(sc.script)), True, e.get("tag", e["op"]))
                git = ctx.thorough or rng.random() < 0.3
                sc.exec({"op": "status", "git": git})
            ctx.count(stream, (i, str(ents)), True, profile)
            if len(ctx.samples) < 4:
                ctx.sample({"stream": stream, "profile": profile, "script_ops": [s.get("tag", s["op"]) for s in sc.script][:30]})
        finally:
            batch.add(sc)


SWITCH_SET = {
    "F": [["78", "r", {"hex": hx(b"file")}]],
    "X": [["78", "x", {"hex": hx(b"file")}]],
    "F2": [["78", "r", {"hex": hx(b"elif")}]],
    "L": [["78", "l", {"hex": hx(b"file")}]],
    "L2": [["78", "l", {"hex": hx(b"/nonexistent-c18/t")}]],
    "D": [[hx(b"x/y"), "r", {"hex": hx(b"file")}]],
    "DD": [[hx(b"x/y/z"), "r", {"hex": hx(b"file")}], [hx(b"x/w"), "x", {"hex": hx(b"w")}]],
    "DL": [[hx(b"x/y"), "l", {"hex": hx(b"/nonexistent-c18/t")}]],
    "E": [],
    "O": [[hx(b"y"), "r", {"hex": hx(b"other")}], [hx(b"x.a"), "r", {"hex": hx(b"sibling")}], [hx(b"x0"), "r", {"hex": "-"}]],
    "M": [["78", "r", {"hex": hx(b"file")}], [hx(b"x.a"), "r", {"hex": hx(b"sibling2")}], [hx(b"k/\xff"), "x", {"hex": hx(b"nonutf8")}]],
    "P": [[hx(b"x/a.c"), "r", {"hex": hx(b"file")}], [hx(b"x.rs"), "r", {"hex": hx(b"rs")}], [hx(b"x-old/y"), "r", {"hex": hx(b"old")}],
          [hx(b"x y"), "x", {"hex": hx(b"sp")}], [hx(b"x0/z/w"), "r", {"hex": hx(b"zero")}]],
}


def _switch_case(ctx, batch, stream, a_ents, b_ents, label, git=False, back=False):
    sc = Scen(ctx, stream, label)
    try:
        sc.exec({"op": "tree", "name": "a", "entries": a_ents})
        sc.exec({"op": "tree", "name": "b", "entries": b_ents})
        sc.exec({"op": "fresh", "tree": "a"})
        if sc.failed:
            return
        sc.exec({"op": "switch", "tree": "b"})
        if not sc.failed:
            sc.exec({"op": "status", "git": git, "expect_clean": True})
            sc.exec({"op": "treecheck", "tree": "b", "git": git, "how": "branch switch"})
            if back:
                _untracked_probe(ctx.rng, sc, git)
                for st_ in list(sc.script):                      # leave the directory clean again for the way back
                    if st_.get("tag") == "add-sibling":
                        sc.exec({"op": "unlink", "path": st_["path"], "tag": "cleanup"})
                for st_ in list(sc.script):
                    if st_.get("tag") == "add-sibling":
                        q = unhx(st_["path"])
                        for a in reversed(ancestors(q)):
                            try:
                                os.rmdir(sc.full(a))
                            except OSError:
                                break
                sc.fs_dirty = True
            if back:
                sc.exec({"op": "switch", "tree": "a"})
                if not sc.failed:
                    sc.exec({"op": "status", "git": git, "expect_clean": True})
    finally:
        batch.add(sc)


def _stream_switch(ctx, batch, stream="switch"):
    """(c) branch switches between all ordered pairs of a small set of trees, and between random near trees."""
    rng = ctx.rng
    names = list(SWITCH_SET)
    k = 0
    for a in names:
        for b in names:
            if a != b:
                k += 1
                _switch_case(ctx, batch, stream, SWITCH_SET[a], SWITCH_SET[b], f"{a}->{b}", git=(k % 5 == 0) or ctx.thorough)
                ctx.count(stream, (a, b), True, "fixed-pair")
    for i in range(ctx.budget(25, mult=20)):
        profile = rng.choice(["plain", "wild"])
        a = gen_tree(rng, profile, n=rng.choice([1, 3, 6, 10]))
        b = mutate_tree(rng, profile, a)
        _switch_case(ctx, batch, stream, a, b, f"random-{profile}", git=(i % 4 == 0) or ctx.thorough, back=True)
        ctx.count(stream, (str(a), str(b)), True, f"random-{profile}")


def _stream_racy(ctx, batch):
    """Informational: deliberately violate StatHonest (same-size rewrite whose stat key equals the cached one).
    With core.trustctime=false only mtime+size are compared, so restoring the mtime after the rewrite makes the
    stat key equal; with the default (ctime trusted) the race needs both writes in one clock tick and is only counted.
    What dulwich does is reported in the evidence; it is never a violation."""
    rng = ctx.rng
    info = ctx.extra_cov.setdefault("racy_stream", {})
    info.update({"trustctime_false_cases": 0, "trustctime_false_missed_by_dulwich": 0, "trustctime_false_detected_by_git": 0,
                 "same_tick_attempts": 0, "same_tick_stat_equal": 0, "same_tick_missed_by_dulwich": 0})
    from dulwich import porcelain
    for i in range(ctx.budget(6, mult=3)):
        sc = Scen(ctx, "racy", "trustctime=false")
        try:
            sc.exec({"op": "tree", "name": "t", "entries": [["61", "r", {"hex": hx(b"aaaa")}], ["62", "r", {"hex": hx(b"keep")}]]})
            sc.exec({"op": "fresh", "tree": "t"})
            cfg = sc.repo.get_config()
            cfg.set((b"core",), b"trustctime", b"false")
            cfg.write_to_path()
            full = sc.full(b"a")
            st = os.lstat(full)
            with open(full, "wb") as f:
                f.write(rng.choice([b"bbbb", b"zzzz"]))
            os.utime(full, ns=(st.st_atime_ns, st.st_mtime_ns))
            sc.fs_dirty = True
            exp, real = sc.expected_status(), sc.real_status()
            info["trustctime_false_cases"] += 1
            if b"a" in exp.u and b"a" not in real.u:
                info["trustctime_false_missed_by_dulwich"] += 1
            g = sc.git_status()
            if b"a" in g.u:
                info["trustctime_false_detected_by_git"] += 1
            ctx.count("racy", ("tc", i), True, "missed" if b"a" not in real.u else "seen")
            # the model on the same observation, the ctime taken as equal (trust_ctime off): it must miss it too
            snap = sc.snapshot()
            idx = sc.read_index()
            snap = {p: dict(f, stat=(idx[p][2][0], f["stat"][1], f["stat"][2])) if p in idx else f for p, f in snap.items()}
            sc.tok(sc.wd_tok(snap))
            sc.tok("status", lambda o, real=real: sc.cmp("racy-status", str(parse_model_status(o).show()), str(real.show())))
        finally:
            batch.add(sc)
    sc = Scen(ctx, "racy", "same-tick")
    try:
        sc.exec({"op": "tree", "name": "t", "entries": [["61", "r", {"hex": hx(b"aaaa")}]]})
        sc.exec({"op": "fresh", "tree": "t"})
        full = sc.full(b"a")
        wt = sc.repo.get_worktree()
        for i in range(ctx.budget(60, mult=3)):
            with open(full, "wb") as f:
                f.write(b"aaaa")
            wt.stage([b"a"])
            with open(full, "wb") as f:
                f.write(b"bbbb")
            sc.fs_dirty = True
            info["same_tick_attempts"] += 1
            if not sc.stat_honest():
                info["same_tick_stat_equal"] += 1
                if b"a" not in sc.real_status().u:
                    info["same_tick_missed_by_dulwich"] += 1
            ctx.count("racy", ("tick", i), False)
    finally:
        sc.close()


def _stream_dirty_switch(ctx, batch, stream="dirtyswitch"):
    """Correspondence only: porcelain.checkout(branch) from a state with local edits (the pre-checks of
    update_working_tree and _check_uncommitted_changes): model vs real outcome, files and index."""
    rng = ctx.rng
    for i in range(ctx.budget(30)):
        profile = "plain"
        a = gen_tree(rng, profile, n=rng.choice([2, 4, 7]))
        b = mutate_tree(rng, profile, a)
        sc = Scen(ctx, stream, "dirty")
        try:
            sc.exec({"op": "tree", "name": "a", "entries": a})
            sc.exec({"op": "tree", "name": "b", "entries": b})
            sc.exec({"op": "fresh", "tree": "a"})
            if sc.failed:
                continue
            for _ in range(rng.choice([1, 1, 2, 3])):
                e = _pick_edit(rng, sc, profile)
                if e["op"] != "status":
                    sc.exec(e)
            sc.exec({"op": "switch", "tree": "b", "dirty": True})
            sc.exec({"op": "status"})
            ctx.count(stream, (str(a), str(b), i), True)
        finally:
            batch.add(sc)


def _stream_statmatch(ctx):
    """_stat_matches_entry on random (seconds, nanoseconds) pairs, index entries with 0 nanoseconds over-represented:
    model vs the real function (pure, in-process)."""
    import types
    from dulwich.index import _stat_matches_entry
    rng = ctx.rng
    G = 10 ** 9
    cases = []
    for _ in range(ctx.budget(400)):
        base = rng.choice([0, 1, COMMIT_TIME, 2 ** 31 - 1, 2 ** 32 + 5])

        def ts():
            return (base + rng.choice([0, 0, 0, 1]), rng.choice([0, 0, 1, 5, G - 1, rng.randrange(G)]))
        sc_, sm_, ec_, em_ = ts(), ts(), ts(), ts()
        if rng.random() < 0.5:
            ec_ = (sc_[0], rng.choice([0, sc_[1]]))
        if rng.random() < 0.7:
            em_ = (sm_[0], rng.choice([0, sm_[1]]))
        ssz = rng.choice([0, 4, 5])
        esz = ssz if rng.random() < 0.8 else 4
        cases.append((rng.random() < 0.6, sc_, sm_, ssz, ec_, em_, esz))
    outs = ctx.driver.batch([f"c18.statmatch {int(t)} {a[0] * G + a[1]} {b[0] * G + b[1]} {z} {c[0] * G + c[1]} {d[0] * G + d[1]} {y}"
                             for t, a, b, z, c, d, y in cases])
    for (t, a, b, z, c, d, y), o in zip(cases, outs):
        st_ = types.SimpleNamespace(st_ctime_ns=a[0] * G + a[1], st_mtime_ns=b[0] * G + b[1], st_size=z,
                                    st_ctime=a[0] + a[1] / G, st_mtime=b[0] + b[1] / G)
        en = types.SimpleNamespace(ctime=c, mtime=d, size=y)
        real = "1" if _stat_matches_entry(st_, en, t) else "0"
        ctx.count("statmatch", (t, a, b, z, c, d, y), True, f"{'trust' if t else 'notrust'}:{real}:ensec0={d[1] == 0}")
        if o != real:
            ctx.disagree("statmatch", {"trust": t, "st_ctime": a, "st_mtime": b, "st_size": z, "e_ctime": c, "e_mtime": d, "e_size": y}, o, real)
        # the racy-git rule in the property's own words: equal answers only for equal full-precision keys
        same = (not t or a == c) and b == d and z == y
        if (real == "1") != same:
            ctx.oracle_fail("statmatch", {"trust": t, "st_ctime": a, "st_mtime": b, "st_size": z, "e_ctime": c, "e_mtime": d, "e_size": y},
                            f"_stat_matches_entry says {'match' if real == '1' else 'no match'} for stat keys that are "
                            f"{'equal' if same else 'different'} at full (seconds, nanoseconds) precision")


def _stream_samesecond(ctx, batch, stream="samesecond"):
    """Index entries whose time stamps come from the commit (WorkTree.unstage writes (commit_time, 0) and HEAD's blob
    size) next to files rewritten with the SAME size within the SAME second as the commit time, at a different
    nanosecond: the full-precision stat keys differ (StatHonest holds, checked), so status must report the file."""
    import time
    rng = ctx.rng
    info = ctx.extra_cov.setdefault("samesecond_stream", {"cases": 0, "ctime_in_commit_second": 0, "retries": 0})
    for i in range(ctx.budget(6, mult=4)):
        trust = i % 2 == 0          # default config: the file's ctime has to fall into the commit's second as well
        names = [b"a", rng.choice([b"d/b", b"x.a", b"sp ace"])]
        kinds = [rng.choice(["r", "x"]) for _ in names]
        seq = rng.choice([["mod", "stage", "unstage"], ["mod", "unstage"], ["mod", "stage", "unstage", "mod"],
                          ["stage", "mod", "unstage"], ["mod", "stage", "unstage", "addall"]])
        nsecs = [rng.choice([1, 999, 123456789, 999999999]) for _ in range(8)]
        for attempt in range(8):
            sc = Scen(ctx, stream, "trustctime" if trust else "trustctime=false")
            ok = False
            try:
                sc.exec({"op": "clock", "mode": "now" if trust else COMMIT_TIME + 1000 * i + 7})
                T = sc.commit_time
                sc.exec({"op": "tree", "name": "t", "entries": [[hx(n), k_, {"hex": hx(b"aaaa" + n)}] for n, k_ in zip(names, kinds)]})
                sc.exec({"op": "fresh", "tree": "t"})
                if not trust:
                    sc.exec({"op": "config", "key": "trustctime", "value": "false"})
                    # the model has trust_ctime at its default; this half of the stream is checked by the oracle only
                    sc.model_ok = False
                k = 0
                for op in seq:
                    for n in names:
                        if op == "mod":
                            k += 1
                            sc.exec({"op": "rewrite", "path": hx(n), "k": k, "nsec": nsecs[k % len(nsecs)]})
                        elif op == "stage":
                            sc.exec({"op": "stage", "path": hx(n), "via": "worktree"})
                        elif op == "unstage":
                            sc.exec({"op": "unstage", "path": hx(n)})
                    if op == "addall":
                        sc.exec({"op": "addall"})
                snap = sc.snapshot()
                in_second = all(f["stat"][0] // 10 ** 9 == T for f in snap.values())
                if trust and not in_second:
                    info["retries"] += 1
                    continue                                   # the clock ticked over: the scenario says nothing, retry
                info["cases"] += 1
                info["ctime_in_commit_second"] += int(in_second)
                # (C git 2.39.5 is built without USE_NSEC: it compares whole seconds and, unless the entry is racily
                # clean, misses these rewrites itself -- it is not used as a third party in this stream)
                sc.exec({"op": "status"})
                sc.exec({"op": "addall"})
                sc.exec({"op": "status"})
                ctx.count(stream, (i, attempt), True, f"{'trust' if trust else 'notrust'}:{'-'.join(seq)}")
                ok = True
            finally:
                batch.add(sc)
            if ok:
                break


IWT_VALUES = [None] + [(k, c) for c in (b"a", b"b", b"c") for k in ("r", "x")]
IWT_DIRS = [b"", b"d/", b"d/e/", b"d.x/", b"d/e/f/", b"s/", b"d-x/k/"]


def _iwt_case(ctx, batch, stream, via, combos, label, again=True):
    """one repository, one path per (H, I, W, T) combination, spread over nested sibling directories."""
    sc = Scen(ctx, stream, label)
    try:
        paths = [IWT_DIRS[i % len(IWT_DIRS)] + b"p%d" % i for i in range(len(combos))]
        keep = [[hx(b"keep"), "r", {"hex": hx(b"k")}], [hx(b"d/e/keep"), "r", {"hex": hx(b"k2")}]]

        def ents(j):
            return keep + [[hx(p), c[j][0], {"hex": hx(c[j][1])}] for p, c in zip(paths, combos) if c[j] is not None]
        sc.exec({"op": "tree", "name": "h", "entries": ents(0)})
        sc.exec({"op": "tree", "name": "t", "entries": ents(3)})
        sc.exec({"op": "fresh", "tree": "h"})
        if sc.failed:
            return
        for j, tag in ((1, "I"), (2, "W")):
            for p, c in zip(paths, combos):
                cur = sc.snapshot().get(p)
                want = c[j]
                if want is None:
                    if cur is not None:
                        sc.exec({"op": "unlink", "path": hx(p), "tag": tag})
                elif cur is None or (cur["kind"], cur["cid"]) != (want[0], sc.reg.cid(want[1])):
                    sc.exec({"op": "write", "path": hx(p), "kind": want[0], "content": {"hex": hx(want[1])}, "tag": tag})
                if j == 1:
                    sc.exec({"op": "stage", "path": hx(p), "via": "worktree"})
        sc.exec({"op": "status"})
        sc.exec({"op": "hardreset", "tree": "t", "via": via, "again": again})
        if not sc.failed:
            sc.exec({"op": "status", "git": True})
            if sc.reset_exact:              # (otherwise the deviating paths have been reported one by one)
                sc.exec({"op": "treecheck", "tree": "t", "git": True, "how": via})
        for c in combos:
            ctx.count(stream, (via, c), True, f"{via}:" + ("W=T!=I" if c[2] == c[3] != c[1] else "I=W=T" if c[1] == c[2] == c[3] else
                                                          "W=I!=T" if c[1] == c[2] else "I=T!=W" if c[1] == c[3] else "all-differ"))
    finally:
        batch.add(sc)


def _stream_iwt(ctx, batch, stream="iwt"):
    """(B) histories that END in reset --hard / checkout(force=True) / switch(force=True) with index (I), work tree (W) and
    target (T) three-way different: per path all combinations over {a, b, c, absent} x {644, 755}."""
    import itertools
    rng = ctx.rng
    triples = list(itertools.product(IWT_VALUES, repeat=3))            # 343, all of them, for reset --hard
    rng.shuffle(triples)
    head_fixed = ("r", b"a")
    for i in range(0, len(triples), 49):
        _iwt_case(ctx, batch, stream, "reset", [(rng.choice(IWT_VALUES),) + t for t in triples[i:i + 49]], f"reset-all-{i // 49}")
    quads = list(itertools.product(IWT_VALUES, repeat=4))              # with HEAD's value, for the forced checkouts
    rng.shuffle(quads)
    n = len(quads) if ctx.thorough else 196
    for k, via in enumerate(("checkout", "switch")):
        part = quads[k * n:(k + 1) * n] if not ctx.thorough else quads
        for i in range(0, len(part), 49):
            _iwt_case(ctx, batch, stream, via, part[i:i + 49], f"{via}-{i // 49}", again=(i == 0))


def _gitindex_paths(rng):
    """paths at depth 0..3 with sibling directories."""
    base = [b"top", b"a/x", b"a/b/y", b"a/b/c/z", b"a/b2/y", b"a.b/y", b"d/w", b"d/e/f/g", b"d/e2/g", b"a/b/c/z2"]
    rng.shuffle(base)
    return base[: rng.choice([6, 8, 10])]


def _stream_gitindex(ctx, batch, stream="gitindex"):
    """(A) C git and dulwich working on the SAME index file: git leaves index extensions (cache-tree TREE, UNTR, REUC …),
    dulwich edits the index at paths 0..3 directories deep, and after EVERY dulwich edit git is asked again: git ls-files,
    git write-tree, git status, git diff --cached must show what dulwich and the model hold.  Also the other direction."""
    rng = ctx.rng
    GITW = [
        (["write-tree"], []),
        (["read-tree", "HEAD"], []),
        (["checkout", "-f", "HEAD"], []),
        (["reset", "-q", "--mixed", "HEAD"], []),
        (["add", "-A"], []),
        (["commit", "-q", "--allow-empty", "-m", "c"], []),
        (["update-index", "--refresh"], []),
        (["update-index", "--untracked-cache"], ["core.untrackedCache=true"]),
        (["status", "--porcelain"], ["core.untrackedCache=true"]),
        (["write-tree"], ["index.recordEndOfIndexEntries=true", "index.recordOffsetTable=true", "index.threads=2"]),
        (["add", "-A"], ["index.version=3"]),
        (["update-index", "--index-version", "2"], []),
    ]
    for i in range(ctx.budget(10, mult=6)):
        sc = Scen(ctx, stream, "git<->dulwich")
        try:
            paths = _gitindex_paths(rng)
            sc.exec({"op": "tree", "name": "t", "entries": [[hx(p), rng.choice(["r", "r", "x"]), {"hex": hx(b"v0 " + p)}] for p in paths]})
            sc.exec({"op": "fresh", "tree": "t"})
            if sc.failed:
                continue
            if rng.random() < 0.3:            # a resolved merge conflict leaves a resolve-undo (REUC) extension
                sc.exec({"op": "reuc", "path": hx(rng.choice(paths))})
            ver = 0
            for step in range(rng.choice([4, 6, 9])):
                # 1. C git writes the index
                for _ in range(rng.choice([1, 1, 2])):
                    args, cfg = rng.choice(GITW)
                    sc.exec({"op": "git", "args": args, "config": cfg})
                # 2. dulwich edits the index, somewhere between the top level and three directories down
                snap, idx = sc.snapshot(), sc.read_index()
                kind = rng.choice(["modify+stage", "modify+add", "new+add", "new+idxapi", "delete+stage", "rmc", "idxapi-del", "unstage", "addall", "chmod+stage"])
                ver += 1
                cand = sorted(idx)
                p = rng.choice(cand) if cand else None
                newp = rng.choice([b"", b"a/", b"a/b/", b"a/b/c/", b"d/e/f/", b"n/", b"n/m/o/", b"a/b/n/"]) + b"new%d" % ver
                if kind in ("modify+stage", "modify+add") and p and p in snap:
                    sc.exec({"op": "write", "path": hx(p), "kind": snap[p]["kind"], "content": {"hex": hx(b"v%d " % ver + p)}, "tag": "modify-diff"})
                    sc.exec({"op": "stage", "path": hx(p), "via": "worktree" if kind == "modify+stage" else "porcelain"})
                elif kind == "chmod+stage" and p and p in snap and snap[p]["kind"] != "l":
                    sc.exec({"op": "chmod", "path": hx(p), "mode": 0o644 if snap[p]["kind"] == "x" else 0o755})
                    sc.exec({"op": "stage", "path": hx(p), "via": "worktree"})
                elif kind in ("new+add", "new+idxapi") and not conflicts(newp, list(snap) + list(idx)):
                    sc.exec({"op": "write", "path": hx(newp), "kind": "r", "content": {"hex": hx(b"new %d" % ver)}, "tag": "add-untracked"})
                    sc.exec({"op": "stage", "path": hx(newp), "via": "porcelain"} if kind == "new+add" else {"op": "idxapi", "kind": "set", "path": hx(newp)})
                elif kind == "delete+stage" and p and p in snap:
                    sc.exec({"op": "unlink", "path": hx(p)})
                    sc.exec({"op": "stage", "path": hx(p), "via": "worktree"})
                elif kind == "rmc" and p:
                    sc.exec({"op": "rmc", "path": hx(p)})
                elif kind == "idxapi-del" and p:
                    sc.exec({"op": "idxapi", "kind": "del", "path": hx(p)})
                elif kind == "unstage" and p:
                    sc.exec({"op": "unstage", "path": hx(p)})
                elif kind == "addall":
                    sc.exec({"op": "addall"})
                else:
                    continue
                # 3. C git is asked again, after EVERY dulwich edit
                sc.exec({"op": "gitobserve"})
                ctx.count(stream + ".edit", (i, step), True, f"{kind}:depth{(newp if kind.startswith('new') else (p or b'')).count(b'/')}")
                # 4. the other direction: git edits what dulwich wrote, dulwich reads
                if rng.random() < 0.5:
                    snap, idx = sc.snapshot(), sc.read_index()
                    tracked_on_disk = sorted(q for q in idx if q in snap)
                    gk = rng.choice(["add", "rm-cached", "chmod"])
                    if gk == "add" and tracked_on_disk:
                        q = rng.choice(tracked_on_disk)
                        sc.exec({"op": "write", "path": hx(q), "kind": snap[q]["kind"], "content": {"hex": hx(b"g%d " % ver + q)}, "tag": "modify-diff"})
                        sc.exec({"op": "git", "args": ["add", "--", os.fsdecode(q)]})
                    elif gk == "rm-cached" and idx:
                        sc.exec({"op": "git", "args": ["rm", "-q", "-f", "--cached", "--", os.fsdecode(rng.choice(sorted(idx)))]})
                    elif gk == "chmod" and tracked_on_disk:
                        q = rng.choice(tracked_on_disk)
                        sc.exec({"op": "git", "args": ["update-index", "--chmod=" + ("-x" if idx[q][0] == "x" else "+x"), "--", os.fsdecode(q)]})
                    sc.exec({"op": "status", "git": True})
            ctx.count(stream, i, True)
        finally:
            batch.add(sc)


# configuration keys that select another code path in status / add / open_index (read by dulwich: core.preloadIndex,
# core.trustctime, core.filemode, core.symlinks, core.precomposeunicode, core.ignorecase, core.maxStat, index.version, index.skipHash,
# feature.manyFiles; read by C git only: core.checkStat, core.untrackedCache, status.showUntrackedFiles, core.fsmonitor)
CONFIGS = {
    "default": {},
    "preloadIndex": {"core.preloadIndex": "true"},
    "preloadIndex+trustctime=false": {"core.preloadIndex": "true", "core.trustctime": "false"},
    "trustctime=false": {"core.trustctime": "false"},
    "filemode=false": {"core.filemode": "false"},
    "preloadIndex+filemode=false": {"core.preloadIndex": "true", "core.filemode": "false"},
    "symlinks=false": {"core.symlinks": "false"},
    "checkStat=minimal": {"core.checkStat": "minimal"},
    "ignoreCase": {"core.ignoreCase": "true"},
    "precomposeunicode": {"core.precomposeunicode": "true"},
    "untrackedCache": {"core.untrackedCache": "true"},
    "showUntrackedFiles=no": {"status.showUntrackedFiles": "no"},
    "fsmonitor=false": {"core.fsmonitor": "false"},
    "index.version=4": {"index.version": "4"},
    "index.version=4+preloadIndex": {"index.version": "4", "core.preloadIndex": "true"},
    "skipHash": {"index.skipHash": "true"},
    "manyFiles": {"feature.manyFiles": "true"},
    # core.maxStat is dulwich's own opt-in truncation of the scan; a limit that is not below the index size must change nothing
    "maxStat>=n": {"core.maxStat": "N+2"},
    "preloadIndex+maxStat>=n": {"core.preloadIndex": "true", "core.maxStat": "N+2"},
}
CONFIG_SIZES = [1, 2, 7, 8, 9, 499, 500, 501, 999, 1000, 1001, 1009, 4001]


def _config_case(ctx, batch, stream, cfg_name, n, label=None):
    """one repository with `n` index entries under configuration `cfg_name`; edits at the first, the middle and the last
    few positions of the index order; status (both untracked modes) vs three-way oracle vs git; add-all vs git add -A."""
    cfg = {k: (str(n + 2) if v == "N+2" else v) for k, v in CONFIGS[cfg_name].items()}
    rng = ctx.rng
    sc = Scen(ctx, stream, label or f"{cfg_name}:n{n}")
    kinds, done, git_ok = {}, False, True
    try:
        width = 1 if n <= 9 else (13 if n <= 1100 else 37)
        paths = sorted((b"d%02d/f%05d" % (i % width, i)) if i % 5 else (b"g%05d" % i) for i in range(n))
        link_at = paths[n // 3] if (cfg_name == "symlinks=false" and n >= 7) else None
        ents = [[hx(p), "l" if p == link_at else ("x" if i % 11 == 3 or i in (n // 2, n - 1) else "r"), {"hex": hx(b"target" if p == link_at else b"c%d\n" % (i % 97))}]
                for i, p in enumerate(paths)]
        # the configuration is in place before the checkout (core.symlinks, index.version … act there too)
        sc.exec({"op": "configs", "set": cfg})
        semantic = any(k in cfg for k in ("core.filemode", "core.symlinks", "core.trustctime"))
        git_ok = not any(k in cfg for k in ("index.skipHash", "feature.manyFiles"))      # (C git 2.39 has no index.skipHash)
        sc.exec({"op": "tree", "name": "t", "entries": ents})
        with_model = not semantic and (n <= 9 or (n <= 501 and (ctx.thorough or cfg_name in ("default", "preloadIndex")))
                                       or (n <= 1009 and ctx.thorough and cfg_name == "default"))
        if not with_model:
            sc.model_ok = False          # the model describes the default configuration; its association lists make large
                                         # indexes slow, so most large cases are judged by the oracles alone
        sc.exec({"op": "fresh", "tree": "t", "cfg": True})
        if sc.failed:
            return
        pos = sorted({0, n // 2, n - 1, max(n - 2, 0), max(n - 3, 0), max(n - 4, 0), max(n - 9, 0), n // 7})
        for j, i in enumerate(pos):
            p = paths[i]
            if p == link_at:
                continue
            k = "modify" if i in (0, n // 2, n - 1) or j % 3 == 0 else ("delete" if j % 3 == 1 else "chmod")
            if k == "chmod" and ents[i][1] == "l":
                k = "modify"
            kinds[i] = k
            if k == "modify":
                # same size as the checked-out content except at the first position: only the time stamps (and the
                # content) tell; the scenario is short enough for the edit to fall into the second of the checkout
                body = (b"edited %d\n" % i) if i == 0 and n > 1 else (b"C%d\n" % (i % 97))
                # (core.filemode=false: the rewritten file has no executable bit, the entry keeps the one it had)
                wk = "r" if cfg.get("core.filemode") == "false" else ents[i][1]
                sc.exec({"op": "write", "path": hx(p), "kind": wk, "content": {"hex": hx(body)}, "tag": "modify-diff"})
            elif k == "delete":
                sc.exec({"op": "unlink", "path": hx(p), "tag": "delete"})
            else:
                sc.exec({"op": "chmod", "path": hx(p), "mode": 0o644 if ents[i][1] == "x" else 0o755, "tag": "chmod"})
        if link_at is not None:
            # core.symlinks=false: the plain file standing for the link gets a new target; the entry stays a link
            sc.exec({"op": "write", "path": hx(link_at), "kind": "r", "content": {"hex": hx(b"other-target")}, "tag": "modify-diff"})
        sc.exec({"op": "write", "path": hx(b"zzz-last/new"), "kind": "r", "content": {"hex": hx(b"new")}, "tag": "add-untracked"})
        sc.exec({"op": "write", "path": hx(b"!first"), "kind": "r", "content": {"hex": hx(b"new")}, "tag": "add-untracked"})
        sc.exec({"op": "status", "git": git_ok})
        sc.exec({"op": "addall"})
        if n <= 600 or ctx.thorough:
            sc.exec({"op": "status", "git": git_ok})
        sc.exec({"op": "addallcheck", "git": git_ok})
        if (n <= 501 or ctx.thorough) and not sc.failed:
            # reset --hard to a second commit and a branch switch back under the same configuration: index and work tree
            # are the target, status is clean (contents and executable bits differ at the first / middle / last entries)
            ents2 = []
            for i, (ph, k, spec) in enumerate(ents):
                if n >= 7 and i == n // 7:
                    continue
                if i in pos and k != "l":
                    ents2.append([ph, {"r": "x", "x": "r"}[k] if i % 2 else k, {"hex": hx(b"second %d\n" % i)}])
                else:
                    ents2.append([ph, k, spec])
            ents2.append([hx(b"d00/added"), "x", {"hex": hx(b"added\n")}])
            sc.exec({"op": "tree", "name": "u", "entries": ents2})
            sc.exec({"op": "hardreset", "tree": "u", "via": "reset", "again": True})
            sc.exec({"op": "status", "git": git_ok})
            if not sc.failed:
                # (reset --hard moved the branch `t`; the first tree again, under a branch of its own)
                sc.exec({"op": "tree", "name": "v", "entries": ents})
                sc.exec({"op": "switch", "tree": "v"})
                sc.exec({"op": "status", "git": git_ok})
        tag = f"{cfg_name}:n{n}"
        ctx.count(stream, (cfg_name, n), True, tag)
        done = True
    finally:
        cov = ctx.extra_cov.setdefault("config_stream", {"config_keys": [], "index_sizes": [], "cases": []})
        for k in cfg:
            if k not in cov["config_keys"]:
                cov["config_keys"].append(k)
        if n not in cov["index_sizes"]:
            cov["index_sizes"].append(n)
        cov["cases"].append({"config": cfg_name, "entries": n, "edited_positions": {str(i): kinds[i] for i in kinds}, "git": git_ok,
                             "with_model": bool(sc.checks), "ran_to_the_end": done and not sc.failed})
        batch.add(sc)


def _stream_config(ctx, batch, stream="config"):
    """status / add under NON-DEFAULT configuration on indexes whose size crosses batching thresholds, the edited entries at
    the first, the middle and the LAST positions of the index order."""
    rng = ctx.rng
    names = list(CONFIGS)
    if ctx.thorough:
        plan = [(c, n) for c in names for n in CONFIG_SIZES if n <= 1009 or c in ("default", "preloadIndex", "preloadIndex+trustctime=false", "index.version=4+preloadIndex")]
    else:
        # every configuration at a small and at a threshold-crossing size; the parallel scan also at sizes that are not
        # divisible by 2..8 with the edit at the last entry (1009, 4001)
        git_only = ("checkStat=minimal", "untrackedCache", "showUntrackedFiles=no", "fsmonitor=false")   # keys dulwich does not read
        plan = [(c, rng.choice([1, 2, 7, 8, 9])) for c in names]
        plan += [(c, rng.choice([499, 500, 501] if c in git_only else [499, 500, 501, 999, 1000, 1001, 1009])) for c in names]
        plan += [("preloadIndex", 1009), ("preloadIndex", 4001), ("preloadIndex+filemode=false", 1001), ("default", 1009),
                 ("default", 501)]
        plan = list(dict.fromkeys(plan))
    for c, n in plan:
        _config_case(ctx, batch, stream, c, n)


def _stream_linkdir(ctx, batch, stream="linkdir"):
    """Direct oracle only (outside the model's domain): a tracked directory replaced by a symbolic link to another
    directory; the three-way comparison and git say the tracked paths are gone."""
    rng = ctx.rng
    for i in range(ctx.budget(6)):
        names = rng.sample([b"e", b"f", b"g h", b"\xc3\xa9"], rng.randint(1, 3))
        ents = [[hx(b"d/" + n), rng.choice(["r", "x"]), gen_content(rng)] for n in names]
        for ph, k, spec in list(ents):
            n = unhx(ph)[2:]
            r = rng.random()
            if r < 0.5:
                ents.append([hx(b"o/" + n), k, spec])                  # same file in the other directory
            elif r < 0.8:
                ents.append([hx(b"o/" + n), "r", {"hex": hx(b"different " + n)}])
        ents.append([hx(b"o/keep"), "r", {"hex": hx(b"keep")}])
        sc = Scen(ctx, stream, "linkdir")
        try:
            sc.exec({"op": "tree", "name": "t", "entries": ents})
            sc.exec({"op": "fresh", "tree": "t"})
            if not sc.failed:
                sc.exec({"op": "symlink", "path": hx(b"d"), "target": hx(rng.choice([b"o", b"./o", b"o/"]))})
                sc.exec({"op": "status", "git": True})
            ctx.count(stream, str(ents), True)
        finally:
            batch.add(sc)


def _run_corpus(ctx, batch):
    d = core.VERIF / "corpus" / "C18"
    if not d.exists():
        return
    for f in sorted(d.glob("*.json")):
        c = json.loads(f.read_text())
        _replay_script(ctx, batch, "corpus", c["script"], f.stem)
        ctx.count("corpus", f.stem, True, f.stem)


def _replay_script(ctx, batch, stream, script, label):
    sc = Scen(ctx, stream, label)
    try:
        for step in script:
            if sc.failed:
                break
            try:
                sc.exec(dict(step))
            except core.InfraError:
                raise
            except Exception as e:  # noqa: BLE001 - a recorded step no longer applies
                ctx.notes.append(f"{stream}/{label}: step {step.get('op')} raised {type(e).__name__}: {e}"[:300])
                break
    finally:
        batch.add(sc)


def run(ctx: core.Ctx):
    _hermetic(ctx)
    ctx.assumptions += [
        "StatHonest (racy-git assumption): a file whose (ctime, mtime, size) equals the cached stat key has the cached "
        "content; enforced in the main streams by giving every write of the harness a fresh, strictly increasing mtime "
        "(os.utime) and CHECKED at every status call; the 'racy' stream violates it on purpose and only reports",
        "autocrlf off, no ignore files, no submodules, no sparse checkout, core.filemode/symlinks true except in the 'config' stream (oracles only there), default "
        "core.protectNTFS; generated names avoid the NTFS spellings of .git (C17's subject), symlink loops, and "
        "symbolic links to directories placed above tracked paths (checked by the direct oracle only, stream 'linkdir')",
        "blob ids: the hash is a parameter of the model; the harness computes blob ids with hashlib (not dulwich) and "
        "hands the model one integer per distinct content",
        "comparison with C git in 'normal' untracked mode allows git's omission of an untracked directory d/ whose name d is a "
        "tracked file in the index (git prints only ' D d'); the 'samesecond' stream does not use git (built without "
        "USE_NSEC it compares whole seconds)",
        "what Path.resolve() makes of each symbolic link (LinkRes) and every stat key are observations supplied by the "
        "harness from the real file system (os.path.realpath / os.lstat), not computed by the model",
    ]
    if ctx.thorough and 9_000_000 not in BIG_SIZES:
        BIG_SIZES.append(9_000_000)
    batch = Batch(ctx)
    _stream_modes(ctx)
    _stream_statmatch(ctx)
    _stream_changes(ctx)
    _run_corpus(ctx, batch)
    _stream_samesecond(ctx, batch)
    _stream_roundtrip(ctx, batch)
    _stream_switch(ctx, batch)
    _stream_edits(ctx, batch)
    _stream_config(ctx, batch)
    _stream_iwt(ctx, batch)
    _stream_gitindex(ctx, batch)
    _stream_dirty_switch(ctx, batch)
    _stream_linkdir(ctx, batch)
    _stream_racy(ctx, batch)
    batch.flush()


def search(ctx: core.Ctx):
    """A proof obligation, the translator or the correspondence broke: hit the direct oracle harder."""
    batch = Batch(ctx)
    for rounds in range(3):
        _stream_roundtrip(ctx, batch, n=ctx.budget(60), stream="search.roundtrip")
        _stream_edits(ctx, batch, n=ctx.budget(60), stream="search.edits")
        if ctx.oracle_failures:
            break
    batch.flush()


def replay(ctx: core.Ctx, data: dict) -> int:
    _hermetic(ctx)
    c = data.get("case", {})
    if "st_mtime" in c:       # a stat short-cut case
        import types
        from dulwich.index import _stat_matches_entry
        G = 10 ** 9
        a, b, cc, d = (tuple(c[k]) for k in ("st_ctime", "st_mtime", "e_ctime", "e_mtime"))
        st_ = types.SimpleNamespace(st_ctime_ns=a[0] * G + a[1], st_mtime_ns=b[0] * G + b[1], st_size=c["st_size"],
                                    st_ctime=a[0] + a[1] / G, st_mtime=b[0] + b[1] / G)
        real = bool(_stat_matches_entry(st_, types.SimpleNamespace(ctime=cc, mtime=d, size=c["e_size"]), c["trust"]))
        same = (not c["trust"] or a == cc) and b == d and c["st_size"] == c["e_size"]
        print(f"replay: _stat_matches_entry -> {real}; keys equal at full precision: {same}")
        if real != same:
            print(f"VIOLATION property=C18 replay={data.get('_path', '<replayed>')}")
            return 1
        print("replay: property holds on this case")
        return 0
    script = c.get("script")
    if not script:
        print("replay: no script in this file (broken-obligation replay): re-run ./check C18")
        return 1 if data.get("kind") == "broken-obligation" else 0
    batch = Batch(ctx)
    _replay_script(ctx, batch, "replay", script, "replay")
    batch.flush()
    for f in ctx.oracle_failures:
        print("replay:", f["what"], "| class:", f["class"])
    for k, n in ctx.known_hit.items():
        print(f"replay: known finding {k} hit {n}x")
    if ctx.oracle_failures:
        print(f"VIOLATION property=C18 replay={data.get('_path', '<replayed>')}")
        return 1
    print("replay: property holds on this case" + (" (apart from known findings)" if ctx.known_hit else ""))
    return 0
