"""C16 — ref backends obey one contract; the files backend matches git's own view;
check_ref_format agrees with git check-ref-format on every byte string.

Model: lean/DulwichModel/Model/{RefFormat,Refs,PackedRefs}.lean; theorems: Props/C16.lean.
Tie: translate() regenerates Gen/Refs.lean (the sequence of tests of check_ref_format, BAD_REF_CHARS,
SYMREF, the _check_refname constants, the symref depth limit, the packed-refs header ...); run() drives
the correspondence streams (model vs Dict/Disk/Reftable/Namespaced containers, model vs check_ref_format)
and the direct oracle (a trivially simple map spec executed here + C git on the Disk directory).
"""
from __future__ import annotations

import ast
import re
from pathlib import Path

from .. import core, translate as T
from ..core import hx, unhx

MOD = "c16"


# ------------------------------------------------------------------------------------------------
# translator

def _body(fn: ast.FunctionDef) -> list[ast.stmt]:
    b = list(fn.body)
    if b and isinstance(b[0], ast.Expr) and isinstance(getattr(b[0], "value", None), ast.Constant) \
            and isinstance(b[0].value.value, str):
        b = b[1:]
    return b


def _is_return_false(body) -> bool:
    return len(body) == 1 and isinstance(body[0], ast.Return) and isinstance(body[0].value, ast.Constant) \
        and body[0].value.value is False


def _blit(s: str) -> bytes:
    v = ast.literal_eval(s)
    if not isinstance(v, bytes):
        raise T.TranslateError(f"expected a bytes literal, got {s!r}")
    return v


_B = r"(b'(?:[^'\\]|\\.)*'|b\"(?:[^\"\\]|\\.)*\")"


def _ref_format_tests(tree: ast.Module, bad_chars_name="BAD_REF_CHARS") -> list[str]:
    """The body of check_ref_format as a list of Lean `RefTest` terms, in source order.  Every statement
    must be one of the recognised shapes (`if <test>: return False`, the two loops, final `return True`)."""
    fn = T.find_def(tree, "check_ref_format")
    if [a.arg for a in fn.args.args] != ["refname"]:
        raise T.TranslateError("check_ref_format: unexpected signature")
    body = _body(fn)
    if not body or not (isinstance(body[-1], ast.Return) and isinstance(body[-1].value, ast.Constant)
                        and body[-1].value.value is True):
        raise T.TranslateError("check_ref_format: does not end with `return True`")
    out = []
    for st in body[:-1]:
        if isinstance(st, ast.If):
            if st.orelse or not _is_return_false(st.body):
                raise T.TranslateError(f"check_ref_format: unexpected if-body: {ast.unparse(st)[:80]}")
            s = ast.unparse(st.test)
            m = re.fullmatch(r"refname == " + _B, s)
            if m:
                out.append(f".eqWhole {T.lean_bytes(_blit(m.group(1)))}")
                continue
            m = re.fullmatch(_B + r" not in refname", s)
            if m:
                out.append(f".lacks {T.lean_bytes(_blit(m.group(1)))}")
                continue
            m = re.fullmatch(_B + r" in refname", s)
            if m:
                out.append(f".contains {T.lean_bytes(_blit(m.group(1)))}")
                continue
            m = re.fullmatch(r"refname\[-1\] in " + _B, s)
            if m:
                out.append(f".lastIn {T.lean_bytes(_blit(m.group(1)))}")
                continue
            raise T.TranslateError(f"check_ref_format: unrecognised test `{s}`")
        if isinstance(st, ast.For):
            it, tgt = ast.unparse(st.iter), ast.unparse(st.target)
            if it == "enumerate(refname)" and tgt == "(i, c)":
                if len(st.body) != 1 or not isinstance(st.body[0], ast.If) or st.body[0].orelse \
                        or not _is_return_false(st.body[0].body) or st.orelse:
                    raise T.TranslateError("check_ref_format: unexpected character loop body")
                s = ast.unparse(st.body[0].test)
                m = re.fullmatch(r"ord\(refname\[i:i \+ 1\]\) < (\d+) or c in " + bad_chars_name, s)
                if not m:
                    raise T.TranslateError(f"check_ref_format: unrecognised character test `{s}`")
                out.append(f".charLoop {int(m.group(1))} badRefChars")
                continue
            m = re.fullmatch(r"refname\.split\(" + _B + r"\)", it)
            if m and tgt == "component" and not st.orelse:
                sep = _blit(m.group(1))
                if len(sep) != 1:
                    raise T.TranslateError("check_ref_format: component separator is not a single byte")
                cts = []
                for s2 in st.body:
                    if not isinstance(s2, ast.If) or s2.orelse or not _is_return_false(s2.body):
                        raise T.TranslateError("check_ref_format: unexpected component loop body")
                    s = ast.unparse(s2.test)
                    if s == "not component":
                        cts.append(".empty")
                        continue
                    m2 = re.fullmatch(r"component\.startswith\(" + _B + r"\)", s)
                    if m2:
                        cts.append(f".startsWith {T.lean_bytes(_blit(m2.group(1)))}")
                        continue
                    m2 = re.fullmatch(r"component\.endswith\(" + _B + r"\)", s)
                    if m2:
                        cts.append(f".endsWith {T.lean_bytes(_blit(m2.group(1)))}")
                        continue
                    raise T.TranslateError(f"check_ref_format: unrecognised component test `{s}`")
                out.append(f".components {sep[0]} [{', '.join(cts)}]")
                continue
            raise T.TranslateError(f"check_ref_format: unrecognised loop over `{it}`")
        raise T.TranslateError(f"check_ref_format: unrecognised statement `{ast.unparse(st)[:80]}`")
    return out


def _newtype_const(tree: ast.Module, name: str) -> bytes:
    """NAME = Ref(b"...") / ObjectID(b"0" * 40) / plain bytes."""
    for st in tree.body:
        if (isinstance(st, ast.Assign) and any(isinstance(t, ast.Name) and t.id == name for t in st.targets)) or \
                (isinstance(st, ast.AnnAssign) and isinstance(st.target, ast.Name) and st.target.id == name
                 and st.value is not None):
            v = st.value
            if isinstance(v, ast.Call) and isinstance(v.func, ast.Name) and v.func.id in ("Ref", "ObjectID") \
                    and len(v.args) == 1:
                v = v.args[0]
            r = T.eval_literal(v, tree)
            if not isinstance(r, bytes):
                raise T.TranslateError(f"{name} is not bytes")
            return r
    raise T.TranslateError(f"constant {name!r} not found")


def _match_src(what: str, stmts: list[ast.stmt], template: str) -> re.Match:
    """Whole-body match of a small function against the text the model was written for; the capture
    groups are the constants.  Any structural edit breaks the match (TranslateError = broken tie)."""
    src = "\n".join(ast.unparse(s) for s in stmts)
    m = re.fullmatch(template, src, re.S)
    if not m:
        raise T.TranslateError(f"{what}: body no longer matches the shape the model was written for:\n{src[:600]}")
    return m


def _esc(s: str) -> str:
    """regex-escape a template, keeping the capture-group placeholders  «B» (bytes literal) and «N» (int)."""
    return re.escape(s).replace("«B»", _B).replace("«N»", r"(\d+)")


def translate(repo: Path) -> dict:
    tree = T.module_ast(repo / "dulwich" / "refs.py")
    otree = T.module_ast(repo / "dulwich" / "objects.py")
    symref = T.const_value(tree, "SYMREF")
    headref = _newtype_const(tree, "HEADREF")
    tagprefix = T.const_value(tree, "LOCAL_TAG_PREFIX")
    bad = T.const_value(tree, "BAD_REF_CHARS")
    if not isinstance(bad, (set, frozenset)) or not all(isinstance(x, int) and 0 <= x < 256 for x in bad):
        raise T.TranslateError("BAD_REF_CHARS is not a set of byte values")
    zero = _newtype_const(otree, "ZERO_SHA")
    tests = _ref_format_tests(tree)

    # _check_refname
    m = _match_src("_check_refname", _body(T.find_def(tree, "RefsContainer._check_refname")), _esc(
        "if name in (HEADREF, Ref(«B»)):\n    return\n"
        "if not name.startswith(«B»):\n    raise RefFormatError(name)\n"
        "rest = Ref(name[«N»:])\n"
        "if check_ref_format(rest):\n    return\n"
        "if «B» in name and check_ref_format(Ref(_collapse_slashes(rest))):\n    warnings.warn(") + r"[^\n]*" + _esc(
        "\n    return\n"
        "raise RefFormatError(name)"))
    stash, refs_prefix, prefix_len, dslash = _blit(m.group(1)), _blit(m.group(2)), int(m.group(3)), _blit(m.group(4))
    m = _match_src("_collapse_slashes", _body(T.find_def(tree, "_collapse_slashes")), _esc(
        "return «B».join((component for component in refname.split(«B») if component))"))
    if _blit(m.group(1)) != b"/" or _blit(m.group(2)) != b"/":
        raise T.TranslateError("_collapse_slashes: separator is not b'/'")

    # RefsContainer.follow / read_ref / __getitem__ / __contains__ (base class, shared by all backends)
    m = _match_src("RefsContainer.follow", _body(T.find_def(tree, "RefsContainer.follow")), _esc(
        "contents: bytes | None = SYMREF + name\n"
        "depth = 0\n"
        "refnames: list[Ref] = []\n"
        "while contents and contents.startswith(SYMREF):\n"
        "    refname = Ref(contents[len(SYMREF):])\n"
        "    refnames.append(refname)\n"
        "    contents = self.read_ref(refname)\n"
        "    if not contents:\n"
        "        break\n"
        "    depth += 1\n"
        "    if depth > «N»:\n"
        "        raise SymrefLoop(name, depth)\n"
        "return (refnames, ObjectID(contents) if contents else None)"))
    max_depth = int(m.group(1))
    _match_src("RefsContainer.read_ref", _body(T.find_def(tree, "RefsContainer.read_ref")), _esc(
        "contents = self.read_loose_ref(refname)\n"
        "if not contents:\n"
        "    contents = self.get_packed_refs().get(refname, None)\n"
        "return contents"))

    # valid_hexsha (objects.py)
    m = _match_src("valid_hexsha", _body(T.find_def(otree, "valid_hexsha")), _esc(
        "if len(hex) not in («N», «N»):\n    return False\n"
        "try:\n    binascii.unhexlify(hex)\n"
        "except (TypeError, binascii.Error):\n    return False\n"
        "else:\n    return True"))
    hexlens = [int(m.group(1)), int(m.group(2))]

    # packed-refs writer / reader
    m = _match_src("write_packed_refs", _body(T.find_def(tree, "write_packed_refs")), _esc(
        "if peeled_refs is None:\n    peeled_refs = {}\n"
        "else:\n    f.write(«B»)\n"
        "for refname in sorted(packed_refs.keys()):\n"
        "    f.write(git_line(packed_refs[refname], refname))\n"
        "    if refname in peeled_refs:\n"
        "        f.write(«B» + peeled_refs[refname] + «B»)"))
    header, caret, nl = _blit(m.group(1)), _blit(m.group(2)), _blit(m.group(3))
    if len(caret) != 1 or nl != b"\n" or not header.endswith(b"\n"):
        raise T.TranslateError("write_packed_refs: unexpected peeled-line framing")
    m = _match_src("git_line", _body(T.find_def(otree, "git_line")), _esc("return «B».join(items) + «B»"))
    if _blit(m.group(1)) != b" " or _blit(m.group(2)) != b"\n":
        raise T.TranslateError("git_line: separator/terminator changed")
    m = _match_src("_split_ref_line", _body(T.find_def(tree, "_split_ref_line")), _esc(
        "fields = line.rstrip(«B»).split(«B»)\n"
        "if len(fields) != 2:\n    raise PackedRefsException(f'invalid ref line {line!r}')\n"
        "sha, name = fields\n"
        "if not valid_hexsha(sha):\n    raise PackedRefsException(f'Invalid hex sha {sha!r}')\n"
        "if not check_ref_format(Ref(name)):\n    raise PackedRefsException(f'invalid ref name {name!r}')\n"
        "return (ObjectID(sha), Ref(name))"))
    if set(_blit(m.group(1))) != set(b"\r\n") or _blit(m.group(2)) != b" ":
        raise T.TranslateError("_split_ref_line: strip set / separator changed")
    m = _match_src("read_packed_refs_with_peeled", _body(T.find_def(tree, "read_packed_refs_with_peeled")), _esc(
        "last = None\n"
        "for line in f:\n"
        "    if line.startswith(«B»):\n        continue\n"
        "    line = line.rstrip(«B»)\n"
        "    if line.startswith(«B»):\n"
        "        if not last:\n            raise PackedRefsException('unexpected peeled ref line')\n"
        "        if not valid_hexsha(line[1:]):\n            raise PackedRefsException(f'Invalid hex sha {line[1:]!r}')\n"
        "        sha, name = _split_ref_line(last)\n"
        "        last = None\n"
        "        yield (sha, name, ObjectID(line[1:]))\n"
        "    else:\n"
        "        if last:\n            sha, name = _split_ref_line(last)\n            yield (sha, name, None)\n"
        "        last = line\n"
        "if last:\n    sha, name = _split_ref_line(last)\n    yield (sha, name, None)"))
    comment, rd_caret = _blit(m.group(1)), _blit(m.group(3))
    if len(comment) != 1 or rd_caret != caret or set(_blit(m.group(2))) != set(b"\r\n"):
        raise T.TranslateError("read_packed_refs_with_peeled: comment/peeled markers changed")
    # header probe in DiskRefsContainer.get_packed_refs
    gp = ast.unparse(T.find_def(tree, "DiskRefsContainer.get_packed_refs"))
    m = re.search(r"if first_line\.startswith\(" + _B + r"\) and " + _B + r" in first_line:", gp)
    if not m:
        raise T.TranslateError("DiskRefsContainer.get_packed_refs: header probe not found")
    probe1, probe2 = _blit(m.group(1)), _blit(m.group(2))
    # pack_refs: which refs are packed when all=False
    pr = ast.unparse(T.find_def(tree, "DiskRefsContainer.pack_refs"))
    if "if all or ref.startswith(LOCAL_TAG_PREFIX):" not in pr or "if ref == HEADREF:" not in pr:
        raise T.TranslateError("DiskRefsContainer.pack_refs: selection test not found")

    LB = T.lean_bytes
    src = T.lean_header("dulwich/refs.py: check_ref_format (sequence of tests), BAD_REF_CHARS, SYMREF, HEADREF, "
                        "LOCAL_TAG_PREFIX, _check_refname, RefsContainer.follow, write_packed_refs, "
                        "read_packed_refs_with_peeled, _split_ref_line, get_packed_refs header probe; "
                        "dulwich/objects.py: ZERO_SHA, valid_hexsha, git_line") + f"""
namespace Dulwich.Gen.Refs

/-- one test of the component loop of `check_ref_format`; a test that fires means `return False` -/
inductive CompTest where
  | empty                              -- `if not component`
  | startsWith (lit : List UInt8)      -- `if component.startswith(lit)`
  | endsWith (lit : List UInt8)        -- `if component.endswith(lit)`
  deriving Repr, DecidableEq

/-- one statement of `check_ref_format`; a test that fires means `return False` -/
inductive RefTest where
  | eqWhole (lit : List UInt8)                         -- `if refname == lit`
  | lacks (lit : List UInt8)                           -- `if lit not in refname`
  | contains (lit : List UInt8)                        -- `if lit in refname`
  | charLoop (limit : Nat) (bad : List UInt8)          -- `for c: if c < limit or c in BAD_REF_CHARS`
  | lastIn (set : List UInt8)                          -- `if refname[-1] in set` (IndexError on empty)
  | components (sep : UInt8) (tests : List CompTest)   -- `for component in refname.split(sep): ...`
  deriving Repr, DecidableEq

/-- `BAD_REF_CHARS` (sorted) -/
def badRefChars : List UInt8 := {LB(bytes(sorted(bad)))}
/-- the statements of `check_ref_format`, in source order, followed by `return True` -/
def checkRefFormatTests : List RefTest := [
  {(","+chr(10)+"  ").join(tests)}]
/-- `SYMREF` -/
def symref : List UInt8 := {LB(symref)}
/-- `HEADREF` -/
def headRef : List UInt8 := {LB(headref)}
/-- the other name `_check_refname` accepts outright -/
def stashRef : List UInt8 := {LB(stash)}
/-- `name.startswith(...)` in `_check_refname` -/
def refsPrefix : List UInt8 := {LB(refs_prefix)}
/-- `rest = name[N:]` in `_check_refname` -/
def refsPrefixLen : Nat := {prefix_len}
/-- the `b"//" in name` escape hatch of `_check_refname` -/
def doubleSlash : List UInt8 := {LB(dslash)}
/-- `LOCAL_TAG_PREFIX` (what `pack_refs(all=False)` packs) -/
def localTagPrefix : List UInt8 := {LB(tagprefix)}
/-- `ZERO_SHA` -/
def zeroSha : List UInt8 := {LB(zero)}
/-- `if depth > N: raise SymrefLoop` in `RefsContainer.follow` -/
def symrefMaxDepth : Nat := {max_depth}
/-- lengths `valid_hexsha` accepts -/
def hexShaLengths : List Nat := [{hexlens[0]}, {hexlens[1]}]
/-- header line `write_packed_refs` emits when a peeled map is given -/
def packedHeader : List UInt8 := {LB(header)}
/-- `first_line.startswith(A) and B in first_line` in `get_packed_refs` -/
def packedHeaderProbe1 : List UInt8 := {LB(probe1)}
def packedHeaderProbe2 : List UInt8 := {LB(probe2)}
/-- comment marker and peeled-line marker of the packed-refs reader/writer -/
def packedComment : UInt8 := {comment[0]}
def packedCaret : UInt8 := {caret[0]}

end Dulwich.Gen.Refs
"""
    return {"Refs": src}
