"""C16 — ref backends obey one contract; the files backend matches git's own view;
check_ref_format agrees with git check-ref-format on every byte string.

Model: lean/DulwichModel/Model/{RefFormat,Refs,PackedRefs}.lean (the code after the C16 fix series; the model of
the code before it is kept in Model/RefsOld.lean for the regression witnesses); theorems: Props/C16.lean.
Tie: translate() regenerates Gen/Refs.lean (the sequence of tests of check_ref_format, BAD_REF_CHARS,
SYMREF, the _check_refname constants, the symref depth limit, the packed-refs header ...); run() drives
the correspondence streams (model vs Dict/Disk/Reftable/Namespaced containers, model vs check_ref_format)
and the direct oracle (a trivially simple map spec executed here + C git on the Disk directory).
"""
from __future__ import annotations

import ast
import re
from pathlib import Path

from .. import core, translate as T
from ..core import hx, unhx

MOD = "c16"


# ------------------------------------------------------------------------------------------------
# translator

def _body(fn: ast.FunctionDef) -> list[ast.stmt]:
    b = list(fn.body)
    if b and isinstance(b[0], ast.Expr) and isinstance(getattr(b[0], "value", None), ast.Constant) \
            and isinstance(b[0].value.value, str):
        b = b[1:]
    return b


def _is_return_false(body) -> bool:
    return len(body) == 1 and isinstance(body[0], ast.Return) and isinstance(body[0].value, ast.Constant) \
        and body[0].value.value is False


def _blit(s: str) -> bytes:
    v = ast.literal_eval(s)
    if not isinstance(v, bytes):
        raise T.TranslateError(f"expected a bytes literal, got {s!r}")
    return v


_B = r"(b'(?:[^'\\]|\\.)*'|b\"(?:[^\"\\]|\\.)*\")"


def _ref_format_tests(tree: ast.Module, bad_chars_name="BAD_REF_CHARS") -> list[str]:
    """The body of check_ref_format as a list of Lean `RefTest` terms, in source order.  Every statement
    must be one of the recognised shapes (`if <test>: return False`, the two loops, final `return True`)."""
    fn = T.find_def(tree, "check_ref_format")
    if [a.arg for a in fn.args.args] != ["refname"]:
        raise T.TranslateError("check_ref_format: unexpected signature")
    body = _body(fn)
    if not body or not (isinstance(body[-1], ast.Return) and isinstance(body[-1].value, ast.Constant)
                        and body[-1].value.value is True):
        raise T.TranslateError("check_ref_format: does not end with `return True`")
    out = []
    for st in body[:-1]:
        if isinstance(st, ast.If):
            if st.orelse or not _is_return_false(st.body):
                raise T.TranslateError(f"check_ref_format: unexpected if-body: {ast.unparse(st)[:80]}")
            s = ast.unparse(st.test)
            m = re.fullmatch(r"refname == " + _B, s)
            if m:
                out.append(f".eqWhole {T.lean_bytes(_blit(m.group(1)))}")
                continue
            m = re.fullmatch(_B + r" not in refname", s)
            if m:
                out.append(f".lacks {T.lean_bytes(_blit(m.group(1)))}")
                continue
            m = re.fullmatch(_B + r" in refname", s)
            if m:
                out.append(f".contains {T.lean_bytes(_blit(m.group(1)))}")
                continue
            m = re.fullmatch(r"refname\[-1\] in " + _B, s)
            if m:
                out.append(f".lastIn {T.lean_bytes(_blit(m.group(1)))}")
                continue
            raise T.TranslateError(f"check_ref_format: unrecognised test `{s}`")
        if isinstance(st, ast.For):
            it, tgt = ast.unparse(st.iter), ast.unparse(st.target)
            if it == "enumerate(refname)" and tgt == "(i, c)":
                if len(st.body) != 1 or not isinstance(st.body[0], ast.If) or st.body[0].orelse \
                        or not _is_return_false(st.body[0].body) or st.orelse:
                    raise T.TranslateError("check_ref_format: unexpected character loop body")
                s = ast.unparse(st.body[0].test)
                m = re.fullmatch(r"ord\(refname\[i:i \+ 1\]\) < (\d+) or c in " + bad_chars_name, s)
                if not m:
                    raise T.TranslateError(f"check_ref_format: unrecognised character test `{s}`")
                out.append(f".charLoop {int(m.group(1))} badRefChars")
                continue
            m = re.fullmatch(r"refname\.split\(" + _B + r"\)", it)
            if m and tgt == "component" and not st.orelse:
                sep = _blit(m.group(1))
                if len(sep) != 1:
                    raise T.TranslateError("check_ref_format: component separator is not a single byte")
                cts = []
                for s2 in st.body:
                    if not isinstance(s2, ast.If) or s2.orelse or not _is_return_false(s2.body):
                        raise T.TranslateError("check_ref_format: unexpected component loop body")
                    s = ast.unparse(s2.test)
                    if s == "not component":
                        cts.append(".empty")
                        continue
                    m2 = re.fullmatch(r"component\.startswith\(" + _B + r"\)", s)
                    if m2:
                        cts.append(f".startsWith {T.lean_bytes(_blit(m2.group(1)))}")
                        continue
                    m2 = re.fullmatch(r"component\.endswith\(" + _B + r"\)", s)
                    if m2:
                        cts.append(f".endsWith {T.lean_bytes(_blit(m2.group(1)))}")
                        continue
                    raise T.TranslateError(f"check_ref_format: unrecognised component test `{s}`")
                out.append(f".components {sep[0]} [{', '.join(cts)}]")
                continue
            raise T.TranslateError(f"check_ref_format: unrecognised loop over `{it}`")
        raise T.TranslateError(f"check_ref_format: unrecognised statement `{ast.unparse(st)[:80]}`")
    return out


def _newtype_const(tree: ast.Module, name: str) -> bytes:
    """NAME = Ref(b"...") / ObjectID(b"0" * 40) / plain bytes."""
    for st in tree.body:
        if (isinstance(st, ast.Assign) and any(isinstance(t, ast.Name) and t.id == name for t in st.targets)) or \
                (isinstance(st, ast.AnnAssign) and isinstance(st.target, ast.Name) and st.target.id == name
                 and st.value is not None):
            v = st.value
            if isinstance(v, ast.Call) and isinstance(v.func, ast.Name) and v.func.id in ("Ref", "ObjectID") \
                    and len(v.args) == 1:
                v = v.args[0]
            r = T.eval_literal(v, tree)
            if not isinstance(r, bytes):
                raise T.TranslateError(f"{name} is not bytes")
            return r
    raise T.TranslateError(f"constant {name!r} not found")


def _match_src(what: str, stmts: list[ast.stmt], template: str) -> re.Match:
    """Whole-body match of a small function against the text the model was written for; the capture
    groups are the constants.  Any structural edit breaks the match (TranslateError = broken tie)."""
    src = "\n".join(ast.unparse(s) for s in stmts)
    m = re.fullmatch(template, src, re.S)
    if not m:
        raise T.TranslateError(f"{what}: body no longer matches the shape the model was written for:\n{src[:600]}")
    return m


def _esc(s: str) -> str:
    """regex-escape a template, keeping the capture-group placeholders  «B» (bytes literal) and «N» (int)."""
    return re.escape(s).replace("«B»", _B).replace("«N»", r"(\d+)")


def translate(repo: Path) -> dict:
    tree = T.module_ast(repo / "dulwich" / "refs.py")
    otree = T.module_ast(repo / "dulwich" / "objects.py")
    symref = T.const_value(tree, "SYMREF")
    headref = _newtype_const(tree, "HEADREF")
    tagprefix = T.const_value(tree, "LOCAL_TAG_PREFIX")
    bad = T.const_value(tree, "BAD_REF_CHARS")
    if not isinstance(bad, (set, frozenset)) or not all(isinstance(x, int) and 0 <= x < 256 for x in bad):
        raise T.TranslateError("BAD_REF_CHARS is not a set of byte values")
    zero = _newtype_const(otree, "ZERO_SHA")
    tests = _ref_format_tests(tree)

    # _check_refname
    m = _match_src("_check_refname", _body(T.find_def(tree, "RefsContainer._check_refname")), _esc(
        "if name in (HEADREF, Ref(«B»)):\n    return\n"
        "if not name.startswith(«B»):\n    raise RefFormatError(name)\n"
        "rest = Ref(name[«N»:])\n"
        "if check_ref_format(rest):\n    return\n"
        "if «B» in name and check_ref_format(Ref(_collapse_slashes(rest))):\n    warnings.warn(") + r"[^\n]*" + _esc(
        "\n    return\n"
        "raise RefFormatError(name)"))
    stash, refs_prefix, prefix_len, dslash = _blit(m.group(1)), _blit(m.group(2)), int(m.group(3)), _blit(m.group(4))
    m = _match_src("_collapse_slashes", _body(T.find_def(tree, "_collapse_slashes")), _esc(
        "return «B».join((component for component in refname.split(«B») if component))"))
    if _blit(m.group(1)) != b"/" or _blit(m.group(2)) != b"/":
        raise T.TranslateError("_collapse_slashes: separator is not b'/'")

    # RefsContainer.follow / read_ref / __getitem__ / __contains__ (base class, shared by all backends)
    m = _match_src("RefsContainer.follow", _body(T.find_def(tree, "RefsContainer.follow")), _esc(
        "contents: bytes | None = SYMREF + name\n"
        "depth = 0\n"
        "refnames: list[Ref] = []\n"
        "while contents and contents.startswith(SYMREF):\n"
        "    refname = Ref(contents[len(SYMREF):])\n"
        "    refnames.append(refname)\n"
        "    contents = self.read_ref(refname)\n"
        "    if not contents:\n"
        "        break\n"
        "    depth += 1\n"
        "    if depth «CMP» «LIMIT»:\n"
        "        raise SymrefLoop(name, depth)\n"
        "return (refnames, ObjectID(contents) if contents else None)").replace("«CMP»", "(>=|>)")
                   .replace("«LIMIT»", r"(\d+|[A-Za-z_][A-Za-z_0-9]*)"))
    depth_cmp, depth_limit = m.group(1), m.group(2)
    depth_limit = int(depth_limit) if depth_limit.isdigit() else T.const_value(tree, depth_limit)
    if not isinstance(depth_limit, int) or depth_limit < 1:
        raise T.TranslateError(f"RefsContainer.follow: depth limit {depth_limit!r} is not a positive integer")
    # `depth` counts successful reads; `>` N lets N of them through, `>=` N only N-1
    max_depth = depth_limit if depth_cmp == ">" else depth_limit - 1
    _match_src("RefsContainer.read_ref", _body(T.find_def(tree, "RefsContainer.read_ref")), _esc(
        "contents = self.read_loose_ref(refname)\n"
        "if not contents:\n"
        "    contents = self.get_packed_refs().get(refname, None)\n"
        "return contents"))

    # valid_hexsha (objects.py)
    m = _match_src("valid_hexsha", _body(T.find_def(otree, "valid_hexsha")), _esc(
        "if len(hex) not in («N», «N»):\n    return False\n"
        "try:\n    binascii.unhexlify(hex)\n"
        "except (TypeError, binascii.Error):\n    return False\n"
        "else:\n    return True"))
    hexlens = [int(m.group(1)), int(m.group(2))]

    # packed-refs writer / reader
    m = _match_src("write_packed_refs", _body(T.find_def(tree, "write_packed_refs")), _esc(
        "if peeled_refs is None:\n    peeled_refs = {}\n"
        "else:\n    f.write(«B»)\n"
        "for refname in sorted(packed_refs.keys()):\n"
        "    f.write(git_line(packed_refs[refname], refname))\n"
        "    if refname in peeled_refs:\n"
        "        f.write(«B» + peeled_refs[refname] + «B»)"))
    header, caret, nl = _blit(m.group(1)), _blit(m.group(2)), _blit(m.group(3))
    if len(caret) != 1 or nl != b"\n" or not header.endswith(b"\n"):
        raise T.TranslateError("write_packed_refs: unexpected peeled-line framing")
    m = _match_src("git_line", _body(T.find_def(otree, "git_line")), _esc("return «B».join(items) + «B»"))
    if _blit(m.group(1)) != b" " or _blit(m.group(2)) != b"\n":
        raise T.TranslateError("git_line: separator/terminator changed")
    m = _match_src("_split_ref_line", _body(T.find_def(tree, "_split_ref_line")), _esc(
        "fields = line.rstrip(«B»).split(«B»)\n"
        "if len(fields) != 2:\n    raise PackedRefsException(f'invalid ref line {line!r}')\n"
        "sha, name = fields\n"
        "if not valid_hexsha(sha):\n    raise PackedRefsException(f'Invalid hex sha {sha!r}')\n"
        "if not check_ref_format(Ref(name)):\n    raise PackedRefsException(f'invalid ref name {name!r}')\n"
        "return (ObjectID(sha), Ref(name))"))
    if set(_blit(m.group(1))) != set(b"\r\n") or _blit(m.group(2)) != b" ":
        raise T.TranslateError("_split_ref_line: strip set / separator changed")
    m = _match_src("read_packed_refs_with_peeled", _body(T.find_def(tree, "read_packed_refs_with_peeled")), _esc(
        "last = None\n"
        "for line in f:\n"
        "    if line.startswith(«B»):\n        continue\n"
        "    line = line.rstrip(«B»)\n"
        "    if line.startswith(«B»):\n"
        "        if not last:\n            raise PackedRefsException('unexpected peeled ref line')\n"
        "        if not valid_hexsha(line[1:]):\n            raise PackedRefsException(f'Invalid hex sha {line[1:]!r}')\n"
        "        sha, name = _split_ref_line(last)\n"
        "        last = None\n"
        "        yield (sha, name, ObjectID(line[1:]))\n"
        "    else:\n"
        "        if last:\n            sha, name = _split_ref_line(last)\n            yield (sha, name, None)\n"
        "        last = line\n"
        "if last:\n    sha, name = _split_ref_line(last)\n    yield (sha, name, None)"))
    comment, rd_caret = _blit(m.group(1)), _blit(m.group(3))
    if len(comment) != 1 or rd_caret != caret or set(_blit(m.group(2))) != set(b"\r\n"):
        raise T.TranslateError("read_packed_refs_with_peeled: comment/peeled markers changed")
    # header probe in DiskRefsContainer.get_packed_refs
    gp = ast.unparse(T.find_def(tree, "DiskRefsContainer.get_packed_refs"))
    m = re.search(r"if first_line\.startswith\(" + _B + r"\) and " + _B + r" in first_line:", gp)
    if not m:
        raise T.TranslateError("DiskRefsContainer.get_packed_refs: header probe not found")
    probe1, probe2 = _blit(m.group(1)), _blit(m.group(2))
    # _check_packed_conflict: leading parts looked up one by one, descendants by a FULL SCAN of the packed names
    # (the model's `packedConflict` is `any` over all of them; a positional lookup is a different function)
    m = _match_src("DiskRefsContainer._check_packed_conflict",
                   _body(T.find_def(tree, "DiskRefsContainer._check_packed_conflict")), _esc(
        "packed_refs = self.get_packed_refs()\n"
        "probe_ref = Ref(os.path.dirname(name))\n"
        "while probe_ref:\n"
        "    if packed_refs.get(probe_ref, None) is not None:\n"
        "        raise NotADirectoryError(filename)\n"
        "    probe_ref = Ref(os.path.dirname(probe_ref))\n"
        "prefix = name + «B»\n"
        "for ref in packed_refs:\n"
        "    if ref.startswith(prefix):\n"
        "        raise IsADirectoryError(filename)"))
    if _blit(m.group(1)) != b"/":
        raise T.TranslateError("_check_packed_conflict: the descendant prefix is not name + b'/'")
    for writer, arg in (("set_symbolic_ref", "name"), ("set_if_equals", "realname"), ("add_if_new", "realname")):
        if f"self._check_packed_conflict({arg}, filename)" not in ast.unparse(T.find_def(tree, "DiskRefsContainer." + writer)):
            raise T.TranslateError(f"DiskRefsContainer.{writer}: no call of _check_packed_conflict({arg}, filename)")
    # pack_refs: which refs are packed when all=False
    pr = ast.unparse(T.find_def(tree, "DiskRefsContainer.pack_refs"))
    if "if all or ref.startswith(LOCAL_TAG_PREFIX):" not in pr or "if ref == HEADREF:" not in pr:
        raise T.TranslateError("DiskRefsContainer.pack_refs: selection test not found")

    LB = T.lean_bytes
    src = T.lean_header("dulwich/refs.py: check_ref_format (sequence of tests), BAD_REF_CHARS, SYMREF, HEADREF, "
                        "LOCAL_TAG_PREFIX, _check_refname, RefsContainer.follow, write_packed_refs, "
                        "read_packed_refs_with_peeled, _split_ref_line, get_packed_refs header probe; "
                        "dulwich/objects.py: ZERO_SHA, valid_hexsha, git_line") + f"""
namespace Dulwich.Gen.Refs

/-- one test of the component loop of `check_ref_format`; a test that fires means `return False` -/
inductive CompTest where
  | empty                              -- `if not component`
  | startsWith (lit : List UInt8)      -- `if component.startswith(lit)`
  | endsWith (lit : List UInt8)        -- `if component.endswith(lit)`
  deriving Repr, DecidableEq

/-- one statement of `check_ref_format`; a test that fires means `return False` -/
inductive RefTest where
  | eqWhole (lit : List UInt8)                         -- `if refname == lit`
  | lacks (lit : List UInt8)                           -- `if lit not in refname`
  | contains (lit : List UInt8)                        -- `if lit in refname`
  | charLoop (limit : Nat) (bad : List UInt8)          -- `for c: if c < limit or c in BAD_REF_CHARS`
  | lastIn (set : List UInt8)                          -- `if refname[-1] in set` (IndexError on empty)
  | components (sep : UInt8) (tests : List CompTest)   -- `for component in refname.split(sep): ...`
  deriving Repr, DecidableEq

/-- `BAD_REF_CHARS` (sorted) -/
def badRefChars : List UInt8 := {LB(bytes(sorted(bad)))}
/-- the statements of `check_ref_format`, in source order, followed by `return True` -/
def checkRefFormatTests : List RefTest := [
  {(","+chr(10)+"  ").join(tests)}]
/-- `SYMREF` -/
def symref : List UInt8 := {LB(symref)}
/-- `HEADREF` -/
def headRef : List UInt8 := {LB(headref)}
/-- the other name `_check_refname` accepts outright -/
def stashRef : List UInt8 := {LB(stash)}
/-- `name.startswith(...)` in `_check_refname` -/
def refsPrefix : List UInt8 := {LB(refs_prefix)}
/-- `rest = name[N:]` in `_check_refname` -/
def refsPrefixLen : Nat := {prefix_len}
/-- the `b"//" in name` escape hatch of `_check_refname` -/
def doubleSlash : List UInt8 := {LB(dslash)}
/-- `LOCAL_TAG_PREFIX` (what `pack_refs(all=False)` packs) -/
def localTagPrefix : List UInt8 := {LB(tagprefix)}
/-- `ZERO_SHA` -/
def zeroSha : List UInt8 := {LB(zero)}
/-- `if depth <cmp> <limit>: raise SymrefLoop` in `RefsContainer.follow`: the comparison as written -/
def symrefDepthLimit : Nat := {depth_limit}
def symrefDepthStrict : Bool := {"true" if depth_cmp == ">" else "false"}   -- true: `>`, false: `>=`
/-- … and what it amounts to: the number of successful reads `follow` performs without raising
(`limit` for `>`, `limit - 1` for `>=`) -/
def symrefMaxDepth : Nat := {max_depth}
/-- lengths `valid_hexsha` accepts -/
def hexShaLengths : List Nat := [{hexlens[0]}, {hexlens[1]}]
/-- header line `write_packed_refs` emits when a peeled map is given -/
def packedHeader : List UInt8 := {LB(header)}
/-- `first_line.startswith(A) and B in first_line` in `get_packed_refs` -/
def packedHeaderProbe1 : List UInt8 := {LB(probe1)}
def packedHeaderProbe2 : List UInt8 := {LB(probe2)}
/-- comment marker and peeled-line marker of the packed-refs reader/writer -/
def packedComment : UInt8 := {comment[0]}
def packedCaret : UInt8 := {caret[0]}

end Dulwich.Gen.Refs
"""
    return {"Refs": src}


# ------------------------------------------------------------------------------------------------
# universe

HEAD = b"HEAD"
ZERO = b"0" * 40
SYM = b"ref: "
# refs/heads/a-x, a.x sort BETWEEN refs/heads/a and refs/heads/a/b ('-' '.' < '/'), a0 right after
NAMES = [HEAD, b"refs/heads/a", b"refs/heads/a/b", b"refs/heads/m", b"refs/heads/s", b"refs/heads/t",
         b"refs/tags/v", b"refs/tags/w", b"refs/remotes/o/m", b"refs/heads/d/e/f",
         b"refs/heads/a-x", b"refs/heads/a.x", b"refs/heads/a0"]
WEIGHTS = [3, 5, 5, 3, 3, 2, 3, 2, 2, 2, 2, 2, 1]
CHAIN = [b"refs/heads/c%d" % i for i in range(1, 7)]       # links of symbolic-ref chains and loops
ALL_NAMES = NAMES + CHAIN
# the file-versus-directory family of the systematic `sib.*` stream: a base name, names below it at depth 1..3,
# siblings that sort BETWEEN base and base/… in byte order (0x21..0x2e < '/') and siblings that sort after
TOPIC = b"refs/heads/topic"
TOPIC_BELOW = [TOPIC + b"/x", TOPIC + b"/x/y", TOPIC + b"/x/y/z"]
TOPIC_BETWEEN = [TOPIC + b"-old", TOPIC + b".bak", TOPIC + b"+1", TOPIC + b",2"]
TOPIC_AFTER = [TOPIC + b"0", TOPIC + b"z"]
SIB_NAMES = [TOPIC] + TOPIC_BELOW + TOPIC_BETWEEN + TOPIC_AFTER
UNIVERSE = set(ALL_NAMES) | set(SIB_NAMES)
GIT_SYMREF_MAXDEPTH = 5                 # refs.c: git reads at most 5 refs, i.e. follows at most 4 symbolic refs
BAD_NAME = b"refs/heads/x..y"          # rejected by _check_refname (model correspondence only)
MISSING_TARGET = b"refs/heads/zz"      # a symref target that never exists
NS = b"foo"
NS_PREFIX = b"refs/namespaces/foo/"
OUTSIDE = b"refs/heads/outside"        # a ref of the inner container that is not in the namespace
BAD_VALUE = b"xyz"


def is_anc(p: bytes, n: bytes) -> bool:
    return n.startswith(p + b"/")


def collides(m: dict, r: bytes) -> bool:
    return any(k != r and (is_anc(k, r) or is_anc(r, k)) for k in m)


# ------------------------------------------------------------------------------------------------
# scratch repositories (objects really exist, so that C git can list and peel)

class Repos:
    def __init__(self, ctx):
        self.root = ctx.scratch / "c16"
        self.root.mkdir(parents=True, exist_ok=True)
        self.env = core.clean_env({"GIT_AUTHOR_DATE": "1700000000 +0000", "GIT_COMMITTER_DATE": "1700000000 +0000",
                                   "GIT_AUTHOR_NAME": "verif", "GIT_COMMITTER_NAME": "verif",
                                   "GIT_AUTHOR_EMAIL": "verif@example.com", "GIT_COMMITTER_EMAIL": "verif@example.com"})
        self.n = 0
        t = self.root / "tmpl"
        if not t.exists():
            self._run(["git", "init", "-q", "--bare", str(t)])
            tree = self.git(t, "mktree", inp=b"").strip().decode()
            a = self.git(t, "commit-tree", tree, "-m", "A").strip().decode()
            b = self.git(t, "commit-tree", tree, "-p", a, "-m", "B").strip().decode()
            c = self.git(t, "commit-tree", tree, "-p", b, "-m", "C").strip().decode()
            tg = self.git(t, "mktag", inp=f"object {a}\ntype commit\ntag v\ntagger verif <verif@example.com> "
                                          f"1700000000 +0000\n\nt\n".encode()).strip().decode()
            (t / "shas").write_text(" ".join([a, b, c, tg]))
        a, b, c, tg = (t / "shas").read_text().split()
        self.A, self.B, self.C, self.TG = a.encode(), b.encode(), c.encode(), tg.encode()
        self.values = [self.A, self.B, self.C, self.TG]
        self.peel = {self.A: self.A, self.B: self.B, self.C: self.C, self.TG: self.A}
        self.tmpl = t

    def _run(self, cmd, inp=None, check=True):
        import subprocess
        p = subprocess.run(cmd, env=self.env, input=inp, stdout=subprocess.PIPE, stderr=subprocess.PIPE)
        if check and p.returncode != 0:
            raise core.InfraError(f"{cmd}: {p.stderr.decode(errors='replace')[:400]}")
        return p

    def git(self, d, *args, inp=None, check=True) -> bytes:
        return self._run(["git", "-C", str(d)] + list(args), inp=inp, check=check).stdout

    def git_rc(self, d, *args):
        p = self._run(["git", "-C", str(d)] + list(args), check=False)
        return p.returncode, p.stdout, p.stderr

    def fresh(self) -> Path:
        """An empty bare repository sharing the template's objects."""
        import os
        self.n += 1
        d = self.root / f"r{self.n}"
        (d / "refs" / "heads").mkdir(parents=True)
        (d / "refs" / "tags").mkdir()
        (d / "HEAD").write_bytes(b"ref: refs/heads/m\n")
        (d / "config").write_text("[core]\n\trepositoryformatversion = 0\n\tfilemode = true\n\tbare = true\n")
        os.symlink(self.tmpl / "objects", d / "objects")
        return d

    def build(self, init: list) -> Path:
        """init: list of [kind, name, value] with kind packed|loose|symref (bytes).  Packed entries are
        created first and packed by `git pack-refs --all` (so peeled lines, header and the absence of
        directories are git's own), then loose refs / symrefs are written by git on top."""
        d = self.fresh()
        packed = [(n, v) for k, n, v in init if k == "packed"]
        if packed:
            self.git(d, "update-ref", "--stdin", inp=b"".join(b"update %s %s\n" % (n, v) for n, v in packed))
            self.git(d, "pack-refs", "--all")
        loose = [(n, v) for k, n, v in init if k == "loose" and n != HEAD]
        if loose:
            self.git(d, "update-ref", "--stdin", inp=b"".join(b"update %s %s\n" % (n, v) for n, v in loose))
        for k, n, v in init:
            if k == "symref":
                self.git(d, "symbolic-ref", n.decode(), v.decode())
            elif k == "loose" and n == HEAD:
                self.git(d, "update-ref", "--no-deref", "HEAD", v.decode())
        return d


def read_disk(d: Path):
    """Independent listing of the on-disk ref state: (files, dirs, packed, peeled)."""
    import os
    files, dirs, packed, peeled = {}, set(), {}, {}
    h = d / "HEAD"
    if h.is_file():
        files[HEAD] = h.read_bytes().split(b"\n", 1)[0].rstrip(b"\r\n")
    for root, ds, fs in os.walk(d / "refs"):
        rel = os.path.relpath(root, d).replace(os.sep, "/").encode()
        dirs.add(rel)
        for f in fs:
            files[rel + b"/" + f.encode()] = (Path(root) / f).read_bytes().split(b"\n", 1)[0].rstrip(b"\r\n")
    p = d / "packed-refs"
    if p.is_file():
        last = None
        for line in p.read_bytes().split(b"\n"):
            line = line.rstrip(b"\r")
            if not line or line.startswith(b"#"):
                continue
            if line.startswith(b"^"):
                if last is not None:
                    peeled[last] = line[1:]
                continue
            sha, name = line.split(b" ", 1)
            packed[name] = sha
            last = name
    return files, dirs, packed, peeled


def raw_of_disk(st) -> dict:
    files, dirs, packed, peeled = st
    m = dict(packed)
    for k, v in files.items():
        if v:
            m[k] = v
    return m


def state_tokens(st) -> list[str]:
    files, dirs, packed, peeled = st
    t = []
    for k in sorted(files):
        t += ["F", hx(k), hx(files[k])]
    for k in sorted(dirs):
        t += ["D", hx(k)]
    for k in sorted(packed):
        t += ["P", hx(k), hx(packed[k])]
    for k in sorted(peeled):
        t += ["L", hx(k), hx(peeled[k])]
    return t


def op_tokens(op) -> list[str]:
    k = op[0]
    o = lambda x: "~" if x is None else hx(x)
    if k == "S":
        return ["S", hx(op[1]), o(op[2]), hx(op[3])]
    if k in ("I", "A", "Y"):
        return [k, hx(op[1]), hx(op[2])]
    if k == "R":
        return ["R", hx(op[1]), o(op[2])]
    if k in ("X", "G", "W", "Q", "C", "E"):
        return [k, hx(op[1])]
    if k == "K":
        return ["K", "1" if op[1] else "0"]
    return [k]


def parse_map(s: str) -> dict:
    out = {}
    for item in s.split(","):
        if item:
            k, v = item.split("=")
            out[unhx(k)] = unhx(v)
    return out


def parse_list(s: str) -> list:
    return [unhx(x) for x in s.split(",") if x]


def parse_model_state(s: str):
    parts = dict(p.split(":", 1) for p in s.split("/"))
    return (parse_map(parts.get("F", "")), set(parse_list(parts.get("D", ""))),
            parse_map(parts.get("P", "")), parse_map(parts.get("L", "")))


def canon_ret(s: str):
    """model/impl return strings -> comparable python value (maps and lists order-free)."""
    if s.startswith("map:"):
        return ("map", tuple(sorted(parse_map(s[4:]).items())))
    if s.startswith("list:"):
        return ("list", tuple(sorted(parse_list(s[5:]))))
    return s


# ------------------------------------------------------------------------------------------------
# running one operation on a real container

def exc_name(e: BaseException) -> str:
    from dulwich.errors import RefFormatError
    from dulwich.refs import SymrefLoop
    if isinstance(e, RefFormatError):
        return "refformat"
    if isinstance(e, SymrefLoop):
        return "symrefloop"
    if isinstance(e, OSError):
        return "os"
    if isinstance(e, KeyError):
        return "key"
    if isinstance(e, NotImplementedError):
        return "notimpl"
    if type(e) is ValueError:
        return "value"
    return "exc:" + type(e).__name__


def show_map(m: dict) -> str:
    return "map:" + ",".join(hx(k) + "=" + hx(v) for k, v in sorted(m.items()))


def apply_op(c, op) -> str:
    """Run `op` on container `c`; the result in the driver's `ret` syntax."""
    import warnings
    k = op[0]
    try:
        with warnings.catch_warnings():
            warnings.simplefilter("ignore")
            if k == "S":
                return "ok:1" if c.set_if_equals(op[1], op[2], op[3]) else "ok:0"
            if k == "I":
                c[op[1]] = op[2]
                return "ok"
            if k == "A":
                return "ok:1" if c.add_if_new(op[1], op[2]) else "ok:0"
            if k == "R":
                return "ok:1" if c.remove_if_equals(op[1], op[2]) else "ok:0"
            if k == "X":
                del c[op[1]]
                return "ok"
            if k == "Y":
                c.set_symbolic_ref(op[1], op[2])
                return "ok"
            if k == "K":
                c.pack_refs(all=op[1])
                return "ok"
            if k == "G":
                return "val:" + hx(c[op[1]])
            if k == "W":
                names, v = c.follow(op[1])
                return "chain:" + ",".join(hx(n) for n in names) + ">" + ("none" if v is None else "val:" + hx(v))
            if k == "Q":
                v = c.read_ref(op[1])
                return "none" if v is None else "val:" + hx(v)
            if k == "C":
                return "ok:1" if op[1] in c else "ok:0"
            if k == "E":
                v = c.get_peeled(op[1])
                return "none" if v is None else "val:" + hx(v)
            if k == "T":
                return show_map(c.as_dict())
            if k == "M":
                return show_map(c.get_symrefs())
            if k == "U":
                return "list:" + ",".join(hx(x) for x in sorted(c.allkeys()))
    except Exception as e:  # noqa: BLE001 - classified, never swallowed
        return "err:" + exc_name(e)
    raise core.InfraError(f"unknown op {op!r}")


# ------------------------------------------------------------------------------------------------
# the trivially simple map spec (the oracle; independent of the Lean model)

def spec_follow(m: dict, name: bytes):
    """-> (chain, value|None) following symrefs; 'loop' on a revisit; 'deep' for a finite chain that C git
    does not follow either: git reads at most SYMREF_MAXDEPTH = 5 refs, so a chain of up to four symbolic refs
    in front of a direct (or missing) ref MUST be followed — that is what "symbolic refs are followed on read
    and on update" demands — and a fifth symbolic ref in a row is beyond what the property specifies."""
    chain, cur, seen = [], name, set()
    while True:
        if cur in seen:
            return "loop"
        seen.add(cur)
        chain.append(cur)
        v = m.get(cur)
        if v is None or not v.startswith(SYM):
            return chain, v
        if len(chain) >= GIT_SYMREF_MAXDEPTH:
            return "deep"
        cur = v[len(SYM):]


def spec_as_dict(m: dict) -> dict:
    out = {}
    for k in m:
        f = spec_follow(m, k)
        if isinstance(f, tuple) and f[1] is not None:
            out[k] = f[1]
    return out


def valid_value(v: bytes) -> bool:
    return (len(v) in (40, 64) and all(c in b"0123456789abcdefABCDEF" for c in v)) or v.startswith(SYM)


REFUSED = "refused"   # an exception or False, state unchanged


def spec_step(m: dict, op, universe):
    """Allowed outcomes of `op` in raw state `m` according to the property's words:
    a list of (ret-predicate, post-state) pairs, or None when the property does not say (skip)."""
    k = op[0]
    if k in ("S", "I", "A"):
        name, new = op[1], op[-1]
        old = op[2] if k == "S" else None
        if name not in universe:
            return None
        if not valid_value(new):
            return [("err:value", m)]
        f = spec_follow(m, name)
        if not isinstance(f, tuple):
            return None                                  # update through a symref loop: not specified
        chain, cur = f
        r = chain[-1]
        if r not in universe and r != MISSING_TARGET:
            return None
        if k == "A" and cur is not None:
            return [("ok:0", m)]
        if r not in m and collides(m, r):
            return [(REFUSED, m)]
        if old is None or m.get(r, ZERO) == old:
            m2 = dict(m)
            m2[r] = new
            return [("ok" if k == "I" else "ok:1", m2)]
        return [("ok:0", m)]
    if k in ("R", "X"):
        name = op[1]
        old = op[2] if k == "R" else None
        if name not in universe:
            return None
        if old is None or m.get(name, ZERO) == old:
            m2 = dict(m)
            m2.pop(name, None)
            outs = [("ok" if k == "X" else "ok:1", m2)]
            if name not in m and collides(m, name):
                outs.append((REFUSED, m))
            return outs
        if name not in m and collides(m, name):
            return [(REFUSED, m)]
        return [("ok:0", m)]
    if k == "Y":
        name, target = op[1], op[2]
        if name not in universe or (target not in universe and target != MISSING_TARGET):
            return None
        if name not in m and collides(m, name):
            return [(REFUSED, m)]
        m2 = dict(m)
        m2[name] = SYM + target
        return [("ok", m2)]
    if k in ("K", "O"):
        return [("ok", m)]
    return None


def ret_matches(pred: str, ret: str) -> bool:
    if pred == REFUSED:
        return ret.startswith("err:") or ret == "ok:0"
    return pred == ret


def spec_read(m: dict, op, peel):
    """Expected result of a read op, or None when not specified; a set of allowed ret strings."""
    k = op[0]
    if k in ("G", "W", "Q", "C", "E"):
        name = op[1]
        f = spec_follow(m, name)
        if k == "Q":
            v = m.get(name)
            return {"none" if v is None else "val:" + hx(v)}
        if k == "C":
            return {"ok:1" if name in m else "ok:0"}
        if f == "deep":
            return None
        if k == "G":
            if f == "loop":
                return {"err:symrefloop", "err:key"}
            return {"err:key" if f[1] is None else "val:" + hx(f[1])}
        if k == "W":
            if f == "loop":
                return {"err:symrefloop"}
            return {"chain:" + ",".join(hx(n) for n in f[0]) + ">" + ("none" if f[1] is None else "val:" + hx(f[1]))}
        if k == "E":
            # "no cached information" (None) is always acceptable; otherwise it must be the true peeled value
            if not isinstance(f, tuple) or f[1] is None or f[1] not in peel:
                return None
            return {"none", "val:" + hx(peel[f[1]])}
    if k == "T":
        return {show_map(spec_as_dict(m))}       # unresolvable names (dangling, loop, deeper than git goes) are not listed
    if k == "M":
        return {show_map({x: v[len(SYM):] for x, v in m.items() if v.startswith(SYM)})}
    if k == "U":
        return {"list:" + ",".join(hx(x) for x in sorted(m))}
    return None


# ------------------------------------------------------------------------------------------------
# backends under test

BACKENDS = ["disk", "dict", "reftable", "nsdisk", "nsdict"]


def ns_apply(n: bytes) -> bytes:
    return n if (n == HEAD or not n.startswith(b"refs/")) else NS_PREFIX + n


class Target:
    """One real container plus the means to observe it independently of the code under test."""

    def __init__(self, backend: str, repos: Repos, init: list):
        self.backend, self.repos = backend, repos
        self.dir = None
        self.store = None
        if backend in ("disk", "nsdisk"):
            ini = init
            if backend == "nsdisk":
                ini = [[k, ns_apply(n), (ns_apply(v) if k == "symref" else v)] for k, n, v in init]
                ini.append(["loose", OUTSIDE, repos.C])
            self.dir = repos.build(ini)
        elif backend in ("dict", "nsdict"):
            m = {HEAD: SYM + b"refs/heads/m"}
            for kind in ("packed", "loose", "symref"):      # loose over packed, as on disk
                for k, n, v in init:
                    if k == kind:
                        n2 = ns_apply(n) if backend == "nsdict" else n
                        v2 = (SYM + (ns_apply(v) if backend == "nsdict" else v)) if k == "symref" else v
                        m[n2] = v2
            if backend == "nsdict":
                m[OUTSIDE] = repos.C
            self.store = m
        else:
            self.dir = repos.root / f"t{repos.n}"
            repos.n += 1
            self.dir.mkdir()
        self.open()
        if backend == "reftable":
            self.c.set_symbolic_ref(HEAD, b"refs/heads/m")
            for kind in ("packed", "loose", "symref"):
                for k, n, v in init:
                    if k != kind:
                        continue
                    if k == "symref":
                        self.c.set_symbolic_ref(n, v)
                    elif not self.c.add_if_new(n, v):
                        self.c.remove_if_equals(n, self.c.read_loose_ref(n))
                        self.c.add_if_new(n, v)

    def open(self):
        from dulwich.refs import DictRefsContainer, DiskRefsContainer, NamespacedRefsContainer
        b = self.backend
        if b == "disk":
            self.c = DiskRefsContainer(str(self.dir))
        elif b == "nsdisk":
            self.inner = DiskRefsContainer(str(self.dir))
            self.c = NamespacedRefsContainer(self.inner, NS)
        elif b == "dict":
            self.c = DictRefsContainer(self.store)
        elif b == "nsdict":
            self.inner = DictRefsContainer(self.store)
            self.c = NamespacedRefsContainer(self.inner, NS)
        else:
            from dulwich.reftable import ReftableRefsContainer
            self.c = ReftableRefsContainer(str(self.dir))

    def observe(self):
        """-> (state comparable with the model's, raw map of the container's own name space,
        raw map of everything outside that name space)"""
        b = self.backend
        if b in ("disk", "nsdisk"):
            st = read_disk(self.dir)
            raw = raw_of_disk(st)
        elif b in ("dict", "nsdict"):
            st = dict(self.store)
            raw = {k: v for k, v in st.items() if v}
        else:
            raw = {}
            for n in ALL_NAMES + [MISSING_TARGET, BAD_NAME]:
                try:
                    raw[n] = self.c.read_loose_ref(n)
                except KeyError:
                    pass
            st = dict(raw)
        if b in ("nsdisk", "nsdict"):
            view, outside = {}, {}
            for k, v in raw.items():
                if v.startswith(SYM):
                    # a symref set through the namespace is stored with the prefixed target; in the view it
                    # points at the name it was given (a target outside the namespace stays as it is)
                    t = v[len(SYM):]
                    if t.startswith(NS_PREFIX):
                        v = SYM + t[len(NS_PREFIX):]
                if k == HEAD or not k.startswith(b"refs/"):
                    view[k] = v
                elif k.startswith(NS_PREFIX):
                    view[k[len(NS_PREFIX):]] = v
                else:
                    outside[k] = v
            return st, view, outside, raw
        return st, raw, {}, raw

    def model_kind(self) -> str:
        return {"nsdisk": "nsdisk:" + hx(NS), "nsdict": "nsdict:" + hx(NS)}.get(self.backend, self.backend)

    def model_state_tokens(self, st) -> list[str]:
        if self.backend in ("disk", "nsdisk"):
            return state_tokens(st)
        t = []
        for k in sorted(st):
            t += ["F", hx(k), hx(st[k])]
        return t


def supported(backend: str, op) -> bool:
    k = op[0]
    if backend in ("nsdisk", "nsdict"):
        # HEAD is passed through un-namespaced and shared with whatever lives outside the namespace, and a raw
        # `ref: x` value written as a plain value is not translated: what the view should be is not specified
        if any(isinstance(x, bytes) and x == HEAD for x in op[1:3]):
            return False
        if k in ("S", "I", "A") and op[-1].startswith(SYM):
            return False
        if k in ("S", "R") and op[2] is not None and op[2].startswith(SYM):
            return False                 # old_ref is documented as a sha; a raw `ref: x` is not translated either
    if backend in ("dict", "nsdict"):
        return k not in ("K", "E")
    if backend == "reftable":
        if k in ("S", "A") and not valid_value(op[-1]):
            return False                 # no _check_ref_value on these paths: the table writer would choke
        if k in ("S", "I", "A") and op[-1].startswith(SYM):
            return False                 # raw "ref: x" as a direct value cannot be encoded as a table value
        return k in ("S", "I", "A", "R", "X", "Y", "O")
    return True


# ------------------------------------------------------------------------------------------------
# generators

def gen_init(rng, repos: Repos) -> list:
    """A non-colliding initial layout: each chosen name loose, packed, or packed with a newer loose
    value on top; symrefs (chains, dangling, HEAD attached/detached)."""
    if rng.random() < 0.15:
        return []
    if rng.random() < 0.25:
        return gen_chain_init(rng, repos)
    init, have = [], {}
    names = [n for n in NAMES[1:] if rng.random() < 0.45]
    for n in names:
        if collides(have, n):
            continue
        commits = repos.values[:3]                      # git refuses a tag object under refs/heads/
        v = repos.TG if (n.startswith(b"refs/tags/") and rng.random() < 0.7) else rng.choice(commits)
        mode = rng.choice(["loose", "packed", "packed", "both"])
        if mode in ("packed", "both"):
            init.append(["packed", n, v])
        if mode == "loose":
            init.append(["loose", n, v])
        if mode == "both":
            init.append(["loose", n, rng.choice([x for x in commits if x != v])])
        have[n] = v
    for n in (b"refs/heads/s", b"refs/heads/t"):
        if n not in have and not collides(have, n) and rng.random() < 0.4:
            init.append(["symref", n, rng.choice([x for x in NAMES[1:] if x != n] + [MISSING_TARGET])])
            have[n] = b"sym"
    r = rng.random()
    if r < 0.3:
        init.append(["loose", HEAD, rng.choice(repos.values[:3])])      # detached
    elif r < 0.6:
        init.append(["symref", HEAD, rng.choice([b"refs/heads/a", b"refs/heads/s", b"refs/heads/a/b"])])
    return init


def chain_init(repos: Repos, k: int, end: str, start_head: bool = True, loop: int = 0) -> list:
    """`k` symbolic refs in a row (HEAD or c1 first) in front of refs/heads/m, which is `end`:
    'loose' | 'packed' | 'both' | 'missing'; with loop = L instead a cycle of L symbolic refs (and HEAD into it)."""
    init = []
    if loop:
        ring = CHAIN[:loop]
        for i, n in enumerate(ring):
            init.append(["symref", n, ring[(i + 1) % loop]])
        if start_head:
            init.append(["symref", HEAD, ring[0]])
        init.append(["loose", b"refs/heads/m", repos.A])
        return init
    links = ([HEAD] if start_head else []) + CHAIN
    links = links[:k]
    target = b"refs/heads/m"
    if end in ("packed", "both"):
        init.append(["packed", target, repos.A])
    if end == "loose":
        init.append(["loose", target, repos.A])
    if end == "both":
        init.append(["loose", target, repos.B])
    for i, n in enumerate(links):
        init.append(["symref", n, links[i + 1] if i + 1 < len(links) else target])
    return init


def gen_chain_init(rng, repos: Repos) -> list:
    if rng.random() < 0.3:
        return chain_init(repos, 0, "loose", rng.random() < 0.5, loop=rng.randint(1, 6))
    init = chain_init(repos, rng.randint(1, 7), rng.choice(["loose", "packed", "both", "missing"]), rng.random() < 0.7)
    if rng.random() < 0.5:
        init.append(["loose" if rng.random() < 0.5 else "packed", b"refs/tags/v", repos.TG])
    return init


def pick_name(rng, m=None) -> bytes:
    if rng.random() < 0.03:
        return BAD_NAME
    if m is not None:
        links = [n for n in [HEAD] + CHAIN if m.get(n, b"").startswith(SYM) and (n in CHAIN or m[n][len(SYM):] in CHAIN)]
        if links and rng.random() < 0.55:
            return rng.choice(links)          # read / write through some link of a symref chain
    return rng.choices(NAMES, WEIGHTS)[0]


def gen_op(rng, m: dict, repos: Repos):
    """One operation, biased by the current raw state `m` so that conditions hold about half the time."""
    r = rng.random()
    name = pick_name(rng, m)
    chainy = any(n in m for n in CHAIN)

    def val():
        x = rng.random()
        if x < 0.03:
            return BAD_VALUE
        if x < 0.05:
            return SYM + rng.choice(NAMES[1:])
        return rng.choice(repos.values)

    def old_for(n):
        f = spec_follow(m, n)
        real = f[0][-1] if isinstance(f, tuple) else n
        x = rng.random()
        if x < 0.45:
            return None
        if x < 0.75:
            return m.get(real, ZERO)
        if x < 0.83:
            return ZERO
        return rng.choice(repos.values)
    if r < 0.22:
        return ["S", name, old_for(name), val()]
    if r < 0.32:
        return ["I", name, val()]
    if r < 0.42:
        return ["A", name, val()]
    if r < 0.50:
        x = rng.random()
        return ["R", name, None if x < 0.3 else (m.get(name, ZERO) if x < 0.75 else rng.choice(repos.values + [ZERO]))]
    if r < 0.57:
        return ["X", name]
    if r < 0.68:
        n = HEAD if rng.random() < 0.25 else name
        if chainy and rng.random() < 0.5:
            # lengthen, shorten or close a chain
            return ["Y", rng.choice([HEAD] + CHAIN), rng.choice(CHAIN + [b"refs/heads/m", b"refs/heads/a"])]
        return ["Y", n, rng.choice(NAMES[1:] + [MISSING_TARGET])]
    if r < 0.74:
        return ["K", rng.random() < 0.75]
    if r < 0.77:
        return ["O"]
    if r < 0.82:
        return ["G", name]
    if r < 0.84:
        return ["W", name]
    if r < 0.86:
        return ["Q", name]
    if r < 0.87:
        return ["C", name]
    if r < 0.91:
        return ["E", rng.choice([n for n in NAMES if n.startswith(b"refs/tags/")] + [name])]
    if r < 0.95:
        return ["T"]
    if r < 0.98:
        return ["M"]
    return ["U"]


# ------------------------------------------------------------------------------------------------
# classification of oracle failures (narrow classes; anything else stays unclassified)

def classify(backend: str, op, ret: str, pre_raw: dict, post_raw: dict, pre_st, repos: Repos, pre_full=None,
             post_full=None):
    """pre_raw/post_raw: the container's own view; pre_full/post_full: the raw map of the underlying
    container (differs from the view only for the namespaced backends)."""
    k = op[0]
    disk = backend in ("disk", "nsdisk")
    ap = (lambda n: ns_apply(n)) if backend in ("nsdisk", "nsdict") else (lambda n: n)
    pre_full = pre_raw if pre_full is None else pre_full
    post_full = post_raw if post_full is None else post_full
    if k == "Y" and ret == "err:symrefloop" and spec_follow(pre_full, ap(op[1])) in ("loop", "deep"):
        return "set_symbolic_ref-on-symref-loop"
    if backend in ("nsdisk", "nsdict") and k == "Y" and ret == "ok" and \
            post_raw.get(op[1]) == SYM + ns_apply(op[2]) and op[2].startswith(b"refs/"):
        return "namespaced-symref-target-not-translated"
    if backend == "reftable":
        if k in ("S", "I") and (k == "I" or op[2] is None) and op[1] in pre_raw and post_raw == pre_raw:
            return "reftable-unconditional-set-dropped"
        if k in ("R", "X") and (k == "X" or op[2] is None) and op[1] in pre_raw and post_raw == pre_raw:
            return "reftable-unconditional-delete-dropped"
        if k in ("S", "R") and op[2] == ZERO and op[1] not in pre_raw and ret == "ok:0":
            return "reftable-zero-sha-old-not-absent"
        return None
    if not disk:
        return None
    files, dirs, packed, peeled = pre_st
    if k in ("S", "I", "A", "Y"):
        f = spec_follow(pre_raw, op[1]) if k != "Y" else ([op[1]], None)
        if isinstance(f, tuple):
            r = f[0][-1]
            pr = ap(r)
            loose_coll = any(is_anc(x, pr) or is_anc(pr, x) for x in files)
            desc_packed = any(is_anc(pr, x) for x in packed)
            anc_packed = any(is_anc(x, pr) for x in packed)
            if r in post_raw and r not in pre_raw and not loose_coll:
                if desc_packed:
                    return "disk-create-over-packed-only-descendant"
                if anc_packed and k in ("A", "Y"):
                    return "disk-create-under-packed-only-ancestor"
            if (ret == "err:os" or (k == "A" and ret == "ok:0")) and not collides(pre_raw, r):
                if pr in dirs and not any(is_anc(pr, x) for x in pre_full):
                    return "disk-stale-empty-directory-blocks-create"
                parent = pr.rsplit(b"/", 1)[0] if b"/" in pr else None
                if k == "Y" and parent is not None and parent not in dirs:
                    return "disk-set_symbolic_ref-parent-directory-missing"
    if k in ("R", "X") and ret == "err:os":
        pr = ap(op[1])
        if pr in dirs and not any(is_anc(pr, x) for x in pre_full):
            return "disk-stale-empty-directory-blocks-delete"
    if k == "A" and ret == "ok:0":
        n = ap(op[1])
        f = spec_follow(pre_full, n)
        if isinstance(f, tuple) and f[1] is None and len(f[0]) > 1 and n in packed and files.get(n, b"").startswith(SYM):
            return "disk-add_if_new-consults-packed-refs-under-the-symref-name"
    if k == "K":
        loops = [x for x in pre_full if x != HEAD and spec_follow(pre_full, x) in ("loop", "deep")]
        if ret == "err:symrefloop" and loops:
            return "disk-pack_refs-raises-on-symref-loop"
        if ret == "ok":
            changed = [x for x in set(pre_full) | set(post_full) if pre_full.get(x) != post_full.get(x)]
            if changed and all(x in pre_full and pre_full[x].startswith(SYM) and x != HEAD and
                               post_full.get(x) == spec_as_dict(pre_full).get(x) for x in changed):
                return "disk-pack_refs-replaces-symref-by-value"
    if k == "E":
        n = ap(op[1])
        if n in packed:
            if n in files:
                return "disk-get_peeled-uses-packed-info-under-loose-override"
            if n in peeled and repos.peel.get(packed[n]) != peeled[n]:
                return "packed-refs-stale-peeled-line"
            if n not in peeled and repos.peel.get(packed[n]) != packed[n]:
                return "packed-refs-annotated-tag-without-peeled-line"
    return None


# ------------------------------------------------------------------------------------------------
# JSON forms of cases (replay files, corpus)

def op_to_json(op):
    return [op[0]] + [(x if isinstance(x, bool) else None if x is None else hx(x)) for x in op[1:]]


def op_from_json(j):
    return [j[0]] + [(x if isinstance(x, bool) else None if x is None else unhx(x)) for x in j[1:]]


def init_to_json(init):
    return [[k, hx(n), hx(v)] for k, n, v in init]


def init_from_json(j):
    return [[k, unhx(n), unhx(v)] for k, n, v in j]


def seq_case(backend, init, ops, step=None):
    c = {"backend": backend, "init": init_to_json(init), "ops": [op_to_json(o) for o in ops]}
    if step is not None:
        c["failing_step"] = step
        c["failing_op_readable"] = repr(ops[step])[:200]
    return c


# ------------------------------------------------------------------------------------------------
# the per-step oracle and the third-party (C git) view

MUTATORS = ("S", "I", "A", "R", "X", "Y", "K", "O")


def oracle_step(ctx, stream, mk_case, backend, op, ret, pre, post, repos):
    pre_st, pre_raw, pre_out, pre_full = pre
    post_st, post_raw, post_out, post_full = post
    k = op[0]
    if pre_out != post_out:
        ctx.oracle_fail(stream, mk_case(), f"operation through the namespace changed refs outside it: "
                                           f"{sorted(set(pre_out.items()) ^ set(post_out.items()))[:2]}", None)
    simple = backend in ("dict", "reftable", "nsdict")
    if k in MUTATORS:
        if simple and k in ("S", "I", "A", "Y", "R", "X"):
            # the statement compares these backends only "on sequences that do not write through symbolic
            # refs or use colliding names"
            if k in ("S", "I", "A") and pre_raw.get(op[1], b"").startswith(SYM):
                return "skip"
            f = spec_follow(pre_raw, op[1]) if k in ("S", "I", "A") else ([op[1]], None)
            r = f[0][-1] if isinstance(f, tuple) else op[1]
            if collides(pre_raw, r):
                return "skip"
        if k in ("S", "I", "A", "Y", "R", "X"):
            f = spec_follow(pre_raw, op[1]) if k in ("S", "I", "A") else ([op[1]], None)
            r = f[0][-1] if isinstance(f, tuple) else op[1]
            if r in pre_raw and collides(pre_raw, r):
                # both `a` and `a/b` exist: only reachable through an already reported refusal failure
                return "skip"
        allowed = spec_step(pre_raw, op, UNIVERSE)
        if allowed is None:
            return "unspecified"
        for pred, m2 in allowed:
            if ret_matches(pred, ret) and post_raw == m2:
                return "ok"
        cls = classify(backend, op, ret, pre_raw, post_raw, pre_st, repos, pre_full, post_full)
        exp = " or ".join(f"{p} with {'unchanged state' if m2 == pre_raw else 'the updated map'}" for p, m2 in allowed)
        diff = sorted(x for x in set(post_raw) | set(allowed[0][1]) if post_raw.get(x) != allowed[0][1].get(x))
        ctx.oracle_fail(stream, mk_case(), f"{backend}: {op_readable(op)} returned {ret}; the map spec says {exp}; "
                                           f"refs that differ from the spec afterwards: {diff[:3]}", cls)
        return "fail"
    exp = spec_read(pre_raw, op, repos.peel)
    if post_raw != pre_raw:
        ctx.oracle_fail(stream, mk_case(), f"{backend}: read operation {op_readable(op)} changed the refs", None)
        return "fail"
    if exp is None:
        return "unspecified"
    if canon_ret(ret) in {canon_ret(e) for e in exp}:
        return "ok"
    cls = classify(backend, op, ret, pre_raw, post_raw, pre_st, repos, pre_full, post_full)
    ctx.oracle_fail(stream, mk_case(), f"{backend}: {op_readable(op)} gave {ret[:120]}; the map spec says "
                                       f"{sorted(exp)[0][:120]}", cls)
    return "fail"


def op_readable(op) -> str:
    return op[0] + "(" + ", ".join("None" if x is None else repr(x) if isinstance(x, bool) else
                                     (x[:8] + b".." if len(x) >= 40 else x).decode("latin1") for x in op[1:]) + ")"


def git_view_check(ctx, stream, mk_case, repos: Repos, d: Path, st, c):
    """C git as third party on the directory the files backend wrote: for-each-ref, symbolic-ref,
    show-ref -d against the map spec's view of the raw state, and against dulwich's own as_dict()."""
    files, dirs, packed, peeled = st
    raw = raw_of_disk(st)
    if not files.get(HEAD):
        return "no-HEAD"
    if any(collides(raw, k) for k in raw):
        return "collision"                      # only reachable through a (separately reported) refusal failure
    view = spec_as_dict(raw)          # chains deeper than git follows are listed by neither side
    exp = {k: v for k, v in view.items() if k.startswith(b"refs/")}
    rc, out, err = repos.git_rc(d, "for-each-ref", "--format=%(refname) %(objectname)")
    got = dict(line.split(b" ") for line in out.splitlines()) if rc == 0 else None
    if got != exp:
        diff = sorted(k for k in set(exp) | set(got or {}) if exp.get(k) != (got or {}).get(k))
        ctx.oracle_fail(stream, mk_case(), f"git for-each-ref (rc={rc}) disagrees with the map on {diff[:3]}: "
                                           f"git={[(got or {}).get(k) for k in diff[:3]]} {err[:100]!r}", None)
    try:
        mine = {k: v for k, v in c.as_dict().items() if k.startswith(b"refs/")}
    except Exception as e:  # noqa: BLE001
        mine = "err:" + exc_name(e)
    if got is not None and mine != got:
        ctx.oracle_fail(stream, mk_case(), f"git for-each-ref and as_dict() list different refs: {mine!r:.200} vs "
                                           f"{got!r:.200}", None)
    for k, v in sorted(raw.items()):
        # (git symbolic-ref cannot print a symref that is part of a loop: not compared)
        f = spec_follow(raw, k)
        if v.startswith(SYM) and isinstance(f, tuple):
            # git 2.39 `symbolic-ref <name>` prints the name at the end of the symref chain
            rc, out, err = repos.git_rc(d, "symbolic-ref", k.decode())
            if rc != 0 or out.rstrip(b"\n") != f[0][-1]:
                ctx.oracle_fail(stream, mk_case(), f"git symbolic-ref {k!r} -> rc={rc} {out!r}, expected {f[0][-1]!r}",
                                None)
    if HEAD in view:
        rc, out, err = repos.git_rc(d, "rev-parse", "--verify", "-q", "HEAD")
        if rc != 0 or out.strip() != view[HEAD]:
            ctx.oracle_fail(stream, mk_case(), f"git rev-parse HEAD -> rc={rc} {out!r}, expected {view[HEAD]!r}", None)
    rc, out, err = repos.git_rc(d, "show-ref", "-d")
    got_lines = set(out.splitlines())
    exp_lines = set()
    for k, v in exp.items():
        exp_lines.add(v + b" " + k)
        if repos.peel.get(v, v) != v:
            exp_lines.add(repos.peel[v] + b" " + k + b"^{}")
    for line in sorted(got_lines ^ exp_lines):
        sha, name = line.split(b" ", 1)
        cls = None
        if name.endswith(b"^{}"):
            n = name[:-3]
            if n in packed and n not in files:
                true_peel = repos.peel.get(packed[n])
                if n in peeled and (true_peel != peeled[n] or true_peel == packed[n]):
                    cls = "packed-refs-stale-peeled-line"
                elif n not in peeled and repos.peel.get(packed[n]) != packed[n]:
                    cls = "packed-refs-annotated-tag-without-peeled-line"
        ctx.oracle_fail(stream, mk_case(), f"git show-ref -d: line {line!r} is "
                                           f"{'missing' if line in exp_lines else 'unexpected'}", cls)
    return "checked"


# ------------------------------------------------------------------------------------------------
# sequences

class SeqResult:
    def __init__(self):
        self.ops, self.rets, self.states = [], [], []
        self.st0 = None
        self.line = None


def run_sequence(ctx, repos, backend, init, ops=None, n_ops=30, rng=None, stream=None, git_every=0,
                 oracle=True) -> SeqResult:
    """Run `ops` (or generate n_ops adaptively) on a fresh real container of kind `backend`; per-step
    oracle; returns what is needed to compare with the model afterwards."""
    stream = stream or "seq." + backend
    tgt = Target(backend, repos, init)
    res = SeqResult()
    cur = tgt.observe()
    res.st0 = cur[0]
    todo = list(ops) if ops is not None else None
    i = 0
    tries = 0
    while (todo is not None and i < len(todo)) or (todo is None and len(res.ops) < n_ops and tries < 10 * n_ops):
        tries += 1
        if todo is not None:
            op = todo[i]
            i += 1
        else:
            op = gen_op(rng, cur[1], repos)
        if not supported(backend, op):
            continue
        step = len(res.ops)
        if op[0] == "O":
            tgt.open()
            ret = "ok"
        else:
            ret = apply_op(tgt.c, op)
        post = tgt.observe()
        res.ops.append(op)
        res.rets.append(ret)
        res.states.append(post[0])
        mk = (lambda s=step: seq_case(backend, init, res.ops[: s + 1], s))
        verdict = "unchecked"
        if oracle:
            verdict = oracle_step(ctx, stream, mk, backend, op, ret, cur, post, repos)
        key = (backend, tuple(op_tokens(op)), tuple(sorted(cur[1].items())))
        ctx.count(stream, key, verdict in ("ok", "fail"), f"{op[0]}:{ret.split(':')[0] if ret.startswith(('ok', 'err')) else ret[:3]}:{verdict}")
        cur = post
        if oracle and git_every and backend in ("disk", "nsdisk") and (step + 1) % git_every == 0:
            v = git_view_check(ctx, stream + ".git", mk, repos, tgt.dir, post[0], tgt.c if backend == "disk" else tgt.inner)
            ctx.count(stream + ".git", (key, "mid"), v == "checked", v)
    if oracle and backend in ("disk", "nsdisk"):
        mk = (lambda: seq_case(backend, init, res.ops, len(res.ops) - 1 if res.ops else None))
        v = git_view_check(ctx, stream + ".git", mk, repos, tgt.dir, cur[0], tgt.c if backend == "disk" else tgt.inner)
        ctx.count(stream + ".git", (backend, tuple(sorted(cur[1].items()))), v == "checked", v)
    res.line = " ".join(["c16.seq", tgt.model_kind()] + tgt.model_state_tokens(res.st0) + ["--"] +
                        [t for op in res.ops for t in op_tokens(op)])
    res.backend, res.init = backend, init
    res.dir, res.final, res.container = tgt.dir, cur, tgt.c
    return res


def compare_with_model(ctx, results: list):
    """One driver batch for all recorded sequences; per-step comparison of return value and state."""
    outs = ctx.driver.batch([r.line for r in results])
    for r, out in zip(results, outs):
        stream = "seq." + r.backend + ".model"
        if not r.ops:
            continue
        steps = out.split(";")
        if out == "bad-arg" or len(steps) != len(r.ops):
            ctx.disagree(stream, seq_case(r.backend, r.init, r.ops), out[:200], f"{len(r.ops)} steps")
            continue
        for i, (s, op, ret, st) in enumerate(zip(steps, r.ops, r.rets, r.states)):
            mret, mstate = s.split("|", 1)
            if r.backend in ("disk", "nsdisk"):
                mst = parse_model_state(mstate)
                same_state = mst == (st[0], st[1], st[2], st[3])
            else:
                mst = parse_map(mstate.split(":", 1)[1])
                same_state = mst == st
            ctx.count(stream, (r.line, i), True, op[0])
            if canon_ret(mret) != canon_ret(ret) or not same_state:
                what = "return value" if canon_ret(mret) != canon_ret(ret) else "state"
                ctx.disagree(stream, seq_case(r.backend, r.init, r.ops[: i + 1], i),
                             f"{mret[:160]} | {_state_diff(mst, st)}", f"{ret[:160]} ({what} differs at step {i}: {op_readable(op)})",
                             r.backend)
                break


def _state_diff(mst, st) -> str:
    if isinstance(mst, tuple):
        out = []
        for nm, a, b in zip(("files", "dirs", "packed", "peeled"), mst, st):
            if a != b:
                if isinstance(a, set):
                    out.append(f"{nm}: model-only {sorted(a - b)} impl-only {sorted(b - a)}")
                else:
                    ks = sorted(k for k in set(a) | set(b) if a.get(k) != b.get(k))
                    out.append(f"{nm}: " + ", ".join(f"{k!r}: model {a.get(k)!r:.30} impl {b.get(k)!r:.30}" for k in ks[:3]))
        return "; ".join(out) or "same state"
    ks = sorted(k for k in set(mst) | set(st) if mst.get(k) != st.get(k))
    return ", ".join(f"{k!r}: model {mst.get(k)!r:.30} impl {st.get(k)!r:.30}" for k in ks[:3]) or "same state"


class _Probe:
    """Stand-in for Ctx while shrinking: records oracle failures, matches known findings the same way."""

    def __init__(self, ctx):
        self.known, self.fails, self.thorough, self.rng = ctx.known, [], ctx.thorough, ctx.rng
        self.known_hit = {}

    def count(self, *a, **k):
        pass

    def sample(self, *a, **k):
        pass

    def oracle_fail(self, stream, case, what, cls=None):
        for k in self.known:
            if cls is not None and k.get("match", {}).get("class") == cls and \
                    k.get("match", {}).get("stream", stream) == stream:
                return
        self.fails.append({"stream": stream, "case": case, "what": what, "class": cls})


def shrink_failures(ctx, repos, first_new: int, limit: int = 2):
    """Delta-debug the sequence cases of the oracle failures recorded since index `first_new`: drop
    operations and initial refs while an unmatched failure of the same stream still shows at the end."""
    done = 0
    for f in ctx.oracle_failures[first_new:]:
        c = f["case"]
        if done >= limit or "backend" not in c or f["stream"].startswith("search"):
            continue
        done += 1
        backend = c["backend"]
        init = init_from_json(c["init"])
        ops = [op_from_json(o) for o in c["ops"]]
        base = f["stream"].split(".git")[0]

        def fails(init2, ops2):
            pr = _Probe(ctx)
            try:
                run_sequence(pr, repos, backend, init2, ops2, stream=base, git_every=0)
            except core.InfraError:
                return None
            for x in pr.fails:
                if x["stream"] == f["stream"] and x["class"] == f["class"] and \
                        (x["case"].get("failing_step") in (None, len(ops2) - 1)):
                    return x
            return None
        changed = True
        best = None
        while changed:
            changed = False
            for i in range(len(ops) - 1):
                trial = ops[:i] + ops[i + 1:]
                r = fails(init, trial)
                if r is not None:
                    ops, best, changed = trial, r, True
                    break
            if changed:
                continue
            for i in range(len(init)):
                trial = init[:i] + init[i + 1:]
                r = fails(trial, ops)
                if r is not None:
                    init, best, changed = trial, r, True
                    break
        if best is not None:
            f["case"] = seq_case(backend, init, ops, len(ops) - 1)
            f["what"] = best["what"] + "  [shrunk from " + str(len(c["ops"])) + " operations]"


def chain_script(head: bytes, repos: Repos) -> list:
    """Reads, conditional and unconditional writes THROUGH the first link, packing, re-opening."""
    m = b"refs/heads/m"
    return [["G", head], ["W", head], ["Q", head], ["C", head], ["T"], ["M"], ["U"],
            ["S", head, repos.A, repos.B], ["G", head], ["G", m], ["S", head, repos.C, repos.A],
            ["I", head, repos.C], ["G", m], ["Q", head], ["T"],
            ["K", True], ["G", head], ["M"], ["O"], ["G", head], ["W", head],
            ["A", head, repos.B], ["X", m], ["A", head, repos.B], ["G", head], ["T"], ["K", False], ["G", head]]


def stream_chains(ctx, repos):
    """Systematic: symbolic-ref chains of every length 1..7 in front of a loose / packed / loose-over-packed /
    missing ref, and loops of every length 1..6, built by `git symbolic-ref`; the same script on every backend;
    C git (rev-parse, symbolic-ref, for-each-ref, show-ref) as third party wherever git itself resolves."""
    ends = ["loose", "packed", "both", "missing"]
    scen = []
    for k in range(1, 8):
        for end in (ends if k in (3, 4, 5) else [ends[k % 4]]):
            scen.append((k, end, 0))
    scen += [(0, "loose", L) for L in range(1, 7)]
    every = 1 if ctx.thorough else 4
    results = []
    n_fail0 = len(ctx.oracle_failures)
    for k, end, loop in scen:
        for b in BACKENDS:
            with_head = b not in ("nsdisk", "nsdict")      # HEAD is not namespaced: those start at c1
            if not with_head and k > len(CHAIN):
                continue
            init = chain_init(repos, k, end, with_head, loop)
            head = HEAD if with_head else CHAIN[0]
            results.append(run_sequence(ctx, repos, b, init, chain_script(head, repos), stream="chain." + b,
                                        git_every=every))
    compare_with_model(ctx, results)
    shrink_failures(ctx, repos, n_fail0, limit=3)
    ctx.extra_cov["chain_scenarios"] = [f"{'loop' if lp else 'chain'}:{lp or k}:{end}" for k, end, lp in scen]


def sib_scenarios(thorough: bool, rng=None, extra: int = 0) -> list:
    """(direction, depth, n_between, after, packer): direction 'below' = a name below TOPIC is packed and TOPIC is
    written; 'above' = TOPIC is packed and a name below it is written; 'none' = only siblings are packed (control:
    the write must go through); packer 'git' = `git pack-refs --all`, 'dulwich' = pack_refs(all=True)."""
    out = []
    for direction in ("below", "above", "none"):
        for depth in (1, 2, 3):
            if direction == "none" and depth > 1:
                continue
            for nb in (0, 1, 2, 3, 4):
                for after in (False, True):
                    for packer in ("git", "dulwich"):
                        if not thorough and (after != (nb % 2 == 1) or (packer == "dulwich") != ((nb + depth) % 2 == 0)):
                            continue
                        out.append((direction, depth, nb, after, packer))
    for _ in range(extra):
        out.append((rng.choice(["below", "above", "none"]), rng.randint(1, 3), rng.randint(0, 4), rng.random() < 0.5,
                    rng.choice(["git", "dulwich"])))
    return out


def sib_case(repos: Repos, scen, rng=None):
    """-> (init, ops, written name)"""
    direction, depth, nb, after, packer = scen
    between = list(TOPIC_BETWEEN)
    if rng is not None:
        rng.shuffle(between)
    packed = {n: repos.A for n in between[:nb]}
    if after:
        packed.update({n: repos.B for n in TOPIC_AFTER})
    below = TOPIC_BELOW[depth - 1]
    if direction == "below":
        packed[below] = repos.C
        target = TOPIC
    elif direction == "above":
        packed[TOPIC] = repos.C
        target = below
    else:
        target = TOPIC
    packed[b"refs/heads/m"] = repos.A
    kind = "packed" if packer == "git" else "loose"
    init = [[kind, n, v] for n, v in packed.items()]
    s = b"refs/heads/s"
    ops = ([["K", True]] if packer == "dulwich" else []) + [
        ["I", target, repos.B], ["S", target, None, repos.B], ["S", target, ZERO, repos.B], ["A", target, repos.B],
        ["Y", target, b"refs/heads/m"], ["Y", HEAD, target], ["I", HEAD, repos.B], ["S", HEAD, ZERO, repos.C],
        ["A", HEAD, repos.C], ["Y", s, target], ["S", s, None, repos.A], ["A", s, repos.A], ["T"], ["U"]]
    return init, ops, target


def git_update_ref_verdict(ctx, stream, mk_case, repos: Repos, res, target: bytes, first_write: int):
    """C git's verdict on the same repository: `git update-ref <target> <sha>` must be refused exactly when
    dulwich refused the same write (compared directly when nothing has changed since), and exactly when the map
    spec says the name collides."""
    st, raw = res.final[0], res.final[3]
    files = st[0]
    if not files.get(HEAD):
        return "no-HEAD"
    rc, out, err = repos.git_rc(res.dir, "update-ref", target.decode(), repos.B.decode())
    git_refused = rc != 0
    spec_refused = target not in raw and collides(raw, target)
    if git_refused != spec_refused:
        ctx.oracle_fail(stream, mk_case(), f"git update-ref {target!r}: {'refused' if git_refused else 'accepted'} "
                                           f"({err[:80]!r}) but the map spec says {'collision' if spec_refused else 'no collision'}", None)
    before = res.st0 if first_write == 0 else res.states[first_write - 1]
    unchanged = raw_of_disk(before) == raw_of_disk(st)          # every write since was refused
    if unchanged and first_write < len(res.rets):
        dul_refused = res.rets[first_write].startswith("err")
        if dul_refused != git_refused:
            ctx.oracle_fail(stream, mk_case(), f"{op_readable(res.ops[first_write])} -> {res.rets[first_write]} but "
                                               f"`git update-ref {target.decode()}` on the same repository is "
                                               f"{'refused' if git_refused else 'accepted'}", None)
    if not git_refused:
        # git wrote the ref: what git lists and what the container lists must still agree
        st2 = read_disk(res.dir)
        c = res.container
        inner = getattr(c, "_refs", c)
        git_view_check(ctx, stream + ".after-git", mk_case, repos, res.dir, st2, inner)
    return "refused" if git_refused else "accepted"


def stream_siblings(ctx, repos, extra: int = 0):
    """Systematic: file-versus-directory collisions where the colliding descendant (or ancestor) exists ONLY in
    packed-refs, next to 0..4 packed siblings that sort between `name` and `name/…` and siblings that sort after;
    depth 1..3; packed by git and by dulwich; every writer, directly and through HEAD / a symref."""
    rng = ctx.rng
    results = []
    n_fail0 = len(ctx.oracle_failures)
    for scen in sib_scenarios(ctx.thorough, rng, extra):
        for b in ("disk", "nsdisk"):
            init, ops, target = sib_case(repos, scen, rng if extra else None)
            res = run_sequence(ctx, repos, b, init, ops, stream="sib." + b)
            results.append(res)
            first_write = 1 if scen[4] == "dulwich" else 0
            if b == "disk":
                mk = (lambda r=res: seq_case(r.backend, r.init, r.ops, first_write))
                v = git_update_ref_verdict(ctx, "sib.disk.git-update-ref", mk, repos, res, target, first_write)
                ctx.count("sib.disk.git-update-ref", (scen,), True, f"{scen[0]}:{v}")
    compare_with_model(ctx, results)
    shrink_failures(ctx, repos, n_fail0, limit=3)
    ctx.extra_cov["sibling_scenarios"] = len(results)


def stream_sequences(ctx, repos, n_seq, n_ops=30, git_every=0):
    rng = ctx.rng
    results = []
    n_fail0 = len(ctx.oracle_failures)
    for i in range(n_seq):
        init = gen_init(rng, repos)
        primary = BACKENDS[i % len(BACKENDS)] if i % 2 else "disk"
        length = rng.choice([5, 10, 20, n_ops, n_ops])
        first = run_sequence(ctx, repos, primary, init, None, length, rng, git_every=git_every)
        results.append(first)
        for b in BACKENDS:
            if b != primary:
                results.append(run_sequence(ctx, repos, b, init, first.ops, git_every=git_every))
        if len(ctx.samples) < 3 and first.ops:
            ctx.sample({"stream": "seq." + primary, "init": [[k, n.decode(), v.decode()[:12]] for k, n, v in init],
                        "ops": [op_readable(o) for o in first.ops[:8]], "rets": first.rets[:8]})
        if len(results) >= 200:
            compare_with_model(ctx, results)
            results = []
    compare_with_model(ctx, results)
    shrink_failures(ctx, repos, n_fail0)


# ------------------------------------------------------------------------------------------------
# check_ref_format streams

ALPHABET = [0x61, 0x2f, 0x2e, 0x40, 0x7b, 0x5c, 0x7e, 0x2a, 0x3a, 0x20, 0x1f, 0x7f, 0x80, 0x00]
TOKENS = [b".lock", b"/", b".", b"a", b"@", b"{", b"@{", b"..", b"\\", b" ", b"~", b"*", b"\x7f", b"\x1f",
          b"\x80", b"lock", b".loc", b"k", b"x.lock", b"[", b"?", b"^", b":", b"\t", b"-", b"HEAD", b"refs"]


def git_check_many(names: list[bytes], env) -> list:
    """`git check-ref-format <name>` for every name (True/False), None where the name cannot be passed
    on a command line (NUL inside, empty, or a leading '-', which git takes for an option)."""
    import os
    from concurrent.futures import ThreadPoolExecutor
    git = None
    for p in env.get("PATH", "").split(os.pathsep):
        if os.access(os.path.join(p, "git"), os.X_OK):
            git = os.path.join(p, "git")
            break
    if git is None:
        raise core.InfraError("git not on PATH")
    devnull = os.open(os.devnull, os.O_RDWR)
    fa = [(os.POSIX_SPAWN_DUP2, devnull, 1), (os.POSIX_SPAWN_DUP2, devnull, 2)]
    benv = {k.encode(): v.encode() for k, v in env.items()}

    def one(n: bytes):
        if not n or b"\x00" in n or n.startswith(b"-"):
            return None
        pid = os.posix_spawn(git, [b"git", b"check-ref-format", n], benv, file_actions=fa)
        _, status = os.waitpid(pid, 0)
        rc = os.waitstatus_to_exitcode(status)
        if rc not in (0, 1):
            raise core.InfraError(f"git check-ref-format {n!r} exited {rc}")
        return rc == 0
    try:
        with ThreadPoolExecutor(max_workers=16) as ex:
            return list(ex.map(one, names, chunksize=64))
    finally:
        os.close(devnull)


def real_check_ref_format(n: bytes) -> str:
    from dulwich.refs import check_ref_format
    try:
        return "1" if check_ref_format(n) else "0"
    except Exception:  # noqa: BLE001 - the model predicts when it raises
        return "raise"


def real_check_refname(n: bytes) -> str:
    import warnings
    from dulwich.errors import RefFormatError
    from dulwich.refs import DictRefsContainer
    try:
        with warnings.catch_warnings():
            warnings.simplefilter("ignore")
            DictRefsContainer({})._check_refname(n)
        return "1"
    except RefFormatError:
        return "0"


def fmt_class(n: bytes):
    return None


def gen_fmt_names(ctx):
    """-> (names for model-vs-real, subset to run through C git)"""
    import itertools
    rng = ctx.rng
    L = 4 if ctx.thorough else 3
    exh = [bytes(t) for ln in range(L + 1) for t in itertools.product(ALPHABET, repeat=ln)]
    single = []
    for b in range(256):
        single += [b"x/" + bytes([b]), bytes([b]) + b"/x", b"x/a" + bytes([b]) + b"a", b"x/a" + bytes([b])]
    tl = 4 if ctx.thorough else 3
    toks = [b"".join(t) for ln in range(1, tl + 1) for t in itertools.product(TOKENS[:18], repeat=ln)]
    rnd = []
    for _ in range(ctx.budget(3000)):
        k = rng.choice([2, 3, 4, 5, 6, 8, 12])
        parts = [rng.choice(TOKENS) if rng.random() < 0.6 else bytes(rng.choice(ALPHABET + [0x62, 0x2d, 0xff]) for _ in range(rng.randint(1, 4)))
                 for _ in range(k)]
        rnd.append((b"/" if rng.random() < 0.5 else b"").join(parts))
    fixed = [b"", b"@", b"a/@", b"@/a", b"HEAD", b"heads/master", b"heads/a.lock", b"heads/a.lock/b", b"heads/.a",
             b"heads/a.", b"heads//a", b"/heads/a", b"heads/a/", b"heads/a..b", b"heads/a@{b", b"heads/a\\b",
             b"heads/a b", b"heads/\xc3\xa9", b"heads/a.lockx", b"heads/.lock", b"a/b.lock.lock", b"refs/heads/x" * 20]
    allnames = list(dict.fromkeys(fixed + single + exh + toks + rnd))
    if ctx.thorough:
        # the whole exhaustive set, every single-byte probe, and a 40 k sample of token/random names
        # (about 85 k `git check-ref-format` processes, 16-way parallel)
        core_set = list(dict.fromkeys(fixed + single + exh))
        seen = set(core_set)
        rest = [n for n in allnames if n not in seen]
        gitset = core_set + rng.sample(rest, min(len(rest), 40000))
    else:
        short = [n for n in exh if len(n) <= 2]
        pool = [n for n in allnames if len(n) > 2]
        gitset = list(dict.fromkeys(fixed + single + short + rng.sample(pool, min(len(pool), ctx.budget(2500)))))
    return allnames, gitset


def stream_fmt(ctx, repos):
    allnames, gitset = gen_fmt_names(ctx)
    mouts = ctx.driver.batch(["c16.fmt " + hx(n) for n in allnames])
    real = {}
    for n, mo in zip(allnames, mouts):
        r = real_check_ref_format(n)
        real[n] = r
        ctx.count("fmt.model", n, True, f"len{min(len(n), 9)}:{r}")
        if r != mo:
            ctx.disagree("fmt.model", {"name": hx(n)}, mo, r)
        if r == "raise":
            ctx.oracle_fail("fmt.model", {"name": hx(n)}, "check_ref_format raised instead of returning a bool", None)
    gits = git_check_many(gitset, repos.env)
    ngit = 0
    for n, g in zip(gitset, gits):
        if g is None:
            continue
        ngit += 1
        ctx.count("fmt.git", n, True, f"git{int(g)}")
        if real[n] != ("1" if g else "0"):
            ctx.oracle_fail("fmt.git", {"name": hx(n)},
                            f"check_ref_format({n!r}) = {real[n]} but `git check-ref-format` says {'valid' if g else 'invalid'}",
                            fmt_class(n))
    ctx.extra_cov["fmt_exhaustive_len"] = 4 if ctx.thorough else 3
    ctx.extra_cov["fmt_git_comparisons"] = ngit
    ctx.sample({"stream": "fmt", "name": "heads/a.lock", "model": "0", "real": real.get(b"heads/a.lock"), "git": False})
    # _check_refname: model vs real
    rng = ctx.rng
    base = [n for n in allnames if len(n) <= 6 or n in real and real[n] == "1"]
    names = [HEAD, b"refs/stash", b"refs/", b"refs", b"refs/heads", b"refs/heads/a", b"refs/tags//v1", b"refs//heads/a",
             b"refs/heads/a//", b"refs/heads//a..b", b"//refs/heads/a", b"refs/stash/x", b"HEAD/x", b"head"]
    names += [b"refs/" + n for n in rng.sample(base, min(len(base), ctx.budget(3000)))]
    names += [rng.choice([b"refs/", b"ref/", b"", b"refs//"]) + n.replace(b"/", b"//", 1) for n in rng.sample(base, min(len(base), ctx.budget(800)))]
    mouts = ctx.driver.batch(["c16.refname " + hx(n) for n in names])
    for n, mo in zip(names, mouts):
        r = real_check_refname(n)
        ctx.count("refname.model", n, True, r)
        if r != mo:
            ctx.disagree("refname.model", {"name": hx(n)}, mo, r)


# ------------------------------------------------------------------------------------------------
# packed-refs codec streams

def gen_refname(rng) -> bytes:
    comps = [rng.choice([b"heads", b"tags", b"remotes", b"x", b"a-b", b"v1.0", b"\xc3\xa9", b"#c", b"a@b", b"A", b"lock"])
             for _ in range(rng.randint(1, 3))]
    return b"refs/" + b"/".join(comps)


def gen_sha(rng) -> bytes:
    n = rng.choice([40, 40, 40, 64])
    s = bytes(rng.choice(b"0123456789abcdef") for _ in range(n))
    return s.upper() if rng.random() < 0.05 else s


def real_read_packed(ctx, data: bytes):
    """Through DiskRefsContainer.get_packed_refs on a scratch directory."""
    from dulwich.refs import DiskRefsContainer
    d = ctx.scratch / "c16" / "pk"
    d.mkdir(parents=True, exist_ok=True)
    (d / "packed-refs").write_bytes(data)
    c = DiskRefsContainer(str(d))
    try:
        packed = dict(c.get_packed_refs())
        peeled = dict(c._peeled_refs or {})
    except Exception as e:  # noqa: BLE001
        return "err", type(e).__name__
    return packed, peeled


def fold_entries(s: str):
    packed, peeled = {}, {}
    for item in s.split(","):
        if not item:
            continue
        n, sha, p = item.split("=")
        packed[unhx(n)] = unhx(sha)
        if p != "~" and unhx(p):
            peeled[unhx(n)] = unhx(p)
    return packed, peeled


def stream_packed(ctx):
    import io
    from dulwich.refs import write_packed_refs
    rng = ctx.rng
    cases = []
    for _ in range(ctx.budget(300)):
        ents = {}
        for _ in range(rng.choice([0, 1, 2, 3, 5, 8])):
            ents[gen_refname(rng)] = (gen_sha(rng), gen_sha(rng) if rng.random() < 0.4 else None)
        cases.append(ents)
    lines = []
    for ents in cases:
        toks = []
        for n, (s, p) in ents.items():
            toks += [hx(n), hx(s), "~" if p is None else hx(p)]
        lines.append(" ".join(["c16.packed.write"] + toks))
    outs = ctx.driver.batch(lines)
    files = []
    for ents, mo in zip(cases, outs):
        f = io.BytesIO()
        write_packed_refs(f, {n: s for n, (s, p) in ents.items()}, {n: p for n, (s, p) in ents.items() if p is not None})
        data = f.getvalue()
        files.append(data)
        ctx.count("packed.write", data, True, f"n{len(ents)}")
        if hx(data) != mo:
            ctx.disagree("packed.write", {"entries": {hx(n): [hx(s), None if p is None else hx(p)] for n, (s, p) in ents.items()}},
                         mo[:200], hx(data)[:200])
        # direct oracle: what was written is read back identically by the real reader
        back = real_read_packed(ctx, data)
        want = ({n: s for n, (s, p) in ents.items()}, {n: p for n, (s, p) in ents.items() if p is not None})
        if back != want:
            ctx.oracle_fail("packed.roundtrip", {"file": hx(data)}, f"packed-refs written and read back differ: {back!r:.200}", None)
    # reader: mutations of valid files, CRLF, no header, stray lines
    muts = []
    for data in files:
        muts.append(data)
        k = rng.choice(["crlf", "nohdr", "hdr-nopeel", "trunc", "blank", "stray^", "dupspace", "comment", "git-hdr", "byte", "noeol"])
        if k == "crlf":
            muts.append(data.replace(b"\n", b"\r\n"))
        elif k == "nohdr":
            muts.append(data.split(b"\n", 1)[1] if b"\n" in data else b"")
        elif k == "hdr-nopeel":
            muts.append(b"# pack-refs with: sorted\n" + data.split(b"\n", 1)[1])
        elif k == "trunc" and data:
            muts.append(data[: rng.randrange(len(data))])
        elif k == "blank":
            p = data.find(b"\n") + 1
            muts.append(data[:p] + b"\n" + data[p:])
        elif k == "stray^":
            p = data.find(b"\n") + 1
            muts.append(data[:p] + b"^" + gen_sha(rng) + b"\n" + data[p:])
        elif k == "dupspace":
            muts.append(data.replace(b" refs/", b"  refs/", 1))
        elif k == "comment":
            muts.append(data + b"# trailing comment\n")
        elif k == "git-hdr":
            muts.append(b"# pack-refs with: peeled fully-peeled sorted \n" + data.split(b"\n", 1)[1])
        elif k == "byte" and data:
            p = rng.randrange(len(data))
            muts.append(data[:p] + bytes([rng.choice(b" \n^#g/.~\x00")]) + data[p + 1:])
        elif k == "noeol":
            muts.append(data.rstrip(b"\n"))
    muts += [b"", b"\n", b"#\n", b"# pack-refs with: peeled\n", b"^" + b"a" * 40 + b"\n"]
    outs = ctx.driver.batch(["c16.packed.read " + hx(m) for m in muts])
    for data, mo in zip(muts, outs):
        back = real_read_packed(ctx, data)
        ctx.count("packed.read", data, True, "err" if back[0] == "err" else "ok")
        mback = ("err",) if mo == "err" else fold_entries(mo[3:])
        if (back[0] == "err") != (mo == "err") or (back[0] != "err" and back != mback):
            ctx.disagree("packed.read", {"file": hx(data)}, mo[:200], repr(back)[:200])


# ------------------------------------------------------------------------------------------------
# corpus, run, search, replay

def run_case(ctx, repos, stream: str, case: dict, verbose: bool = False):
    """Re-execute one stored case (corpus witness or replay file) through the same oracles."""
    say = print if verbose else (lambda *a, **k: None)
    if "name" in case:
        n = unhx(case["name"])
        r = real_check_ref_format(n)
        g = git_check_many([n], repos.env)[0]
        mo = ctx.driver.batch(["c16.fmt " + hx(n)])[0]
        say(f"  check_ref_format({n!r}) = {r}; git check-ref-format: {g}; model: {mo}")
        if r == "raise":
            ctx.oracle_fail(stream, case, "check_ref_format raised", None)
        elif g is not None and r != ("1" if g else "0"):
            ctx.oracle_fail(stream, case, f"check_ref_format({n!r}) = {r} but git says {g}", fmt_class(n))
        return
    if "file" in case:
        data = unhx(case["file"])
        back = real_read_packed(ctx, data)
        mo = ctx.driver.batch(["c16.packed.read " + hx(data)])[0]
        say("  packed-refs read:", back, "model:", mo[:200])
        if back[0] != "err":
            import io
            from dulwich.refs import write_packed_refs
            f = io.BytesIO()
            write_packed_refs(f, back[0], back[1])
            if real_read_packed(ctx, f.getvalue()) != back:
                ctx.oracle_fail(stream, case, "packed-refs written and read back differ", None)
        return
    if "backend" in case:
        ops = [op_from_json(o) for o in case["ops"]]
        res = run_sequence(ctx, repos, case["backend"], init_from_json(case["init"]), ops, stream=stream.split(".git")[0].split(".model")[0],
                           git_every=1)
        for op, ret in zip(res.ops, res.rets):
            say(f"  {op_readable(op)} -> {ret[:100]}")
        if verbose:
            compare_with_model(ctx, [res])
            for dgr in ctx.disagreements[-1:]:
                say("  model disagrees:", str(dgr["model"])[:200], "| impl:", str(dgr["impl"])[:200])
        return
    raise core.InfraError(f"unrecognised case {case!r:.200}")


def _run_corpus(ctx, repos):
    import json
    d = core.VERIF / "corpus" / "C16"
    if not d.exists():
        return
    for f in sorted(d.glob("*.json")):
        c = json.loads(f.read_text())
        before = len(ctx.oracle_failures) + sum(ctx.known_hit.values())
        run_case(ctx, repos, c.get("stream", "corpus"), c["case"])
        after = len(ctx.oracle_failures) + sum(ctx.known_hit.values())
        ctx.count("corpus", f.name, True, "fails" if after > before else "holds")


def run(ctx: core.Ctx):
    repos = Repos(ctx)
    ctx.assumptions += [
        "ref names in operation sequences have no empty path component; one work tree; no concurrent writer; "
        "no symlinks below the git dir (state assumptions of the Disk model, true of everything generated)",
        "exception classes are compared after canonicalisation (every OSError subclass = 'os')",
        "C git 2.39.5 is the third party for for-each-ref / symbolic-ref / show-ref -d / check-ref-format; names "
        "containing NUL, the empty name and names with a leading '-' cannot be passed to git check-ref-format",
        "reftable backend: only set_if_equals/add_if_new/remove_if_equals/set_symbolic_ref (+__setitem__/__delitem__) "
        "are modelled, observed through read_loose_ref",
    ]
    try:
        from dulwich.reftable import ReftableRefsContainer  # noqa: F401
        ctx.extra_cov["reftable_constructible"] = True
    except Exception as e:  # noqa: BLE001
        ctx.extra_cov["reftable_constructible"] = False
        ctx.notes.append(f"reftable backend not importable at this commit: {e}")
        BACKENDS.remove("reftable")
    _run_corpus(ctx, repos)
    stream_fmt(ctx, repos)
    stream_packed(ctx)
    stream_chains(ctx, repos)
    stream_siblings(ctx, repos)
    stream_sequences(ctx, repos, ctx.budget(160, mult=8), git_every=5 if ctx.thorough else 0)
    ctx.extra_cov["backends"] = list(BACKENDS)
    ctx.extra_cov["universe"] = [n.decode() for n in NAMES]


def search(ctx: core.Ctx):
    """Failing-input search after a broken obligation / correspondence: the direct oracles, harder, around the
    disagreeing cases."""
    repos = Repos(ctx)
    rng = ctx.rng
    # 1. ref-name cases: the disagreeing names and their one-byte neighbourhood against C git
    names = []
    for dgr in ctx.disagreements:
        c = dgr["case"]
        if "name" in c:
            n = unhx(c["name"])
            if n.startswith(b"refs/") and dgr["stream"].startswith("refname"):
                n = n[5:]
            names.append(n)
            for i in range(len(n) + 1):
                for b in ALPHABET + [0x6c, 0x6f, 0x63, 0x6b]:
                    names.append(n[:i] + bytes([b]) + n[i:])
                    if i < len(n):
                        names.append(n[:i] + bytes([b]) + n[i + 1:])
                if i < len(n):
                    names.append(n[:i] + n[i + 1:])
    lean_broken = ctx.lean is not None and not ctx.lean.ok
    if lean_broken or names:
        import itertools
        names += [bytes(t) for ln in range(5) for t in itertools.product(ALPHABET, repeat=ln)]
        names += [b"".join(t) for ln in range(1, 4) for t in itertools.product(TOKENS, repeat=ln)]
    names = list(dict.fromkeys(names))
    for n, g in zip(names, git_check_many(names, repos.env)):
        if g is None:
            continue
        r = real_check_ref_format(n)
        if r != ("1" if g else "0"):
            ctx.oracle_fail("search.fmt.git", {"name": hx(n)},
                            f"check_ref_format({n!r}) = {r} but `git check-ref-format` says {'valid' if g else 'invalid'}", fmt_class(n))
            if len(ctx.oracle_failures) >= 3:
                return
    # 1b. file-versus-directory collisions with packed-only refs among byte-order neighbours (a changed
    # _check_packed_conflict breaks the translator obligation: look for the concrete packed set and name)
    stream_siblings(ctx, repos, extra=ctx.budget(80))
    if ctx.oracle_failures:
        return
    # 2. sequences: replay the disagreeing ones on every backend with the oracle after every step, then many more
    for dgr in ctx.disagreements:
        c = dgr["case"]
        if "backend" in c:
            ops = [op_from_json(o) for o in c["ops"]]
            for b in BACKENDS:
                run_sequence(ctx, repos, b, init_from_json(c["init"]), ops, stream="search.seq." + b, git_every=1)
    if ctx.oracle_failures:
        return
    for i in range(ctx.budget(150)):
        init = gen_init(rng, repos)
        first = run_sequence(ctx, repos, "disk", init, None, 30, rng, stream="search.seq.disk", git_every=3)
        for b in BACKENDS[1:]:
            run_sequence(ctx, repos, b, init, first.ops, stream="search.seq." + b, git_every=3)
        if ctx.oracle_failures:
            return
    # 3. packed-refs files
    stream_packed(ctx)


def replay(ctx: core.Ctx, data: dict) -> int:
    repos = Repos(ctx)
    if data.get("kind") == "broken-obligation":
        print("replay: this file names a broken proof obligation / correspondence, not a failing input:")
        for w in data.get("no_longer_checks", []):
            print("  ", w)
        for dgr in data.get("disagreements", [])[:3]:
            print("  disagreement:", str(dgr)[:300])
            if "case" in dgr and dgr["case"]:
                run_case(ctx, repos, "replay", dgr["case"], verbose=True)
    else:
        run_case(ctx, repos, data.get("stream", "replay"), data.get("case", {}), verbose=True)
    for k in ctx.known:
        if ctx.known_hit.get(k["id"]):
            print(f"KNOWN-FINDING: property=C16 {k['id']}: {k['what']}")
    if ctx.oracle_failures:
        for f in ctx.oracle_failures[:5]:
            print("  fails:", f["what"][:300])
        print(f"VIOLATION property=C16 replay={data.get('_path', '<replayed>')}")
        return 1
    print("replay: property holds on this case" + (" (apart from known findings)" if ctx.known_hit else ""))
    return 0
