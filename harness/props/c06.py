"""C06 — a push reports success exactly for the refs it changed; server refs stay valid; atomic pushes
are all-or-nothing.

Model: lean/DulwichModel/Model/ReceivePack.lean; theorems: Props/C06.lean.
Tie: translate() regenerates Gen/ReceivePack.lean (exception tuple, status literals, report-status line
formats, capability lists, zero sha, and three booleans saying whether `_apply_pack` uses the CAS result /
checks the new object / validates old values under `atomic`); run() drives the correspondence streams
(model vs the real ReceivePackHandler over an in-memory pkt-line transport against bare disk repos, model vs
the real LocalGitClient.send_pack, model vs the real ReportStatusParser) and the direct oracle in the
property's words.
"""
from __future__ import annotations

import ast
import io
import json
import os
import shutil
import struct
import zlib
import hashlib
from pathlib import Path

from .. import core, translate as T
from ..core import hx, unhx

MOD = "c06"
PROP = "C06"


# ------------------------------------------------------------------------------------------------
# translator

def _calls_attr(node: ast.AST, attr: str) -> list[ast.Call]:
    return [n for n in ast.walk(node) if isinstance(n, ast.Call) and isinstance(n.func, ast.Attribute)
            and n.func.attr == attr]


def _bytes_const(node) -> bytes:
    if isinstance(node, ast.Constant) and isinstance(node.value, bytes):
        return node.value
    raise T.TranslateError(f"expected a bytes literal, got {ast.dump(node)[:80]}")


def _flatten_add(node) -> list:
    """b"ng " + name + b" " + msg + b"\\n"  ->  [b"ng ", "name", b" ", "msg", b"\\n"]"""
    if isinstance(node, ast.BinOp) and isinstance(node.op, ast.Add):
        return _flatten_add(node.left) + _flatten_add(node.right)
    if isinstance(node, ast.Constant) and isinstance(node.value, bytes):
        return [node.value]
    if isinstance(node, ast.Name) and node.id in ("name", "msg"):
        return [node.id]
    raise T.TranslateError(f"_report_status: unexpected operand {ast.dump(node)[:80]}")


def _lean_parts(parts: list) -> str:
    out = []
    for p in parts:
        if isinstance(p, bytes):
            out.append(f".lit {T.lean_bytes(p)}")
        else:
            out.append(f".{p}")
    return "[" + ", ".join(out) + "]"


def _cap_list(func: ast.AST, consts: dict) -> list[bytes]:
    """The CAPABILITY_* names of the list returned by a `capabilities()`-style method (calls such as
    capability_agent() / capability_object_format(...) are skipped: they carry a value)."""
    rets = [n for n in ast.walk(func) if isinstance(n, ast.Return) and isinstance(n.value, ast.List)]
    if len(rets) != 1:
        raise T.TranslateError(f"{func.name}: expected one `return [...]`")
    out = []
    for e in rets[0].value.elts:
        if isinstance(e, ast.Name):
            if e.id not in consts:
                raise T.TranslateError(f"{func.name}: unknown capability constant {e.id}")
            out.append(consts[e.id])
        elif isinstance(e, ast.Call):
            continue
        else:
            raise T.TranslateError(f"{func.name}: unexpected element {ast.dump(e)[:60]}")
    return out


def _handler_assign(handler: ast.ExceptHandler, var="ref_status") -> bytes:
    for st in handler.body:
        if isinstance(st, ast.Assign) and isinstance(st.targets[0], ast.Name) and st.targets[0].id == var:
            return _bytes_const(st.value)
    raise T.TranslateError("except handler does not assign ref_status")


def _exc_names(node) -> list[str]:
    if node is None:
        return ["BaseException"]
    if isinstance(node, ast.Tuple):
        return [ast.unparse(e) for e in node.elts]
    return [ast.unparse(node)]


def _one(values, what):
    vs = set(values)
    if len(vs) != 1:
        raise T.TranslateError(f"{what}: expected exactly one distinct value, got {sorted(map(repr, vs))}")
    return vs.pop()


def extract(repo: Path) -> dict:
    """Everything the model takes from the source, as a python dict (also used by the harness)."""
    srv = T.module_ast(repo / "dulwich" / "server.py")
    cli = T.module_ast(repo / "dulwich" / "client.py")
    proto = T.module_ast(repo / "dulwich" / "protocol.py")
    ofmt = T.module_ast(repo / "dulwich" / "object_format.py")
    caps_consts = {}
    for st in proto.body:
        if isinstance(st, ast.Assign) and isinstance(st.targets[0], ast.Name) and st.targets[0].id.startswith("CAPABILITY_") \
                and isinstance(st.value, ast.Constant) and isinstance(st.value.value, bytes):
            caps_consts[st.targets[0].id] = st.value.value
    d: dict = {}
    ap = T.find_def(srv, "ReceivePackHandler._apply_pack")
    # exception tuple
    tup = None
    zero_char = None
    for n in ast.walk(ap):
        if isinstance(n, ast.Assign) and isinstance(n.targets[0], ast.Name):
            if n.targets[0].id == "all_exceptions" and isinstance(n.value, ast.Tuple):
                tup = [ast.unparse(e) for e in n.value.elts]
            if n.targets[0].id == "zero_sha":
                for m in ast.walk(n.value):
                    if isinstance(m, ast.BinOp) and isinstance(m.op, ast.Mult) and isinstance(m.left, ast.Constant) \
                            and isinstance(m.left.value, bytes) and "hex_length" in ast.unparse(m.right):
                        zero_char = m.left.value
    if not tup:
        raise T.TranslateError("_apply_pack: all_exceptions tuple not found")
    if zero_char is None or len(zero_char) != 1:
        raise T.TranslateError("_apply_pack: zero_sha = b'0' * hex_length not found")
    d["all_exceptions"] = tup
    d["zero_char"] = zero_char
    hexlen = None
    for st in ofmt.body:
        if isinstance(st, ast.Assign) and isinstance(st.targets[0], ast.Name) and st.targets[0].id == "SHA1" \
                and isinstance(st.value, ast.Call):
            for kw in st.value.keywords:
                if kw.arg == "hex_length":
                    hexlen = T.eval_literal(kw.value)
    if not isinstance(hexlen, int):
        raise T.TranslateError("object_format.SHA1 hex_length not found")
    d["hex_length"] = hexlen
    # yields: (b"unpack", b"ok") x2, (b"unpack", <error>), (ref, b"atomic push failed"), ...
    unpack_names, ok_msgs, atomic_msgs = [], [], []
    for n in ast.walk(ap):
        if isinstance(n, ast.Yield) and isinstance(n.value, ast.Tuple) and len(n.value.elts) == 2:
            a, b = n.value.elts
            if isinstance(a, ast.Constant):
                unpack_names.append(_bytes_const(a))
                if isinstance(b, ast.Constant):
                    ok_msgs.append(_bytes_const(b))
            elif isinstance(b, ast.Constant):
                atomic_msgs.append(_bytes_const(b))
    d["unpack_name"] = _one(unpack_names, "_apply_pack unpack entry name")
    d["ok"] = _one(ok_msgs, "_apply_pack unpack ok message")
    d["atomic_failed"] = _one(atomic_msgs, "_apply_pack atomic failure message")
    # `ref_status = b"ok"` initialisations and the `status == b"ok"` test must use the same literal
    # the first statement of each `for oldsha, sha, ref in refs:` body
    inits = []
    for n in ast.walk(ap):
        if isinstance(n, ast.For) and ast.unparse(n.target) == "(oldsha, sha, ref)":
            st0 = n.body[0]
            if not (isinstance(st0, ast.Assign) and isinstance(st0.targets[0], ast.Name) and st0.targets[0].id == "ref_status"):
                raise T.TranslateError("_apply_pack: a ref loop does not start with `ref_status = ...`")
            inits.append(_bytes_const(st0.value))
    if len(inits) != 3:
        raise T.TranslateError(f"_apply_pack: expected three loops over the commands, found {len(inits)}")
    if _one(inits, "_apply_pack ref_status initial value") != d["ok"]:
        raise T.TranslateError("_apply_pack: ref_status is not initialised to the unpack ok literal")
    # try/except structure around the CAS calls
    fd, fw, bad, bad_types, inner_types, lock_handlers = [], [], [], [], [], []
    for n in ast.walk(ap):
        if not isinstance(n, ast.Try):
            continue
        direct = [s for s in n.body if not isinstance(s, (ast.Try, ast.If))]
        has_rm = any(_calls_attr(s, "remove_if_equals") for s in direct)
        has_set = any(_calls_attr(s, "set_if_equals") for s in direct)
        if not (has_rm or has_set):
            # `if not ...set_if_equals(...)` directly inside the try (repaired shape)
            ifs = [s for s in n.body if isinstance(s, ast.If)]
            has_rm = any(_calls_attr(s.test, "remove_if_equals") for s in ifs)
            has_set = any(_calls_attr(s.test, "set_if_equals") for s in ifs)
        if has_rm or has_set:
            # `except all_exceptions:` possibly preceded by one handler for a held lock (`except FileLocked:`)
            if len(n.handlers) not in (1, 2):
                raise T.TranslateError("_apply_pack: CAS try block with more than two handlers")
            main_h = n.handlers[-1]
            lock_handlers.append((tuple(_exc_names(n.handlers[0].type)), _handler_assign(n.handlers[0])) if len(n.handlers) == 2 else None)
            inner_types.append(tuple(_exc_names(main_h.type)))
            (fd if has_rm else fw).append(_handler_assign(main_h))
        elif any(isinstance(s, (ast.Try, ast.If)) for s in n.body) and _calls_attr(n, "set_if_equals") + _calls_attr(n, "remove_if_equals") \
                or any("delete refs" in ast.unparse(s) for s in n.body):
            for h in n.handlers:
                bad.append(_handler_assign(h))
                bad_types.append(tuple(_exc_names(h.type)))
    d["failed_delete"] = _one(fd, "_apply_pack failed-to-delete literal")
    d["failed_write"] = _one(fw, "_apply_pack failed-to-write literal")
    d["bad_ref"] = _one(bad, "_apply_pack bad-ref literal")
    if _one(inner_types, "CAS try handler type") != ("all_exceptions",):
        raise T.TranslateError("_apply_pack: CAS calls are not guarded by `except all_exceptions`")
    d["bad_ref_catches"] = list(_one(bad_types, "_apply_pack outer handler type"))
    lh = _one(lock_handlers, "_apply_pack handler in front of `except all_exceptions` (same at every CAS call or nowhere)")
    d["lock_catches"] = list(lh[0]) if lh else []
    d["failed_lock"] = lh[1] if lh else None
    if lh and "all_exceptions" in lh[0]:
        raise T.TranslateError("_apply_pack: two handlers for all_exceptions")
    # is the boolean returned by the ref container used?
    cas_calls = _calls_attr(ap, "set_if_equals") + _calls_attr(ap, "remove_if_equals")
    bare = [c for c in cas_calls if any(isinstance(s, ast.Expr) and s.value is c for s in ast.walk(ap))]
    if len(cas_calls) < 2:
        raise T.TranslateError("_apply_pack: set_if_equals/remove_if_equals calls not found")
    if bare and len(bare) != len(cas_calls):
        raise T.TranslateError("_apply_pack: the CAS result is used at some call sites and dropped at others "
                               "(the model has one switch)")
    d["cas_result_used"] = not bare
    # atomic branch: validation loop, apply loop; non-atomic loop
    atomic_if = None
    for n in ast.walk(ap):
        if isinstance(n, ast.If) and isinstance(n.test, ast.Name) and n.test.id == "atomic":
            atomic_if = n
    if atomic_if is None:
        raise T.TranslateError("_apply_pack: `if atomic:` not found")
    loops = [s for s in atomic_if.body if isinstance(s, ast.For)]
    plain = [s for s in atomic_if.orelse if isinstance(s, ast.For)]
    if len(loops) != 2 or len(plain) != 1:
        raise T.TranslateError("_apply_pack: expected a validation loop and an apply loop under `if atomic:` and one loop otherwise")

    def checks_object(node) -> bool:
        """does `node` test that `sha` is in the object store (directly or through self._has_object)?"""
        for n in ast.walk(node):
            if isinstance(n, ast.Compare) and isinstance(n.ops[0], (ast.In, ast.NotIn)) and "object_store" in ast.unparse(n.comparators[0]):
                return True
            if isinstance(n, ast.Call) and ast.unparse(n.func) == "self._has_object":
                if ast.unparse(n) != "self._has_object(sha, zero_sha)":
                    raise T.TranslateError(f"_apply_pack: unexpected call {ast.unparse(n)}")
                return True
        return False
    if "self._has_object" in ast.unparse(ap):
        ho = ast.unparse(T.find_def(srv, "ReceivePackHandler._has_object"))
        if "return len(sha) == len(zero_sha) and sha in self.repo.object_store" not in ho:
            raise T.TranslateError("ReceivePackHandler._has_object is not the modelled test (length and membership)")
    # is membership of the new object in the object store checked?  (non-atomic loop / atomic validation loop)
    d["new_object_checked"] = checks_object(plain[0])
    d["atomic_validates_new"] = checks_object(loops[0])
    if checks_object(loops[1]):
        raise T.TranslateError("_apply_pack: the atomic apply loop tests the object store (the model has no switch for that)")
    # does the validation loop compare old values with the current refs?
    val_src = ast.unparse(loops[0])
    d["atomic_validates_old"] = "_ref_matches" in val_src
    if d["atomic_validates_old"]:
        if "self._ref_matches(ref, oldsha, zero_sha, follow=sha != zero_sha)" not in val_src:
            raise T.TranslateError("_apply_pack: _ref_matches is not called as modelled")
        rm = ast.unparse(T.find_def(srv, "ReceivePackHandler._ref_matches"))
        for frag in ("value = self.repo.refs.follow(ref)[1]", "value = self.repo.refs.read_ref(ref)", "return (value or zero_sha) == oldsha"):
            if frag not in rm:
                raise T.TranslateError(f"ReceivePackHandler._ref_matches is not the modelled comparison (missing `{frag}`)")
    elif any(k in val_src for k in ("refs.read_ref", "refs.follow", "refs.get(", "refs[")):
        raise T.TranslateError("_apply_pack: the validation loop reads refs in a way the model does not know")
    if _calls_attr(loops[0], "set_if_equals") or _calls_attr(loops[0], "remove_if_equals"):
        raise T.TranslateError("_apply_pack: atomic validation loop mutates refs")
    # repaired-only literals
    d["stale"] = d["missing"] = None
    if d["cas_result_used"] or d["atomic_validates_old"] or d["new_object_checked"] or d["atomic_validates_new"]:
        lits = {n.value for n in ast.walk(ap) if isinstance(n, ast.Constant) and isinstance(n.value, bytes)}
        known = {d[k] for k in ("unpack_name", "ok", "atomic_failed", "failed_delete", "failed_write", "bad_ref", "zero_char", "failed_lock")}
        extra = sorted(lits - known)
        stale = [x for x in extra if b"stale" in x or b"lock" in x or b"expected" in x]
        missing = [x for x in extra if b"missing" in x]
        if (d["cas_result_used"] or d["atomic_validates_old"]) and len(stale) != 1:
            raise T.TranslateError(f"_apply_pack: cannot identify the stale-old status literal among {extra}")
        if (d["new_object_checked"] or d["atomic_validates_new"]) and len(missing) != 1:
            raise T.TranslateError(f"_apply_pack: cannot identify the missing-object status literal among {extra}")
        d["stale"] = stale[0] if stale else None
        d["missing"] = missing[0] if missing else None
    # delete-refs check: against the server's own list (as coded) or the client's capabilities
    src = ast.unparse(ap)
    if "CAPABILITY_DELETE_REFS not in self.capabilities()" in src:
        d["delete_check_client"] = False
    elif "self.has_capability(CAPABILITY_DELETE_REFS)" in src:
        d["delete_check_client"] = True
    else:
        raise T.TranslateError("_apply_pack: delete-refs capability check not found")
    if "self.has_capability(CAPABILITY_ATOMIC)" not in src:
        raise T.TranslateError("_apply_pack: atomic is not taken from the client capability")
    d["atomic_cap"] = caps_consts["CAPABILITY_ATOMIC"]
    d["delete_cap"] = caps_consts["CAPABILITY_DELETE_REFS"]
    d["report_cap"] = caps_consts["CAPABILITY_REPORT_STATUS"]
    d["sideband_cap"] = caps_consts["CAPABILITY_SIDE_BAND_64K"]
    d["agent_cap"] = caps_consts["CAPABILITY_AGENT"]
    # _report_status: three line formats and the two tests
    rs = T.find_def(srv, "ReceivePackHandler._report_status")
    loop = [n for n in ast.walk(rs) if isinstance(n, ast.For)]
    if len(loop) != 1 or not isinstance(loop[0].body[0], ast.If):
        raise T.TranslateError("_report_status: status loop not found")
    i1 = loop[0].body[0]
    if not (isinstance(i1.test, ast.Compare) and ast.unparse(i1.test.left) == "name" and isinstance(i1.test.ops[0], ast.Eq)):
        raise T.TranslateError("_report_status: `name == b'unpack'` test not found")
    d["rs_unpack_name"] = _bytes_const(i1.test.comparators[0])
    i2 = i1.orelse[0] if i1.orelse and isinstance(i1.orelse[0], ast.If) else None
    if i2 is None or not (isinstance(i2.test, ast.Compare) and ast.unparse(i2.test.left) == "msg" and isinstance(i2.test.ops[0], ast.Eq)):
        raise T.TranslateError("_report_status: `msg == b'ok'` test not found")
    d["rs_ok_msg"] = _bytes_const(i2.test.comparators[0])

    def wr(body):
        if len(body) != 1 or not isinstance(body[0], ast.Expr) or not isinstance(body[0].value, ast.Call) \
                or ast.unparse(body[0].value.func) != "write":
            raise T.TranslateError("_report_status: expected a single write(...)")
        return _flatten_add(body[0].value.args[0])
    d["fmt_unpack"], d["fmt_ok"], d["fmt_ng"] = wr(i1.body), wr(i2.body), wr(i2.orelse)
    if "CAPABILITY_SIDE_BAND_64K" not in ast.unparse(rs):
        raise T.TranslateError("_report_status: side-band branch not found")
    # handle(): pre-receive literal, report-status gating
    hd = T.find_def(srv, "ReceivePackHandler.handle")
    pre = {n.value for n in ast.walk(hd) if isinstance(n, ast.Constant) and isinstance(n.value, bytes) and b"pre-receive" in n.value}
    d["pre_receive_declined"] = _one(pre, "handle pre-receive literal")
    hsrc = ast.unparse(hd)
    if hsrc.count("self.has_capability(CAPABILITY_REPORT_STATUS)") != 2 or "list(self._apply_pack(client_refs))" not in hsrc:
        raise T.TranslateError("handle: report-status gating / _apply_pack call not as modelled")
    d["server_caps"] = _cap_list(T.find_def(srv, "ReceivePackHandler.capabilities"), caps_consts)
    d["innocuous_caps"] = _cap_list(T.find_def(srv, "PackHandler.innocuous_capabilities"), caps_consts)
    # client parser
    chk = T.find_def(cli, "ReportStatusParser.check")
    okset = None
    for n in ast.walk(chk):
        if isinstance(n, ast.Compare) and isinstance(n.ops[0], ast.NotIn) and "_pack_status" in ast.unparse(n.left):
            okset = T.eval_literal(n.comparators[0])
    if not okset or None not in okset:
        raise T.TranslateError("ReportStatusParser.check: pack status test not found")
    d["parser_unpack_ok"] = _one([x for x in okset if x is not None], "parser unpack-ok literal")
    cmps = {}
    for n in ast.walk(chk):
        if isinstance(n, ast.Compare) and ast.unparse(n.left) == "status" and isinstance(n.ops[0], ast.Eq):
            cmps[_bytes_const(n.comparators[0])] = True
    if len(cmps) != 2:
        raise T.TranslateError(f"ReportStatusParser.check: expected two status keywords, got {list(cmps)}")
    ks = list(cmps)  # source order: ng, ok
    d["parser_ng"], d["parser_ok"] = ks[0], ks[1]
    seps = {_bytes_const(c.args[0]) for c in _calls_attr(chk, "split")}
    d["parser_sep"] = _one(seps, "parser split separator")
    if len(d["parser_sep"]) != 1:
        raise T.TranslateError("parser split separator is not one byte")
    if any(T.eval_literal(c.args[1]) != 1 for c in _calls_attr(chk, "split")):
        raise T.TranslateError("parser split maxsplit != 1")
    hp = T.find_def(cli, "ReportStatusParser.handle_packet")
    if ast.unparse(hp).count("pkt.strip()") != 2:
        raise T.TranslateError("ReportStatusParser.handle_packet: pkt.strip() x2 not found")
    # LocalGitClient.send_pack messages (used to canonicalise the real messages)
    lsp = T.find_def(cli, "LocalGitClient.send_pack")
    strs, fstr = [], []
    for n in ast.walk(lsp):
        if isinstance(n, ast.JoinedStr):
            first = n.values[0]
            if isinstance(first, ast.Constant) and isinstance(first.value, str):
                strs.append(first.value.strip())
                fstr.append(first.value.strip())
        elif isinstance(n, ast.Constant) and isinstance(n.value, str) and n.value.startswith(("unable", "atomic")):
            strs.append(n.value.strip())
    d["local_set_prefix"] = _one([s for s in strs if s.startswith("unable to set")], "local 'unable to set' prefix")
    d["local_remove"] = _one([s for s in strs if s.startswith("unable to remove")], "local 'unable to remove'")
    d["local_atomic"] = _one([s for s in strs if s.startswith("atomic")], "local atomic failure message")
    lsrc = ast.unparse(lsp)
    d["local_uses_cas_result"] = "not target.refs.set_if_equals(" in lsrc and "if not target.refs.remove_if_equals(" in lsrc
    l_atomic = [n for n in ast.walk(lsp) if isinstance(n, ast.If) and isinstance(n.test, ast.Name) and n.test.id == "atomic"]
    l_loops = [n for n in ast.walk(lsp) if isinstance(n, ast.For) and "new_refs.items()" in ast.unparse(n.iter)]
    if len(l_atomic) != 1 or len(l_loops) != 3:
        raise T.TranslateError("LocalGitClient.send_pack: expected `if atomic:` and three loops over new_refs.items()")
    pre = [n for n in l_loops if any(n is m for m in ast.walk(l_atomic[0]))]
    app = [n for n in l_loops[1:] if not any(n is m for m in ast.walk(l_atomic[0]))]
    if len(pre) != 1 or len(app) != 1:
        raise T.TranslateError("LocalGitClient.send_pack: cannot tell the atomic pre-check from the apply loop")
    pre_src, app_src = ast.unparse(pre[0]), ast.unparse(app[0])
    objtest = "new_sha1 not in target.object_store"
    d["local_checks_new"] = objtest in app_src
    d["local_precheck_checks_new"] = objtest in pre_src
    if pre_src.count("target.refs.get_peeled(refname)") == 2 and pre_src.count("current is not None and current != old_sha1") == 2:
        d["local_precheck_get_peeled"] = True
    elif "current = target.refs.follow(refname)[1]" in pre_src and "current = target.refs.read_ref(refname)" in pre_src \
            and pre_src.count("(current or ZERO_SHA) != old_sha1") == 2 and "get_peeled" not in pre_src:
        d["local_precheck_get_peeled"] = False
    else:
        raise T.TranslateError("LocalGitClient.send_pack: the atomic pre-check reads the current value in a way the model does not know")
    if d["local_checks_new"] or d["local_precheck_checks_new"]:
        d["local_missing_prefix"] = _one([s_ for s_ in fstr if s_.startswith("missing")], "local missing-object message")
    else:
        d["local_missing_prefix"] = "missing object"
    d["fingerprints"] = {"_apply_pack": T.fingerprint(ap), "_report_status": T.fingerprint(rs), "handle": T.fingerprint(hd),
                         "ReportStatusParser.check": T.fingerprint(chk), "LocalGitClient.send_pack": T.fingerprint(lsp)}
    return d


def translate(repo: Path) -> dict:
    d = extract(repo)
    lb = T.lean_bytes

    def names(xs):
        return "[" + ", ".join(lb(x.encode() if isinstance(x, str) else x) for x in xs) + "]"

    def b(v):
        return "true" if v else "false"
    stale = d["stale"] if d["stale"] is not None else b"stale info"
    missing = d["missing"] if d["missing"] is not None else b"missing necessary objects"
    src = T.lean_header("dulwich/server.py: ReceivePackHandler._apply_pack/_report_status/handle/capabilities; "
                        "dulwich/client.py: ReportStatusParser, LocalGitClient.send_pack; object_format.SHA1") + f"""
import DulwichModel.Model.Basic
namespace Dulwich.Gen.ReceivePack
open Dulwich

/-- operand of a `_report_status` line format -/
inductive Part where
  | lit (b : Bytes)
  | name
  | msg
  deriving DecidableEq, Repr

/-- `all_exceptions` in `_apply_pack` (source spelling): {", ".join(d["all_exceptions"])} -/
def allExceptions : List Bytes := {names(d["all_exceptions"])}
/-- exception classes of the outer `except` around the per-ref update: {", ".join(d["bad_ref_catches"])} -/
def badRefCatches : List Bytes := {names(d["bad_ref_catches"])}
/-- `b"0"` in `zero_sha = b"0" * hex_length` -/
def zeroChar : UInt8 := {d["zero_char"][0]}
/-- `object_format.SHA1.hex_length` -/
def hexLength : Nat := {d["hex_length"]}
/-- `(b"unpack", b"ok")` -/
def unpackName : Bytes := {lb(d["unpack_name"])}
def okMsg : Bytes := {lb(d["ok"])}
/-- {d["atomic_failed"]!r} -/
def atomicFailedMsg : Bytes := {lb(d["atomic_failed"])}
/-- {d["failed_delete"]!r} -/
def failedDeleteMsg : Bytes := {lb(d["failed_delete"])}
/-- {d["failed_write"]!r} -/
def failedWriteMsg : Bytes := {lb(d["failed_write"])}
/-- {d["bad_ref"]!r} -/
def badRefMsg : Bytes := {lb(d["bad_ref"])}
/-- exception classes of the handler in front of `except all_exceptions` around each compare-and-swap call (a held lock): {", ".join(d["lock_catches"]) or "none in the source"} -/
def lockCatches : List Bytes := {names(d["lock_catches"])}
/-- its status ({'from the source' if d['failed_lock'] is not None else 'NOT in the source; wording of the proposed fix'}) -/
def failedLockMsg : Bytes := {lb(d["failed_lock"] if d["failed_lock"] is not None else b"failed to lock")}
/-- {d["pre_receive_declined"]!r} (handle) -/
def preReceiveDeclinedMsg : Bytes := {lb(d["pre_receive_declined"])}
/-- status for a failed compare-and-swap ({'from the source' if d['stale'] is not None else 'NOT in the source: the CAS result is dropped; wording of the proposed fix'}): {stale!r} -/
def staleMsg : Bytes := {lb(stale)}
/-- status for a new value the object store does not have ({'from the source' if d['missing'] is not None else 'NOT in the source; wording of the proposed fix'}): {missing!r} -/
def missingMsg : Bytes := {lb(missing)}
/-- does `_apply_pack` use the boolean returned by set_if_equals/remove_if_equals? -/
def casResultUsed : Bool := {b(d["cas_result_used"])}
/-- does `_apply_pack` test `new in object_store`? -/
def newObjectChecked : Bool := {b(d["new_object_checked"])}
/-- does the atomic validation loop compare old values with the current refs? -/
def atomicValidatesOld : Bool := {b(d["atomic_validates_old"])}
/-- does the atomic validation loop test `new in object_store`? -/
def atomicValidatesNew : Bool := {b(d["atomic_validates_new"])}
/-- is the delete-refs test made against the client's capabilities (false: the server's own list, as coded)? -/
def deleteCheckClient : Bool := {b(d["delete_check_client"])}
def atomicCap : Bytes := {lb(d["atomic_cap"])}
def deleteRefsCap : Bytes := {lb(d["delete_cap"])}
def reportStatusCap : Bytes := {lb(d["report_cap"])}
def sideBand64kCap : Bytes := {lb(d["sideband_cap"])}
def agentCap : Bytes := {lb(d["agent_cap"])}
/-- `ReceivePackHandler.capabilities()` (valued entries omitted): {b" ".join(d["server_caps"]).decode()} -/
def serverCaps : List Bytes := {names(d["server_caps"])}
/-- `PackHandler.innocuous_capabilities()` (agent omitted): {b" ".join(d["innocuous_caps"]).decode()} -/
def innocuousCaps : List Bytes := {names(d["innocuous_caps"])}
/-- `_report_status`: `if name == b"unpack"` / `elif msg == b"ok"` and the three line formats -/
def rsUnpackName : Bytes := {lb(d["rs_unpack_name"])}
def rsOkMsg : Bytes := {lb(d["rs_ok_msg"])}
def fmtUnpack : List Part := {_lean_parts(d["fmt_unpack"])}
def fmtOk : List Part := {_lean_parts(d["fmt_ok"])}
def fmtNg : List Part := {_lean_parts(d["fmt_ng"])}
/-- `ReportStatusParser.check`: {d["parser_unpack_ok"]!r}, {d["parser_ng"]!r}, {d["parser_ok"]!r}, split({d["parser_sep"]!r}, 1) -/
def parserUnpackOk : Bytes := {lb(d["parser_unpack_ok"])}
def parserNg : Bytes := {lb(d["parser_ng"])}
def parserOk : Bytes := {lb(d["parser_ok"])}
def parserSep : UInt8 := {d["parser_sep"][0]}
/-- `LocalGitClient.send_pack` uses `if not target.refs.set_if_equals(...)` / `remove_if_equals(...)` -/
def localUsesCasResult : Bool := {b(d["local_uses_cas_result"])}
/-- the local atomic pre-check reads `target.refs.get_peeled(refname)` (None for loose refs) -/
def localPrecheckGetPeeled : Bool := {b(d["local_precheck_get_peeled"])}
/-- the local apply loop / atomic pre-check test `new_sha1 not in target.object_store` -/
def localChecksNew : Bool := {b(d["local_checks_new"])}
def localPrecheckChecksNew : Bool := {b(d["local_precheck_checks_new"])}
end Dulwich.Gen.ReceivePack
"""
    return {"ReceivePack": src}


# ------------------------------------------------------------------------------------------------
# fixture: a fixed pool of independent commits (ids are stable across runs)

ZERO40 = b"0" * 40
ZERO64 = b"0" * 64
N_POOL = 8          # c0..c3 are in every server store; c4,c5 travel in packs; c6,c7 are never sent
BASE = (0, 1, 2, 3)

_pool = None


def pool():
    """[(blob, tree, commit)] * N_POOL"""
    global _pool
    if _pool is None:
        from dulwich.objects import Blob, Commit, Tree
        out = []
        for i in range(N_POOL):
            b = Blob.from_string(b"blob %d\n" % i)
            t = Tree()
            t.add(b"f", 0o100644, b.id)
            c = Commit()
            c.tree = t.id
            c.author = c.committer = b"v <v@example.com>"
            c.author_time = c.commit_time = 1000 + i
            c.author_timezone = c.commit_timezone = 0
            c.message = b"c%d" % i
            c.parents = []
            out.append((b, t, c))
        _pool = out
    return _pool


def cid(i: int) -> bytes:
    return pool()[i][2].id


def pack_bytes(idxs, variant="ok") -> bytes:
    """Pack with the objects of the commits `idxs`; variants produce the unpack failures of the exception family."""
    from dulwich.object_format import DEFAULT_OBJECT_FORMAT
    from dulwich.pack import write_pack_objects
    if variant == "nopack":
        return b""
    if variant in ("thin-missing-base", "garbage-object"):
        # hand-made pack: one REF_DELTA against a base nobody has / one commit that does not parse
        if variant == "thin-missing-base":
            entries = [(7, b"\x05\x06\x90\x05\x01!", b"1" * 40)]   # delta: copy 5 bytes of the base, insert "!"
        else:
            entries = [(1, b"garbage", None)]
        body = b"PACK" + struct.pack(">II", 2, len(entries))
        for typ, data, base in entries:
            size = len(data)
            c = (typ << 4) | (size & 0xF)
            size >>= 4
            hdr = bytearray()
            while size:
                hdr.append(c | 0x80)
                c = size & 0x7F
                size >>= 7
            hdr.append(c)
            body += bytes(hdr)
            if typ == 7:
                body += bytes.fromhex(base.decode())
            body += zlib.compress(data)
        return body + hashlib.sha1(body).digest()
    f = io.BytesIO()
    objs = [o for i in idxs for o in pool()[i]]
    write_pack_objects(f.write, [(o, None) for o in objs], object_format=DEFAULT_OBJECT_FORMAT)
    data = f.getvalue()
    if variant == "corrupt":
        data = data[:-1] + bytes([data[-1] ^ 1])
    elif variant == "truncated":
        data = data[:-25]
    return data


class ServerDir:
    """One bare disk repository, reset to a given state before every case (init is the expensive part)."""

    def __init__(self, path: Path):
        from dulwich.repo import Repo
        self.path = Path(path)
        if self.path.exists():
            shutil.rmtree(self.path)
        r = Repo.init_bare(str(self.path), mkdir=True)
        for i in BASE:
            for o in pool()[i]:
                r.object_store.add_object(o)
        r.close()
        self.template = {str(p.relative_to(self.path)) for p in (self.path / "objects").rglob("*") if p.is_file()}

    def reset(self, refs: dict, extra_store=(), packed=(), loose_after=None, symrefs=None, head=None):
        """refs: {name: id}; `packed`: pack all refs present so far into packed-refs (with peeled header) and then
        write `loose_after` {name: id} as loose refs on top; `symrefs` {name: target} are written as symbolic refs;
        `head` re-points HEAD (default refs/heads/main, as `init --bare` leaves it)."""
        from dulwich.repo import Repo
        for p in list((self.path / "objects").rglob("*")):
            if p.is_file() and str(p.relative_to(self.path)) not in self.template:
                p.unlink()
        shutil.rmtree(self.path / "refs", ignore_errors=True)
        (self.path / "refs" / "heads").mkdir(parents=True)
        (self.path / "refs" / "tags").mkdir(parents=True)
        for f in ("packed-refs", "hooks/update", "hooks/pre-receive"):
            try:
                (self.path / f).unlink()
            except FileNotFoundError:
                pass
        shutil.rmtree(self.path / "logs", ignore_errors=True)
        r = Repo(str(self.path))
        for i in extra_store:
            for o in pool()[i]:
                r.object_store.add_object(o)
        for n, v in refs.items():
            _write_ref(self.path, n, v)
        if packed:
            r.refs.pack_refs(all=True)
            for n, v in (loose_after or {}).items():
                _write_ref(self.path, n, v)
        for n, t in (symrefs or {}).items():
            _write_ref(self.path, n, SYMREF + t)
        (self.path / "HEAD").write_bytes(SYMREF + (head or b"refs/heads/main") + b"\n")
        r.close()

    def reset_state(self, st: dict):
        enc = lambda d: {k.encode("latin-1"): v.encode("latin-1") for k, v in (d or {}).items()}  # noqa: E731
        self.reset(enc(st["refs"]), extra_store=st.get("extra", ()), packed=st.get("packed"), loose_after=enc(st.get("loose_after")),
                   symrefs=enc(st.get("symrefs")), head=st["head"].encode("latin-1") if st.get("head") else None)
        for n in st.get("locks", ()):          # a lock file held by another writer (another push, a concurrent pack-refs)
            lp = self.path / (n + ".lock")
            lp.parent.mkdir(parents=True, exist_ok=True)
            lp.write_bytes(b"")

    def open(self):
        from dulwich.repo import Repo
        return Repo(str(self.path))


def _write_ref(root: Path, name: bytes, value: bytes):
    p = root / os.fsdecode(name)
    p.parent.mkdir(parents=True, exist_ok=True)
    p.write_bytes(value + b"\n")


SYMREF = b"ref: "


def resolve(refs: dict, name: bytes, depth: int = 6):
    """(last name of the symref chain, object id or None) in a raw refs dict — the harness's own reading, not dulwich's"""
    for _ in range(depth):
        v = refs.get(name)
        if v is None or not v.startswith(SYMREF):
            return name, v
        name = v[len(SYMREF):]
    return name, None


def read_refs(repo, head: bool = False) -> dict:
    """All refs under refs/ as raw stored values (symbolic refs as b"ref: <target>"); HEAD only on request."""
    out = {}
    for n in repo.refs.allkeys():
        if (n == b"HEAD" and not head) or n.endswith(b".lock"):
            continue
        v = repo.refs.read_ref(n)
        if v is not None:
            out[bytes(n)] = bytes(v)
    return out


def in_store(repo, sha: bytes) -> bool:
    try:
        return sha in repo.object_store
    except Exception:
        return False


# ------------------------------------------------------------------------------------------------
# exception class names as the model sees them

def mro_names(exc_type) -> list[bytes]:
    names = []
    for k in exc_type.__mro__:
        if k is object:
            continue
        names.append(k.__name__)
        if k.__module__ not in ("builtins",):
            names.append(f"{k.__module__.split('.')[-1]}.{k.__name__}")
        if k is OSError:
            names += ["IOError", "socket.error", "EnvironmentError"]
    seen, out = set(), []
    for n in names:
        if n not in seen:
            seen.add(n)
            out.append(n.encode())
    return out


def fault_mro(kind: str) -> list[bytes]:
    from dulwich.errors import RefFormatError
    from dulwich.file import FileLocked
    return {"io": mro_names(NotADirectoryError), "key": mro_names(KeyError), "format": mro_names(RefFormatError),
            "lock": mro_names(FileLocked)}[kind]


# ------------------------------------------------------------------------------------------------
# wire path: the real ReceivePackHandler over an in-memory pkt-line transport

BAD_NAMES = [b"refs/heads/a..b", b"refs/heads/x.lock", b"foo", b"refs/heads/sp~1"]
DF_PARENT = b"refs/heads/df"           # loose ref, never commanded
DF_CHILD = b"refs/heads/df/x"          # commanding it fails with an OSError (directory/file conflict)
NAMES = [b"refs/heads/m", b"refs/heads/a", b"refs/heads/b", b"refs/tags/t", b"refs/heads/n/x", b"refs/heads/q"]


class _DenyHook:
    def __init__(self, deny: dict):
        self.deny = deny

    def execute(self, *args):
        from dulwich.errors import HookError
        if len(args) == 3:
            ref = bytes(args[0])
            if ref in self.deny:
                raise HookError(self.deny[ref].decode("latin-1"))
            return b"", b""
        raise HookError("pre-receive says no")


def wire_push(repo, case: dict) -> dict:
    """Drive the real handler with the command list / capabilities / pack of `case`; parse the reply with the real
    client code.  Returns the canonical observation."""
    from dulwich import client as C
    from dulwich.errors import GitProtocolError
    from dulwich.protocol import Protocol, pkt_line
    from dulwich.server import DictBackend, ReceivePackHandler
    cmds = [(c[0].encode(), c[1].encode(), c[2].encode("latin-1")) for c in case["cmds"]]
    caps = [c.encode() for c in case["caps"]]
    inp = io.BytesIO()
    first = True
    for old, new, name in cmds:
        line = old + b" " + new + b" " + name
        if first and caps:
            line += b"\0" + b" ".join(caps)
        first = False
        inp.write(pkt_line(line))
    inp.write(pkt_line(None))
    pk = case.get("pack", {"idx": [], "variant": "ok"})
    inp.write(pack_bytes(pk["idx"], pk["variant"]))
    inp.seek(0)
    out = io.BytesIO()
    obs: dict = {"unpack_exc": None, "unpack_called": False}
    # environment instrumentation (no change to the code under test)
    store = repo.object_store
    orig_add = store.add_thin_pack

    def add_thin_pack(*a, **k):
        obs["unpack_called"] = True
        try:
            return orig_add(*a, **k)
        except BaseException as e:
            obs["unpack_exc"] = type(e)
            raise
    store.add_thin_pack = add_thin_pack
    hooks = {k.encode("latin-1"): v.encode("latin-1") for k, v in case.get("hooks", {}).items()}
    if hooks:
        repo.hooks["update"] = _DenyHook(hooks)
    if case.get("pre"):
        repo.hooks["pre-receive"] = _DenyHook({})
    inject = {k.encode("latin-1"): v for k, v in case.get("faults", {}).items() if v == "key"}
    if inject:
        refs = repo.refs
        o_set, o_rm = refs.set_if_equals, refs.remove_if_equals

        def set_if_equals(name, *a, **k):
            if bytes(name) in inject:
                raise KeyError(name)
            return o_set(name, *a, **k)

        def remove_if_equals(name, *a, **k):
            if bytes(name) in inject:
                raise KeyError(name)
            return o_rm(name, *a, **k)
        refs.set_if_equals, refs.remove_if_equals = set_if_equals, remove_if_equals
    proto = Protocol(inp.read, out.write)
    raised = None
    try:
        h = ReceivePackHandler(DictBackend({"/": repo}), ["/"], proto)
        h.handle()
    except GitProtocolError as e:
        raised = ("protocol", type(e).__name__, str(e)[:120])
    except Exception as e:
        where = "unpack" if obs["unpack_exc"] is type(e) else "ref-error"
        raised = (where, type(e).__name__, str(e)[:120])
    obs["raised"] = raised
    # client side: skip the advertisement, then the real tail handling + status parser
    f = io.BytesIO(out.getvalue())
    p = Protocol(f.read, lambda b: None)
    list(p.read_pkt_seq())

    class RecParser(C.ReportStatusParser):
        def __init__(self):
            super().__init__()
            self.pkts = []

        def handle_packet(self, pkt):
            self.pkts.append(pkt)
            super().handle_packet(pkt)
    obs["pkts"] = None
    obs["parsed"] = None
    if raised is None and b"report-status" in caps and cmds:
        cl = C.LocalGitClient()
        cl.protocol_version = 0
        rp = RecParser()
        cl._report_status_parser = rp
        try:
            st = cl._handle_receive_pack_tail(p, set(caps))
            obs["parsed"] = ("ok", {bytes(k): v for k, v in st.items()})
        except C.SendPackError:
            obs["parsed"] = ("err", "sendpack")
        except GitProtocolError as e:
            obs["parsed"] = ("err", "protocol:" + type(e).__name__)
        except ValueError:
            obs["parsed"] = ("err", "value")
        obs["pkts"] = rp.pkts
        obs["order"] = [s for s in rp._ref_statuses]
    obs["leftover"] = len(f.read())
    return obs


def canon_real_wire(case, obs, post_refs, repo) -> str:
    raised = obs["raised"][0] if obs["raised"] else "-"
    if obs["pkts"] is None:
        report = "none"
    else:
        parts = []
        for pk in obs["pkts"]:
            if pk is None:
                parts.append("flush")
            else:
                if pk.startswith(b"unpack ") and pk.strip() != b"unpack ok" and b"pre-receive" not in pk:
                    pk = b"unpack error\n"
                parts.append(hx(pk))
        if parts and parts[-1] == "flush":
            parts.pop()     # the flush-pkt reaches the parser only on the side-band path
        report = ";".join(parts) if parts else "-"
    if obs["parsed"] is None:
        parsed = "none"
    elif obs["parsed"][0] == "err":
        parsed = "err:" + obs["parsed"][1].split(":")[0]
    else:
        parsed = "ok:" + (",".join(f"{hx(k)}={'ok' if v is None else hx(v.encode('utf-8'))}" for k, v in obs["parsed"][1].items()) or "-")
    refs = ",".join(f"{hx(k)}={hx(v)}" for k, v in sorted(post_refs.items())) or "-"
    return f"raised={raised} report={report} parsed={parsed} refs={refs}"


def canon_model_wire(line: str, case=None) -> tuple[str, dict]:
    d = dict(tok.split("=", 1) for tok in line.split(" "))
    refs = sorted(d["refs"].split(","), key=lambda it: unhx(it.split("=")[0])) if d["refs"] != "-" else []
    parsed = d["parsed"]
    # commanded names back in place of the reduced ones (status entries are positional)
    ren = []
    if case is not None and case.get("_mnames"):
        ren = [(hx(m.encode("latin-1")), hx(c[2].encode("latin-1"))) for c, m in zip(case["cmds"], case["_mnames"])]
    if any(a != b for a, b in ren) and d["report"] not in ("none", "-"):
        parts = d["report"].split(";")
        for i, (a, b) in enumerate(ren):
            if a != b and 1 + i < len(parts) and parts[1 + i] != "flush":
                parts[1 + i] = parts[1 + i].replace("20" + a, "20" + b, 1)
        d["report"] = ";".join(parts)
    if parsed.startswith("ok:"):
        # python dict semantics: a later entry for the same name overwrites the value, keeps the position
        seen = {}
        for i, it in enumerate([] if parsed == "ok:-" else parsed[3:].split(",")):
            k, v = it.split("=")
            if i < len(ren) and ren[i][0] == k:
                k = ren[i][1]
            seen[k] = v
        parsed = "ok:" + (",".join(f"{k}={v}" for k, v in seen.items()) or "-")
    report = d["report"]
    if report.endswith(";flush"):
        report = report[:-6]
    elif report == "flush":
        report = "-"
    return (f"raised={d['raised']} report={report} parsed={parsed} refs={','.join(refs) or '-'}", d)


def model_line_wire(case, pre_refs, pre_store_ids, unpack) -> str:
    def lst(xs):
        return ",".join(xs) or "-"
    caps = lst([hx(c.encode()) for c in case["caps"]])
    refs = lst([f"{hx(k)}={hx(v)}" for k, v in sorted(pre_refs.items())])
    store = lst([hx(i) for i in pre_store_ids])
    hooks = lst([f"{hx(k.encode('latin-1'))}={hx(v.encode('latin-1'))}" for k, v in case.get("hooks", {}).items()])
    faults = lst([f"{hx(k.encode('latin-1'))}=" + ";".join(hx(x) for x in fault_mro(v)) for k, v in case.get("faults", {}).items()])
    mnames = reduce_cmds([(c[2].encode("latin-1"), c[1].encode() == ZERO40) for c in case["cmds"]], pre_refs)
    cmds = lst([f"{hx(c[0].encode())}:{hx(c[1].encode())}:{hx(mn)}" for c, mn in zip(case["cmds"], mnames)])
    case["_mnames"] = [m.decode("latin-1") for m in mnames]
    return f"c06.wire {case.get('flags', 'coded')} {1 if case.get('pre') else 0} {caps} {unpack} {refs} {store} {hooks} {faults} {cmds}"


def uses_head(case) -> bool:
    st = case["state"]
    return bool(st.get("head")) or any(c[-1] == "HEAD" or c[0] == "HEAD" for c in case["cmds"])


def reduce_cmds(names_kinds: list, raw_refs: dict) -> list:
    """Symbolic refs are not in the Lean model; they are reduced to it: an UPDATE through a symref acts on the last
    name of the chain (set_if_equals follows), so the model is given that name; a DELETION compares the raw content
    (remove_if_equals does not follow), so the model is given the commanded name, whose model value is the raw
    b"ref: <target>" bytes.  Status entries are positional, so the commanded names are put back afterwards."""
    out = []
    for name, is_delete in names_kinds:
        out.append(name if is_delete else resolve(raw_refs, name)[0])
    return out


def candidate_ids(case) -> list[bytes]:
    ids = {cid(i) for i in range(N_POOL)}
    for c in case["cmds"]:
        ids.add(c[0].encode())
        ids.add(c[1].encode())
    return sorted(ids)


def run_wire_case(ctx, sd: ServerDir, case: dict, stream: str, lines: list, metas: list):
    """Set the server up, push, observe, run the oracle; queue the model line for the batch compare."""
    st = case["state"]
    sd.reset_state(st)
    repo = sd.open()
    hd = uses_head(case)
    try:
        pre_refs = read_refs(repo, hd)
        cands = candidate_ids(case)
        pre_store = [i for i in cands if in_store(repo, i)]
        obs = wire_push(repo, case)
    finally:
        repo.close()
    repo = sd.open()   # fresh instance: no caches from the handler's run
    try:
        post_refs = read_refs(repo, hd)
        post_store = {i for i in cands if in_store(repo, i)}
        post_missing = {n: v for n, v in post_refs.items() if not v.startswith(SYMREF) and not in_store(repo, v)}
    finally:
        repo.close()
    pk = case.get("pack", {"idx": [], "variant": "ok"})
    if obs["unpack_exc"] is not None:
        unpack = "exc:" + ",".join(hx(x) for x in mro_names(obs["unpack_exc"]))
        if pk["variant"] == "ok":
            ctx.disagree(stream + ".unpack-design", case, "well-formed pack unpacks", f"add_thin_pack raised {obs['unpack_exc'].__name__}")
    else:
        unpack = "ok:" + (",".join(hx(i) for i in sorted({o.id for i in pk["idx"] for o in pool()[i]} | {cid(i) for i in pk["idx"]})) or "")
        if pk["variant"] != "ok" and obs["unpack_called"]:
            ctx.disagree(stream + ".unpack-design", case, "malformed pack is refused", "add_thin_pack accepted it")
    lines.append(model_line_wire(case, pre_refs, pre_store, unpack))
    real = canon_real_wire(case, obs, post_refs, None)
    metas.append((stream, case, real, obs, post_store))
    oracle_wire(ctx, stream, case, pre_refs, set(pre_store), obs, post_refs, post_missing)
    return obs, pre_refs, post_refs


def oracle_wire(ctx, stream, case, pre_refs, pre_store, obs, post_refs, post_missing):
    """The property's own words, on what the real handler did (independent of the model)."""
    cmds = [(c[0].encode(), c[1].encode(), c[2].encode("latin-1")) for c in case["cmds"]]
    caps = set(case["caps"])
    names = [c[2] for c in cmds]
    faults = {k.encode("latin-1"): v for k, v in case.get("faults", {}).items()}
    pk = case.get("pack", {"idx": [], "variant": "ok"})
    sent = {o.id for i in pk["idx"] for o in pool()[i]} if pk["variant"] == "ok" else set()
    observable = "report-status" in caps
    parsed_ok = obs["parsed"] is not None and obs["parsed"][0] == "ok"
    statuses = obs["parsed"][1] if parsed_ok else {}
    brief = {"case": case}

    def reason(old, new, name):
        cur = resolve(pre_refs, name)[1] or ZERO40
        bad = [i for i, c in enumerate(cmds) if faults.get(c[2]) == "format"]
        if bad and obs["raised"] and obs["raised"][0] == "ref-error" and names.index(name) > bad[0]:
            return "bad-refname"      # never reached: the handler died on the invalid name before it
        lk = [i for i, c in enumerate(cmds) if faults.get(c[2]) == "lock"]
        if lk and obs["raised"] and obs["raised"][1] == "FileLocked" and names.index(name) > lk[0]:
            return "lock-held"        # never reached: the handler died on the locked ref before it
        if name in faults:
            return {"io": "io-failure", "format": "bad-refname", "key": "injected-fault", "lock": "lock-held"}[faults[name]]
        if cur != old:
            return "stale-old"
        return "unexplained"
    # every ref target is in the object store afterwards
    for n, v in sorted(post_missing.items()):
        cls = None
        hits = [c for c in cmds if c[2] == n and c[1] == v]
        if hits and v not in pre_store and v not in sent and obs["unpack_exc"] is None:
            cls = "wire-new-object-missing"
        elif hits and obs["unpack_exc"] is not None:
            cls = "wire-ref-updated-after-failed-unpack"
        ctx.oracle_fail(stream, brief, f"after the push {n!r} names {v!r}, which the server's object store does not have", cls)
    # what each command acts on: an update goes through symbolic refs (last name of the chain), a deletion names the
    # ref itself.  The client names the value it was shown, i.e. the resolved one.
    acts_on = [name if new == ZERO40 else resolve(pre_refs, name)[0] for _, new, name in cmds]
    if len(set(names)) != len(names) or len(set(acts_on)) != len(acts_on):
        return   # several commands for one ref: only the correspondence and the store clause apply

    def holds(refs, new, name):
        """does `name` hold what the command asked for?"""
        if new == ZERO40:
            return name not in refs
        return resolve(refs, name)[1] == new

    def same(name, new=None):
        """nothing the command could touch has changed (a deletion can only touch the name itself)"""
        real = name if new == ZERO40 else resolve(pre_refs, name)[0]
        return post_refs.get(name) == pre_refs.get(name) and post_refs.get(real) == pre_refs.get(real)
    applied = []
    for old, new, name in cmds:
        cur = resolve(pre_refs, name)[1] or ZERO40
        post = post_refs.get(name) if new == ZERO40 else resolve(post_refs, name)[1]
        target = None if new == ZERO40 else new
        stale = cur != old
        rep_ok = observable and parsed_ok and name in statuses and statuses[name] is None
        if stale:
            if not same(name, new):
                ctx.oracle_fail(stream, brief, f"{name!r}: current value {cur!r} differs from the old value named {old!r}, yet the ref changed to {post!r}",
                                "wire-stale-old-applied")
            if rep_ok:
                ctx.oracle_fail(stream, brief, f"{name!r}: current value {cur!r} differs from the old value named {old!r}, yet the push is reported ok (ref is {post!r})",
                                "wire-stale-old-reported-ok")
        else:
            if rep_ok and not holds(post_refs, new, name):
                ctx.oracle_fail(stream, brief, f"{name!r}: reported ok but the ref holds {post!r}, not the requested {target!r}", "wire-ok-but-not-applied")
            if observable and old != new and holds(post_refs, new, name) and not rep_ok:
                cls = "wire-applied-but-not-reported"
                if obs["raised"] and obs["raised"][1] == "FileLocked" and any(v == "lock" for v in faults.values()):
                    cls = "wire-lock-held-aborts-push"
                elif obs["raised"] and obs["raised"][0] == "ref-error" and any(v == "format" for v in faults.values()):
                    cls = "wire-bad-refname-aborts-push"
                elif obs["raised"] is None and obs["parsed"] is not None and obs["parsed"][0] == "err":
                    cls = "wire-status-unparseable"
                ctx.oracle_fail(stream, brief, f"{name!r}: the ref now holds the requested {target!r} but no success was reported "
                                f"(handler: {obs['raised']}, statuses: {obs['parsed']})", cls)
        if holds(post_refs, new, name) and not same(name, new):
            applied.append(name)
    # no report-status negotiated: nothing can be reported per ref, so "success" is that the session ended without an
    # error; every command that names the current value of a ref, an object the server has or was sent, and that no hook
    # or ref-container failure stands against, must then have taken effect (under atomic: when all commands are such)
    if not observable and obs["raised"] is None and not case.get("pre") and obs["unpack_exc"] is None and pk["variant"] == "ok":
        hooks = {k.encode("latin-1") for k in case.get("hooks", {})}

        def clean(old, new, name):
            cur = resolve(pre_refs, name)[1] or ZERO40
            if new == ZERO40 and (pre_refs.get(name) or b"").startswith(SYMREF):
                return False          # deleting a symbolic ref compares its raw content: refused
            return (cur == old and name not in faults and name not in hooks and len(old) == 40
                    and (new == ZERO40 or (len(new) == 40 and (new in pre_store or new in sent))))
        allclean = all(clean(*c) for c in cmds)
        for old, new, name in cmds:
            if clean(old, new, name) and ("atomic" not in caps or allclean) and not holds(post_refs, new, name):
                ctx.oracle_fail(stream, brief, f"{name!r}: the session (capabilities {sorted(caps)}, no report-status) ended without any error, "
                                f"but the ref does not hold the requested {None if new == ZERO40 else new!r} (it holds {post_refs.get(name)!r})",
                                "wire-silent-session-not-applied")
    if "atomic" in caps:
        all_hold = all(holds(post_refs, new, n) for _, new, n in cmds)
        none_changed = post_refs == pre_refs
        if not all_hold and not none_changed:
            for old, new, name in cmds:
                if not holds(post_refs, new, name):
                    ctx.oracle_fail(stream, brief, f"atomic push applied {applied} but not {name!r}", "wire-atomic-partial-apply-" + reason(old, new, name))


# ------------------------------------------------------------------------------------------------
# generators

CAPS = ["report-status", "side-band-64k", "atomic", "delete-refs", "ofs-delta", "quiet"]


def gen_state(rng) -> dict:
    refs = {}
    for n in NAMES:
        if rng.random() < 0.55:
            refs[n.decode()] = cid(rng.choice(BASE)).decode()
    st = {"refs": refs, "extra": [4] if rng.random() < 0.15 else []}
    if rng.random() < 0.3 and refs:
        st["packed"] = True
        st["loose_after"] = {n: cid(rng.choice(BASE)).decode() for n in refs if rng.random() < 0.3}
    if rng.random() < 0.35:
        # a loose ref whose children cannot be created (directory/file conflict)
        st.setdefault("loose_after" if st.get("packed") else "refs", {})[DF_PARENT.decode()] = cid(0).decode()
    return st


def current_of(st, name: str):
    return st.get("loose_after", {}).get(name, st["refs"].get(name))


def gen_wire_case(rng, force=None) -> dict:
    st = gen_state(rng)
    n = rng.choice([1, 1, 2, 2, 3, 4])
    pool_names = [x.decode() for x in NAMES]
    rng.shuffle(pool_names)
    names = pool_names[:n]
    if rng.random() < 0.05 and n >= 2:
        names[-1] = names[0]                     # two commands for one ref
    cmds, pack, faults, tags = [], set(), {}, []
    has_df = current_of(st, DF_PARENT.decode()) is not None
    atomic = rng.random() < 0.4
    for name in names:
        cur = current_of(st, name)
        r = rng.random()
        if r < 0.07:
            name = rng.choice(BAD_NAMES).decode()
            faults[name] = "format"
            cur = None
            tags.append("bad-name")
        elif r < 0.15 and has_df:
            name = DF_CHILD.decode()
            faults[name] = "io"
            cur = None
            tags.append("df-conflict")
        elif r < 0.18 and not atomic:
            faults[name] = "key"
            tags.append("inject-key")
        elif r < 0.24:
            faults[name] = "lock"
            st.setdefault("locks", []).append(name)
            tags.append("lock-held")
        if name in [c[2] for c in cmds] and name in faults:
            continue
        # old value
        r = rng.random()
        if r < 0.62:
            old = cur or ZERO40.decode()
            tags.append("old-match")
        elif r < 0.8:
            old = rng.choice([cid(i).decode() for i in range(6) if cid(i).decode() != cur])
            tags.append("old-stale")
        elif r < 0.9:
            old = ZERO40.decode()
            tags.append("old-zero")
        elif r < 0.95:
            old = ZERO64.decode()
            tags.append("old-zero64")
        else:
            old = (cur or cid(1).decode()).upper()
            tags.append("old-upper")
        # new value
        r = rng.random()
        if r < 0.3:
            new = cid(rng.choice(BASE)).decode()
            tags.append("new-in-store")
        elif r < 0.55:
            i = rng.choice([4, 5])
            new = cid(i).decode()
            pack.add(i)
            tags.append("new-in-pack")
        elif r < 0.7:
            new = rng.choice([cid(6).decode(), cid(7).decode(), "9" * 40, cid(4).decode()])
            tags.append("new-absent" if new != cid(4).decode() or 4 not in st["extra"] else "new-in-store")
        elif r < 0.9:
            new = ZERO40.decode()
            tags.append("delete")
        elif r < 0.94:
            new = ZERO64.decode()
            tags.append("new-zero64")
        elif r < 0.97:
            new = cur or cid(2).decode()
            tags.append("new-same")
        else:
            new = cid(rng.choice(BASE)).decode().upper()
            tags.append("new-upper")
        cmds.append([old, new, name])
    caps = [c for c in CAPS if c != "atomic" and rng.random() < (0.8 if c == "report-status" else 0.4)]
    if atomic:
        caps.append("atomic")
    rng.shuffle(caps)
    r = rng.random()
    if r < 0.03:
        caps.append("bogus-cap")
        tags.append("cap-unknown")
    elif r < 0.06:
        caps.append("agent=git/2.39.5")
    variant = "ok"
    r = rng.random()
    if r < 0.04:
        variant = "corrupt"
    elif r < 0.06:
        variant = "truncated"
    elif r < 0.08:
        variant = "thin-missing-base"
    elif r < 0.09:
        variant = "garbage-object"
    elif r < 0.1:
        variant = "nopack"
    case = {"path": "wire", "state": st, "cmds": cmds, "caps": caps, "pack": {"idx": sorted(pack), "variant": variant}}
    if faults:
        case["faults"] = faults
    if rng.random() < 0.08:
        victims = [c[2] for c in cmds if rng.random() < 0.6]
        if victims:
            case["hooks"] = {v: rng.choice(["denied by policy", "no\n", "okay", " spaced  msg "]) for v in victims}
            tags.append("update-hook")
    if rng.random() < 0.03:
        case["pre"] = True
        tags.append("pre-receive")
    case["tags"] = sorted(set(tags) | {f"n={len(cmds)}", "atomic" if atomic else "plain", "pack-" + variant})
    return case


FIXED_WIRE = [
    # F5 witnesses (DESIGN §7): stale push answered ok; ref set to an object the server does not have; atomic partial
    {"path": "wire", "state": {"refs": {"refs/heads/m": "@2"}}, "cmds": [["@1", "@3", "refs/heads/m"]], "caps": ["report-status"]},
    {"path": "wire", "state": {"refs": {}}, "cmds": [["@z", "9" * 40, "refs/heads/x"]], "caps": ["report-status"]},
    {"path": "wire", "state": {"refs": {"refs/heads/m": "@2"}}, "cmds": [["@z", "@1", "refs/heads/x"], ["@1", "@3", "refs/heads/m"]],
     "caps": ["report-status", "atomic"]},
    {"path": "wire", "state": {"refs": {}}, "cmds": [["@z", "@1", "refs/heads/x"], ["@z", "@1", "refs/heads/a..b"]],
     "caps": ["report-status"], "faults": {"refs/heads/a..b": "format"}},
    # the lock of the second ref is held by another writer
    {"path": "wire", "state": {"refs": {"refs/heads/m": "@2"}, "locks": ["refs/heads/m"]}, "cmds": [["@z", "@1", "refs/heads/x"], ["@2", "@3", "refs/heads/m"]],
     "caps": ["report-status"], "faults": {"refs/heads/m": "lock"}},
    # plain successes
    {"path": "wire", "state": {"refs": {"refs/heads/m": "@2"}}, "cmds": [["@2", "@4", "refs/heads/m"], ["@z", "@5", "refs/tags/t"]],
     "caps": ["report-status", "side-band-64k"], "pack": {"idx": [4, 5], "variant": "ok"}},
    {"path": "wire", "state": {"refs": {"refs/heads/m": "@2"}}, "cmds": [["@2", "@z", "refs/heads/m"]], "caps": ["report-status", "delete-refs"]},
    {"path": "wire", "state": {"refs": {"refs/heads/m": "@2"}}, "cmds": [["@2", "@3", "refs/heads/m"]], "caps": []},
]


def expand(case: dict) -> dict:
    """@i -> id of pool commit i, @z -> zero sha (corpus files and fixed cases are written with these)."""
    def e(v):
        if isinstance(v, str) and v.startswith("@"):
            return ZERO40.decode() if v == "@z" else cid(int(v[1:])).decode()
        return v
    c = json.loads(json.dumps(case))
    if c.get("path") == "race":
        return c
    for k in ("refs", "loose_after"):
        if k in c.get("state", {}):
            c["state"][k] = {n: e(v) for n, v in c["state"][k].items()}
    if "racer" in c:
        c["racer"] = [[e(x) for x in op] for op in c["racer"]]
    c["cmds"] = [[e(x) for x in cmd] for cmd in c["cmds"]]
    return c


# ------------------------------------------------------------------------------------------------

def compare_wire_batch(ctx, lines, metas):
    outs = ctx.driver.batch(lines)
    for (stream, case, real, obs, post_store), mo in zip(metas, outs):
        model, d = canon_model_wire(mo, case) if mo.startswith("raised=") else (mo, {})
        case.pop("_mnames", None)
        tags = case.get("tags", [])
        ctx.count(stream, json.dumps(case, sort_keys=True), True, None)
        for t in tags:
            ctx.hist.setdefault(stream, {})
            ctx.hist[stream][t] = ctx.hist[stream].get(t, 0) + 1
        if model != real:
            ctx.disagree(stream, case, model, real, "wire")
            continue
        if d.get("raised") == "-" and obs["unpack_exc"] is None and d.get("instore", "-") != "-":
            want = ",".join("1" if c[1].encode() in post_store else "0" for c in case["cmds"])
            if want != d["instore"]:
                ctx.disagree(stream + ".store", case, d["instore"], want, "wire")
        if obs.get("order") is not None and obs["raised"] is None and obs["parsed"] and obs["parsed"][0] == "ok" and not case.get("pre"):
            # (iv) one status line per command, in command order
            got = [s.split(b" ")[1] for s in obs["order"] if b" " in s]
            if got != [c[2].encode("latin-1") for c in case["cmds"]]:
                ctx.oracle_fail(stream, {"case": case}, f"status lines {got} are not one per command in order", "wire-status-order")


def _stream_wire(ctx, sd, n, stream="wire"):
    rng = ctx.rng
    lines, metas = [], []
    cases = [expand(c) for c in FIXED_WIRE] if stream == "wire" else []
    cases += [gen_wire_case(rng) for _ in range(n)]
    for case in cases:
        obs, pre, post = run_wire_case(ctx, sd, case, stream, lines, metas)
        if len(ctx.samples) < 3 and len(case["cmds"]) >= 2:
            ctx.sample({"stream": stream, "case": case, "handler_raised": obs["raised"], "client_status": repr(obs["parsed"]),
                        "refs_before": {k.decode(): v.decode() for k, v in pre.items()},
                        "refs_after": {k.decode(): v.decode() for k, v in post.items()}})
    compare_wire_batch(ctx, lines, metas)


# ------------------------------------------------------------------------------------------------
# in-process path: the real LocalGitClient.send_pack; a second pusher acts inside the update_refs callback, i.e.
# between the client's read of the refs and its compare-and-swap (a deterministic schedule of the race)

def packed_names(path: Path) -> set:
    """names in packed-refs when the file carries the `peeled` header (only then get_peeled answers)"""
    f = Path(path) / "packed-refs"
    if not f.exists():
        return set()
    lines = f.read_bytes().splitlines()
    if not lines or not (lines[0].startswith(b"# pack-refs with:") and b"peeled" in lines[0]):
        return set()
    return {ln.split(b" ", 1)[1] for ln in lines[1:] if ln and not ln.startswith((b"#", b"^")) and b" " in ln}


def local_msg_kind(msg, ex) -> str:
    if msg is None:
        return "ok"
    if msg.startswith(ex["local_set_prefix"]):
        return "set"
    if msg.startswith(ex["local_remove"]):
        return "remove"
    if msg.startswith(ex["local_atomic"]):
        return "atomic"
    if msg.startswith(ex.get("local_missing_prefix", "missing object")):
        return "missing"
    return "other:" + msg[:40]


def local_push(sd: ServerDir, case: dict, ex: dict) -> dict:
    from dulwich.client import LocalGitClient
    from dulwich.pack import pack_objects_to_data
    from dulwich.repo import Repo
    cmds = [(c[0].encode("latin-1"), c[1].encode()) for c in case["cmds"]]
    obs: dict = {"snap": None, "raised": None}

    def update_refs(refs):
        obs["snap"] = {bytes(k): bytes(v) for k, v in refs.items() if k != b"HEAD" or uses_head(case)}
        other = Repo(str(sd.path))           # the second pusher
        try:
            for op in case.get("racer", []):
                n = op[1].encode("latin-1")
                if op[0] == "set":
                    other.refs.set_if_equals(n, None, op[2].encode())
                else:
                    other.refs.remove_if_equals(n, None)
        finally:
            other.close()
        r2 = Repo(str(sd.path))
        try:
            obs["cur"] = read_refs(r2, uses_head(case))
            obs["cur_store"] = [i for i in candidate_ids_local(case) if in_store(r2, i)]
        finally:
            r2.close()
        obs["packed"] = packed_names(sd.path)
        return dict(cmds)

    def generate_pack_data(have, want, *, ofs_delta=False, progress=None):
        obs["have"], obs["want"] = set(have), set(want)
        objs = [o for i in case.get("pack", []) for o in pool()[i]]
        return pack_objects_to_data([(o, None) for o in objs])
    try:
        res = LocalGitClient().send_pack(str(sd.path), update_refs, generate_pack_data, atomic=bool(case.get("atomic")))
        obs["ref_status"] = None if res.ref_status is None else {bytes(k): v for k, v in res.ref_status.items()}
    except Exception as e:
        obs["raised"] = (type(e).__name__, str(e)[:120])
        obs["ref_status"] = None
    return obs


def candidate_ids_local(case) -> list[bytes]:
    ids = {cid(i) for i in range(N_POOL)}
    for c in case["cmds"]:
        ids.add(c[1].encode())
    return sorted(ids)


def run_local_case(ctx, sd: ServerDir, case: dict, ex: dict, stream: str, lines: list, metas: list):
    st = case["state"]
    sd.reset_state(st)
    obs = local_push(sd, case, ex)
    repo = sd.open()
    try:
        post_refs = read_refs(repo, uses_head(case))
        post_missing = {n: v for n, v in post_refs.items() if not v.startswith(SYMREF) and not in_store(repo, v)}
        post_store = {i for i in candidate_ids_local(case) if in_store(repo, i)}
    finally:
        repo.close()
    if obs["snap"] is None:
        ctx.disagree(stream, case, "update_refs is called", f"not called: {obs['raised']}", "local")
        return obs, post_refs

    def lst(xs):
        return ",".join(xs) or "-"
    snap, cur = obs["snap"], obs["cur"]
    mnames = reduce_cmds([(c[0].encode("latin-1"), c[1].encode() == ZERO40) for c in case["cmds"]], cur)
    packids = sorted({o.id for i in case.get("pack", []) for o in pool()[i]})
    line = "c06.local {} {} {} {} {} {} {}".format(
        1 if case.get("atomic") else 0,
        lst([f"{hx(k)}={hx(v)}" for k, v in snap.items()]),
        lst([f"{hx(k)}={hx(v)}" for k, v in sorted(cur.items())]),
        lst([hx(n) for n in sorted(obs["packed"])]),
        lst([hx(i) for i in obs["cur_store"]]),
        lst([hx(i) for i in packids]),
        lst([f"{hx(mn)}={hx(c[1].encode())}" for c, mn in zip(case["cmds"], mnames)]))
    lines.append(line)
    # canonical real observation
    if obs["raised"]:
        status = "raised:" + obs["raised"][0]
    elif not obs.get("have") and "have" not in obs:
        status = "early"
    else:
        rs = obs["ref_status"] or {}
        status = ",".join(f"{hx(c[0].encode('latin-1'))}:{local_msg_kind(rs.get(c[0].encode('latin-1')), ex)}" for c in case["cmds"]) or "-"
    refs = ",".join(f"{hx(k)}={hx(v)}" for k, v in sorted(post_refs.items())) or "-"
    instore = ",".join("1" if c[1].encode() in post_store else "0" for c in case["cmds"]) or "-"
    metas.append((stream, case, f"status={status} refs={refs} instore={instore}", mnames))
    oracle_local(ctx, stream, case, obs, post_refs, post_missing)
    return obs, post_refs


def oracle_local(ctx, stream, case, obs, post_refs, post_missing, prefix="local"):
    """Oracle for pushes made by an honest client (old values = what it read): the in-process path
    (prefix local), and the real wire client against a dulwich (prefix wire) or C git (prefix gitsrv) server."""
    cmds = [(c[0].encode("latin-1"), c[1].encode()) for c in case["cmds"]]
    snap, cur = obs["snap"], obs["cur"]
    brief = {"case": case}
    raced = bool(case.get("racer"))
    sent = {o.id for i in case.get("pack", []) for o in pool()[i]}
    for n, v in sorted(post_missing.items()):
        if prefix == "gitsrv":
            break      # the server is C git: only what the dulwich client reports is under test there
        cls = None
        if any(c[0] == n and c[1] == v for c in cmds) and v not in obs["cur_store"] and v not in sent:
            cls = prefix + "-new-object-missing"
        ctx.oracle_fail(stream, brief, f"after the {prefix} push {n!r} names {v!r}, which the target's object store does not have", cls)
    if obs["raised"] and prefix == "local":
        ctx.oracle_fail(stream, brief, f"LocalGitClient.send_pack raised {obs['raised']}", "local-raised-" + obs["raised"][0])
        return
    rs = obs["ref_status"] or {}
    all_hold, untouched = True, post_refs == cur

    def holds(refs, new, name):
        if new == ZERO40:
            return name not in refs
        return resolve(refs, name)[1] == new

    def same(name, new=None):
        real = name if new == ZERO40 else resolve(cur, name)[0]
        return post_refs.get(name) == cur.get(name) and post_refs.get(real) == cur.get(real)
    acts_on = [name if new == ZERO40 else resolve(cur, name)[0] for name, new in cmds]
    if len(set(acts_on)) != len(acts_on):
        return          # two commands acting on one ref (one of them through a symbolic ref): correspondence only
    for name, new in cmds:
        old = snap.get(name, ZERO40)          # the old value the client names (its snapshot, symrefs resolved)
        c = resolve(cur, name)[1] or ZERO40
        post = post_refs.get(name) if new == ZERO40 else resolve(post_refs, name)[1]
        target = None if new == ZERO40 else new
        if old == new:
            continue                           # not an update request (git drops these)
        if prefix == "local":
            rep_ok = rs.get(name) is None          # the local path only records failures
        else:
            rep_ok = not obs["raised"] and name in rs and rs[name] is None
        stale = c != old
        if not holds(post_refs, new, name):
            all_hold = False
        if stale:
            if not same(name, new):
                ctx.oracle_fail(stream, brief, f"{name!r}: current {c!r} differs from the old value {old!r} the client read, yet the ref changed to {post!r}",
                                prefix + "-stale-old-applied")
            if rep_ok:
                ctx.oracle_fail(stream, brief, f"{name!r}: current {c!r} differs from the old value {old!r} the client read, yet success is reported",
                                prefix + "-stale-old-reported-ok")
        else:
            if rep_ok and not holds(post_refs, new, name):
                ctx.oracle_fail(stream, brief, f"{name!r}: success reported but the ref holds {post!r}, not {target!r}", prefix + "-ok-but-not-applied")
            if holds(post_refs, new, name) and not rep_ok:
                ctx.oracle_fail(stream, brief, f"{name!r}: the ref holds the requested {target!r} but the status is {rs.get(name)!r}",
                                prefix + "-applied-but-not-reported")
    if case.get("atomic") and not all_hold and not untouched and prefix != "gitsrv":
        if prefix == "local":
            ctx.oracle_fail(stream, brief, "atomic local push applied some updates and not others",
                            "local-atomic-partial-apply-race" if raced else "local-atomic-partial-apply")
        else:
            for name, new in cmds:
                if not holds(post_refs, new, name):
                    why = "stale-old" if (resolve(cur, name)[1] or ZERO40) != snap.get(name, ZERO40) else "unexplained"
                    ctx.oracle_fail(stream, brief, f"atomic push applied some updates but not {name!r}", f"{prefix}-atomic-partial-apply-{why}")


def gen_local_case(rng) -> dict:
    st = gen_state(rng)
    st["refs"].pop(DF_PARENT.decode(), None)
    st.get("loose_after", {}).pop(DF_PARENT.decode(), None)
    n = rng.choice([1, 2, 2, 3, 4])
    names = [x.decode() for x in NAMES]
    rng.shuffle(names)
    names = names[:n]
    cmds, pack, tags = [], set(), []
    for name in names:
        cur = current_of(st, name)
        r = rng.random()
        if r < 0.3:
            new = cid(rng.choice(BASE)).decode()
            tags.append("new-in-store")
        elif r < 0.6:
            i = rng.choice([4, 5])
            new = cid(i).decode()
            if rng.random() < 0.85:
                pack.add(i)
                tags.append("new-in-pack")
            else:
                tags.append("new-absent")
        elif r < 0.68:
            new = cid(6).decode()
            tags.append("new-absent")
        elif r < 0.9:
            new = ZERO40.decode()
            tags.append("delete")
        else:
            new = cur or cid(1).decode()
            tags.append("new-same")
        cmds.append([name, new])
    racer = []
    if rng.random() < 0.5:
        for name in names + [rng.choice([x.decode() for x in NAMES])]:
            if rng.random() < 0.5:
                if rng.random() < 0.65:
                    racer.append(["set", name, cid(rng.choice(BASE)).decode()])
                else:
                    racer.append(["del", name])
        if racer:
            tags.append("raced")
    atomic = rng.random() < 0.45
    case = {"path": "local", "state": st, "cmds": cmds, "pack": sorted(pack), "atomic": atomic, "racer": racer}
    case["tags"] = sorted(set(tags) | {f"n={len(cmds)}", "atomic" if atomic else "plain", "packed" if st.get("packed") else "loose"})
    return case


FIXED_LOCAL = [
    {"path": "local", "state": {"refs": {"refs/heads/m": "@2"}}, "cmds": [["refs/heads/m", "@4"]], "pack": [4], "atomic": False, "racer": []},
    {"path": "local", "state": {"refs": {"refs/heads/m": "@2"}}, "cmds": [["refs/heads/m", "@3"]], "pack": [], "atomic": False,
     "racer": [["set", "refs/heads/m", "@1"]]},
    {"path": "local", "state": {"refs": {"refs/heads/m": "@2"}}, "cmds": [["refs/heads/x", "@1"], ["refs/heads/m", "@3"]], "pack": [], "atomic": True,
     "racer": [["set", "refs/heads/m", "@1"]]},
    {"path": "local", "state": {"refs": {"refs/heads/m": "@2"}, "packed": True}, "cmds": [["refs/heads/x", "@1"], ["refs/heads/m", "@3"]], "pack": [],
     "atomic": True, "racer": [["set", "refs/heads/m", "@1"]]},
    {"path": "local", "state": {"refs": {}}, "cmds": [["refs/heads/x", "@6"]], "pack": [], "atomic": False, "racer": []},
]


def compare_local_batch(ctx, lines, metas):
    outs = ctx.driver.batch(lines)
    for (stream, case, real, mnames), mo in zip(metas, outs):
        ctx.count(stream, json.dumps(case, sort_keys=True), True, None)
        for t in case.get("tags", []):
            ctx.hist.setdefault(stream, {})
            ctx.hist[stream][t] = ctx.hist[stream].get(t, 0) + 1
        d = dict(tok.split("=", 1) for tok in mo.split(" ")) if mo.startswith("status=") else None
        if d is None:
            ctx.disagree(stream, case, mo, real, "local")
            continue
        refs = ",".join(sorted(d["refs"].split(","), key=lambda it: unhx(it.split("=")[0]))) if d["refs"] != "-" else "-"
        if d["status"] not in ("early", "-"):
            # commanded names back in place of the reduced ones (positional)
            ents = d["status"].split(",")
            if len(ents) == len(case["cmds"]):
                d["status"] = ",".join(hx(c[0].encode("latin-1")) + ":" + e.split(":", 1)[1] for c, e in zip(case["cmds"], ents))
        model = f"status={d['status']} refs={refs} instore={d['instore']}"
        if model != real:
            ctx.disagree(stream, case, model, real, "local")


def _stream_local(ctx, sd, ex, n, stream="local"):
    rng = ctx.rng
    lines, metas = [], []
    cases = [expand(c) for c in FIXED_LOCAL] if stream == "local" else []
    cases += [gen_local_case(rng) for _ in range(n)]
    for case in cases:
        obs, post = run_local_case(ctx, sd, case, ex, stream, lines, metas)
        if sum(1 for s in ctx.samples if s.get("stream") == stream) < 1 and case.get("racer") and len(case["cmds"]) >= 2:
            ctx.sample({"stream": stream, "case": case, "ref_status": repr(obs.get("ref_status")),
                        "refs_after": {k.decode(): v.decode() for k, v in post.items()}})
    compare_local_batch(ctx, lines, metas)


# ------------------------------------------------------------------------------------------------
# end to end over a pipe: the real dulwich wire client (SubprocessGitClient.send_pack) against
#   (a) the real dulwich ReceivePackHandler served by a child process, (b) C git's `git receive-pack`;
# and C git's `git push` against the dulwich handler.  The second pusher again acts inside update_refs.

def server_script(ctx) -> Path:
    p = ctx.scratch / "dul_receive_pack.py"
    if not p.exists():
        p.write_text(
            "import sys\n"
            f"sys.path.insert(0, {str(core.REPO)!r})\n"
            "from dulwich.server import ReceivePackHandler, serve_command\n"
            "# invoked as: <this> [receive-pack] <path>\n"
            "sys.exit(serve_command(ReceivePackHandler, argv=['dul-receive-pack', sys.argv[-1]]))\n")
    return p


def _SocketpairClient(path):
    """The real TraditionalGitClient.send_pack talking over a socketpair to the real ReceivePackHandler running in a
    thread of this process with a ReceivableProtocol, as dulwich's own TCP server does.  (Serving through
    `serve_command` on stdin/stdout pipes cannot be used with the dulwich client: the handler's pack reader asks the
    pipe for more bytes than the pack has while the client keeps its end open waiting for the report.)"""
    import socket
    import threading
    from dulwich.client import TraditionalGitClient
    from dulwich.protocol import Protocol, ReceivableProtocol
    from dulwich.repo import Repo
    from dulwich.server import DictBackend, ReceivePackHandler

    class Client(TraditionalGitClient):
        server_error = None

        def _connect(self, cmd, path_, protocol_version=None):
            csock, ssock = socket.socketpair()
            csock.settimeout(30)
            ssock.settimeout(30)
            outer = self

            def serve():
                repo = Repo(str(path))
                try:
                    proto = ReceivableProtocol(ssock.recv, ssock.sendall)
                    ReceivePackHandler(DictBackend({"/": repo}), ["/"], proto).handle()
                except Exception as e:       # the handler died: the client sees a hang-up
                    outer.server_error = (type(e).__name__, str(e)[:120])
                finally:
                    repo.close()
                    try:
                        ssock.shutdown(socket.SHUT_RDWR)
                    except OSError:
                        pass
                    ssock.close()
            t = threading.Thread(target=serve, daemon=True)
            t.start()
            rfile = csock.makefile("rb", -1)
            wfile = csock.makefile("wb", 0)

            def close():
                rfile.close()
                wfile.close()
                csock.close()
                t.join(30)
            return Protocol(rfile.read, wfile.write, close), (lambda: True), None
    return Client()


def e2e_push(ctx, sd: ServerDir, case: dict, server: str) -> dict:
    from dulwich.client import SubprocessGitClient
    from dulwich.pack import pack_objects_to_data
    from dulwich.repo import Repo
    cmds = [(c[0].encode("latin-1"), c[1].encode()) for c in case["cmds"]]
    obs: dict = {"snap": None, "raised": None, "ref_status": None}

    def update_refs(refs):
        obs["snap"] = {bytes(k): bytes(v) for k, v in refs.items() if (k != b"HEAD" or uses_head(case)) and not k.startswith(b"capabilities^")}
        other = Repo(str(sd.path))
        try:
            for op in case.get("racer", []):
                n = op[1].encode("latin-1")
                if op[0] == "set":
                    other.refs.set_if_equals(n, None, op[2].encode())
                else:
                    other.refs.remove_if_equals(n, None)
        finally:
            other.close()
        r2 = Repo(str(sd.path))
        try:
            obs["cur"] = read_refs(r2, uses_head(case))
            obs["cur_store"] = [i for i in candidate_ids_local(case) if in_store(r2, i)]
        finally:
            r2.close()
        if case.get("inplace"):
            # a callback that edits the dict it was given and hands it back (the local and HTTP clients pass a copy)
            for n_, v_ in cmds:
                refs[n_] = v_
            return refs
        return dict(cmds)

    def generate_pack_data(have, want, *, ofs_delta=False, progress=None):
        objs = [o for i in case.get("pack", []) for o in pool()[i]]
        return pack_objects_to_data([(o, None) for o in objs])
    if server == "dulwich":
        cl = _SocketpairClient(sd.path)
    else:
        cl = SubprocessGitClient()
    env_backup = dict(os.environ)
    os.environ.update({k: v for k, v in core.clean_env().items() if k.startswith("GIT_") or k in ("HOME", "LC_ALL", "TZ")})
    try:
        res = cl.send_pack(str(sd.path).encode(), update_refs, generate_pack_data, atomic=bool(case.get("atomic")))
        obs["ref_status"] = None if res.ref_status is None else {bytes(k): v for k, v in res.ref_status.items()}
        obs["result_refs"] = {bytes(k): (None if v is None else bytes(v)) for k, v in (res.refs or {}).items()}
    except Exception as e:
        obs["raised"] = (type(e).__name__, str(e)[:160])
    finally:
        os.environ.clear()
        os.environ.update(env_backup)
    return obs


def run_e2e_case(ctx, sd, case, server, stream):
    st = case["state"]
    sd.reset_state(st)
    obs = e2e_push(ctx, sd, case, server)
    repo = sd.open()
    try:
        post_refs = read_refs(repo, uses_head(case))
        post_missing = {n: v for n, v in post_refs.items() if not v.startswith(SYMREF) and not in_store(repo, v)}
    finally:
        repo.close()
    ctx.count(stream, json.dumps(case, sort_keys=True), True, ("raced" if case.get("racer") else "quiet") + (":atomic" if case.get("atomic") else ""))
    if obs["snap"] is None:
        ctx.oracle_fail(stream, {"case": case}, f"the wire client never got the advertisement: {obs['raised']}", f"{server}-e2e-no-advertisement")
        return obs
    # third-party read back: C git must see the same refs
    rc, out = core.sh(["git", "--git-dir", str(sd.path), "for-each-ref", "--format=%(refname) %(objectname)"], env=core.clean_env())
    if rc == 0:
        gitrefs = {ln.split(" ")[0].encode(): ln.split(" ")[1].encode() for ln in out.splitlines() if " " in ln and not ln.startswith(("warning", "error"))}
        plain = {k: v for k, v in post_refs.items() if k != b"HEAD"}
        if gitrefs != plain and not post_missing and not any(v.startswith(SYMREF) for v in plain.values()):
            ctx.oracle_fail(stream, {"case": case, "git": {k.decode(): v.decode() for k, v in gitrefs.items()}},
                            "C git reads different refs from the server repository than dulwich does", "readback-differs")
    oracle_local(ctx, stream, case, obs, post_refs, post_missing, prefix="wire" if server == "dulwich" else "gitsrv")
    # send_pack returned normally with an EMPTY ref_status (no failure for any ref) and a result that shows the ref at the
    # requested value: that is a push reported as successful — the server must agree
    if not obs["raised"] and obs["ref_status"] == {} and obs.get("result_refs") is not None:
        for c in case["cmds"]:
            name, new = c[0].encode("latin-1"), c[1].encode()
            want = None if new == ZERO40 else new
            if obs["snap"].get(name, ZERO40) == new:
                continue
            claimed = obs["result_refs"].get(name, b"?") == want
            holds = (name not in post_refs) if want is None else resolve(post_refs, name)[1] == want
            if claimed and not holds:
                ctx.oracle_fail(stream, {"case": case}, f"send_pack returned without error, ref_status == {{}} and result.refs[{name!r}] == {want!r}, "
                                f"but nothing was sent: the server ref is {post_refs.get(name)!r}", "client-inplace-callback-silent-noop")
    return obs


def _stream_e2e(ctx, sd, n_dul, n_git):
    rng = ctx.rng
    fixed = [expand(c) for c in FIXED_LOCAL[:3]]
    for server, n, stream in (("dulwich", n_dul, "e2e.dulwich-server"), ("git", n_git, "e2e.git-server")):
        cases = fixed + [gen_local_case(rng) for _ in range(n)]
        for c_ in [json.loads(json.dumps(c_)) for c_ in cases[:max(4, len(cases) // 4)]]:
            c_["inplace"] = True
            c_["tags"] = sorted(set(c_.get("tags", [])) | {"inplace-callback"})
            cases.append(c_)
        for case in cases:
            if server == "git":
                # C git refuses what it cannot verify; keep the store clause meaningful by not asking for absent objects
                case = json.loads(json.dumps(case))
            obs = run_e2e_case(ctx, sd, case, server, stream)
            if sum(1 for s in ctx.samples if s.get("stream") == stream) < 1 and case.get("racer"):
                ctx.sample({"stream": stream, "case": case, "client_raised": obs["raised"], "ref_status": repr(obs["ref_status"])})


def _git_client_repo(ctx) -> Path:
    """A C git repository holding the pool commits (the pushing side for `git push`)."""
    p = ctx.scratch / "gitclient"
    if not p.exists():
        from dulwich.repo import Repo
        r = Repo.init_bare(str(p), mkdir=True)
        for i in range(N_POOL):
            for o in pool()[i]:
                r.object_store.add_object(o)
        r.close()
    return p


def _stream_git_push(ctx, sd, n):
    """C git as the client of the dulwich handler: git's own reading of the status report vs the refs."""
    rng = ctx.rng
    stream = "e2e.git-push"
    client = _git_client_repo(ctx)
    rp = f"{core.PY} {server_script(ctx)}"
    for k in range(n):
        st = gen_state(rng)
        names = [x.decode() for x in NAMES]
        rng.shuffle(names)
        specs, want = [], {}
        has_df = current_of(st, DF_PARENT.decode()) is not None
        for name in names[: rng.choice([1, 2, 3])]:
            cur = current_of(st, name)
            r = rng.random()
            if r < 0.25 and cur:
                specs.append(f":{name}")
                want[name] = None
            elif r < 0.35 and has_df and DF_CHILD.decode() not in want:
                specs.append(f"+{cid(5).decode()}:{DF_CHILD.decode()}")
                want[DF_CHILD.decode()] = cid(5).decode()
            else:
                i = rng.choice([1, 2, 4, 5])
                if cid(i).decode() == cur:
                    continue
                specs.append(f"+{cid(i).decode()}:{name}")
                want[name] = cid(i).decode()
        if not specs:
            continue
        atomic = rng.random() < 0.4
        case = {"path": "git-push", "state": st, "specs": specs, "atomic": atomic}
        sd.reset_state(st)
        repo = sd.open()
        pre_refs = read_refs(repo)
        repo.close()
        cmd = ["git", "--git-dir", str(client), "push", "--porcelain", f"--receive-pack={rp}"] + (["--atomic"] if atomic else []) + [str(sd.path)] + specs
        rc, out = core.sh(cmd, env=core.clean_env(), timeout=120)
        repo = sd.open()
        post_refs = read_refs(repo)
        post_missing = {n_: v for n_, v in post_refs.items() if not in_store(repo, v)}
        repo.close()
        flags = {}
        for ln in out.splitlines():
            parts = ln.split("\t")
            if len(parts) >= 2 and len(parts[0]) == 1 and ":" in parts[1]:
                flags[parts[1].split(":", 1)[1]] = parts[0]
        ctx.count(stream, json.dumps(case, sort_keys=True), True, "atomic" if atomic else "plain")
        brief = {"case": case, "git_output": out[-600:]}
        for n_, v in post_missing.items():
            ctx.oracle_fail(stream, brief, f"{n_!r} names {v!r} which the server does not have", None)
        all_hold = True
        for name, new in want.items():
            post = post_refs.get(name.encode())
            post = post.decode() if post else None
            fl = flags.get(name)
            ok = fl in (" ", "+", "-", "*", "=")
            if fl is None:
                ctx.oracle_fail(stream, brief, f"git printed no result for {name}", "git-push-no-result")
                continue
            if post != new:
                all_hold = False
            if ok and post != new:
                ctx.oracle_fail(stream, brief, f"git reports {name} as pushed ({fl!r}) but the server ref is {post!r}, not {new!r}", "git-push-ok-but-not-applied")
            pre = pre_refs.get(name.encode())
            if not ok and post == new and (pre.decode() if pre else None) != new:
                ctx.oracle_fail(stream, brief, f"git reports {name} as rejected ({fl!r}) but the server ref now holds {new!r}", "git-push-applied-but-rejected")
        if atomic and not all_hold and post_refs != pre_refs:
            why = "io-failure" if DF_CHILD.decode() in want else "unexplained"
            ctx.oracle_fail(stream, brief, "atomic git push was applied partially", "wire-atomic-partial-apply-" + why)
        if sum(1 for s in ctx.samples if s.get("stream") == stream) < 1:
            ctx.sample({"stream": stream, "case": case, "git_push_output": out[-400:]})


# ------------------------------------------------------------------------------------------------
# status parser: model vs the real ReportStatusParser on hostile status reports

def gen_status_lines(rng) -> list:
    names = [b"refs/heads/m", b"refs/heads/a b", b"x", b"refs/tags/t", b""]
    msgs = [b"failed to write", b"ok", b"stale info", b" x", b"a  b", b"non-fast-forward"]
    out = [rng.choice([b"unpack ok\n", b"unpack ok\n", b"unpack ok\n", b"unpack ok", b" unpack ok \n", b"unpack failed\n", b"unpack\n", b"ok refs/heads/m\n"])]
    for _ in range(rng.randint(0, 4)):
        r = rng.random()
        n, m = rng.choice(names), rng.choice(msgs)
        if r < 0.35:
            ln = b"ok " + n + b"\n"
        elif r < 0.7:
            ln = b"ng " + n + b" " + m + b"\n"
        elif r < 0.75:
            ln = b"ng " + n + b"\n"
        elif r < 0.8:
            ln = rng.choice([b"ok", b"ng", b"", b"\n", b"  \n"])
        elif r < 0.85:
            ln = b"xx " + n + b"\n"
        elif r < 0.9:
            ln = b"  ok " + n + b"  \t\n"
        elif r < 0.95:
            ln = b"ok  " + n + b"\n"
        else:
            ln = None
        out.append(ln)
    if rng.random() < 0.5:
        out.append(None)
    if rng.random() < 0.1:
        out.append(b"ok late\n")
    return out


def real_parse(lines) -> str:
    from dulwich import client as C
    from dulwich.errors import GitProtocolError
    p = C.ReportStatusParser()
    try:
        for ln in lines:
            p.handle_packet(ln)
        d = dict(p.check())
    except C.SendPackError:
        return "err:sendpack"
    except GitProtocolError:
        return "err:protocol"
    except ValueError:
        return "err:value"
    return "ok:" + (",".join(f"{hx(k)}={'ok' if v is None else hx(v.encode())}" for k, v in d.items()) or "-")


def _stream_parser(ctx, n):
    rng = ctx.rng
    cases = [gen_status_lines(rng) for _ in range(n)]
    outs = ctx.driver.batch(["c06.parse " + " ".join("flush" if x is None else hx(x) for x in c) for c in cases])
    for c, mo in zip(cases, outs):
        if mo.startswith("ok:"):
            seen = {}
            for it in ([] if mo == "ok:-" else mo[3:].split(",")):
                k, v = it.split("=")
                seen[k] = v
            mo = "ok:" + (",".join(f"{k}={v}" for k, v in seen.items()) or "-")
        real = real_parse(c)
        ctx.count("status.parse", tuple(c), True, real.split(":")[0] + (":" + real.split(":")[1] if real.startswith("err") else ""))
        if mo != real:
            ctx.disagree("status.parse", {"lines": [None if x is None else x.decode("latin-1") for x in c]}, mo, real, "parser")


# ------------------------------------------------------------------------------------------------
# corpus, run, search, replay

def _run_corpus(ctx, sd, ex):
    d = core.VERIF / "corpus" / PROP
    if not d.exists():
        return
    wl, wm, ll, lm = [], [], [], []
    for f in sorted(d.glob("*.json")):
        c = json.loads(f.read_text())
        case = expand(c["case"])
        case.setdefault("tags", ["corpus:" + f.stem])
        if case["path"] == "wire":
            run_wire_case(ctx, sd, case, "corpus", wl, wm)
        elif case["path"] == "local":
            run_local_case(ctx, sd, case, ex, "corpus", ll, lm)
        elif case["path"] == "race":
            _race_explicit(ctx, case, "corpus")
        elif case["path"] == "e2e":
            run_e2e_case(ctx, sd, dict(case, path="local"), "dulwich", "corpus")
    compare_wire_batch(ctx, wl, wm)
    compare_local_batch(ctx, ll, lm)


_FALLBACK_EX = {"local_missing_prefix": "missing object", "local_set_prefix": "unable to set", "local_remove": "unable to remove", "local_atomic": "atomic push failed"}


def _extract_or_fallback(ctx):
    try:
        return extract(core.REPO)
    except Exception as e:      # already a broken obligation (translator); the oracle must still run
        ctx.notes.append(f"translator failed in run(): {type(e).__name__}: {e}")
        return dict(_FALLBACK_EX)


def run(ctx: core.Ctx):
    ex = _extract_or_fallback(ctx)
    ctx.assumptions += [
        "SHA-1 repositories. Symbolic refs among the commanded names (refs/heads/sym, a two-link chain, HEAD; dangling or not) are "
        "driven through the real handler / local path / real client with the oracle, and compared with the Lean model through a "
        "reduction (an update acts on the last name of the chain, a deletion on the name itself whose model value is the raw "
        "`ref: …` content); symref loops and old values that are not hex ids (rejected by handle() before _apply_pack) are not generated",
        "two racing pushers: every schedule with at most 2 pre-emptions (thorough: plus a capped sample with 3) of two real pushes at "
        "the system calls on the ref file, its lock, packed-refs and its lock; ref stored loose, packed-only, or both",
        "update hooks never decline with the literal message 'ok' (hypothesis HookSane of the theorems; the shell hook's "
        "message always starts with 'update hook exited with status')",
        "object-store behaviour (add_thin_pack / add_pack_data) is a parameter of the model: the ids a well-formed pack adds, or "
        "the class of the exception raised, are observed on the real call and fed to the model (C04/C05 are about that step)",
        "I/O failures of the ref container are explored through directory/file conflicts and injected KeyError only",
        "the `local`/`e2e` streams additionally place a second pusher between the client's read of the refs and its updates",
    ]
    ctx.extra_cov["source_behaviour"] = {k: ex.get(k) for k in ("cas_result_used", "new_object_checked", "atomic_validates_old", "atomic_validates_new",
                                                                "local_checks_new", "local_precheck_checks_new",
                                                                "bad_ref_catches", "lock_catches", "delete_check_client", "local_uses_cas_result",
                                                                "local_precheck_get_peeled")}
    ctx.extra_cov["fingerprints"] = ex.get("fingerprints")
    sw = [ex.get("cas_result_used"), ex.get("new_object_checked"), ex.get("atomic_validates_old"), ex.get("atomic_validates_new")]
    ctx.notes.append(f"source switches (useCas, checkNew, atomicOld, atomicNew) = {sw}; local (usesCas, checksNew, precheckNew, "
                     f"precheckPeeled) = {[ex.get('local_uses_cas_result'), ex.get('local_checks_new'), ex.get('local_precheck_checks_new'), ex.get('local_precheck_get_peeled')]}. "
                     "The headline theorems are stated for these (Flags.coded / LocalFlags.coded); the _counterexample theorems "
                     "describe the unrepaired behaviour (all off / peeled pre-check)")
    sd = ServerDir(ctx.scratch / "srv")
    _run_corpus(ctx, sd, ex)
    _stream_wire(ctx, sd, ctx.budget(1200))
    _stream_local(ctx, sd, ex, ctx.budget(500))
    _stream_parser(ctx, ctx.budget(1500))
    _stream_symref(ctx, sd, ex, ctx.budget(300), ctx.budget(150), ctx.budget(15))
    _stream_caps(ctx, sd, ctx.budget(25, mult=4), full=ctx.thorough)
    _stream_e2e(ctx, sd, ctx.budget(40), ctx.budget(8, mult=6))
    _stream_git_push(ctx, sd, ctx.budget(5, mult=8))
    ctx.notes.append("e2e.git-server checks only what the dulwich client reports against the refs C git's receive-pack left behind; "
                     "git 2.39.5 itself applies an --atomic push partially when one command is refused for missing objects (observed)")
    _stream_race(ctx, race_scenarios(ctx.thorough), 2, 100000)
    if ctx.thorough:
        _stream_race(ctx, race_scenarios(True), 3, 1500, stream="race.bound3")
    ctx.extra_cov["third_party"] = {"git_server_pushes": ctx.streams.get("e2e.git-server", 0), "git_client_pushes": ctx.streams.get("e2e.git-push", 0)}


def _neighbours(case: dict) -> list:
    """Systematic variations of a wire case: every capability subset, and for each command every combination of
    old in {matching, stale, zero} and new in {present, absent, delete}."""
    out = []
    base = json.loads(json.dumps(case))
    base.pop("tags", None)
    for mask in range(16):
        c = json.loads(json.dumps(base))
        c["caps"] = [cap for i, cap in enumerate(["report-status", "side-band-64k", "atomic", "delete-refs"]) if mask >> i & 1]
        out.append(c)
    for i, cmd in enumerate(base["cmds"]):
        cur = current_of(base["state"], cmd[2])
        for old in (cur or ZERO40.decode(), cid(3).decode() if cur != cid(3).decode() else cid(2).decode(), ZERO40.decode()):
            for new in (cid(1).decode(), cid(7).decode(), ZERO40.decode()):
                for caps in (["report-status"], ["report-status", "atomic"]):
                    c = json.loads(json.dumps(base))
                    c["cmds"][i] = [old, new, cmd[2]]
                    c["caps"] = caps
                    out.append(c)
    return out


def search(ctx: core.Ctx):
    """Failing-input search after a broken obligation / correspondence: hit the direct oracle around the disagreeing
    cases and with a large fresh sample on every path."""
    ex = _extract_or_fallback(ctx)
    sd = ServerDir(ctx.scratch / "srv-search")
    lines, metas = [], []
    # sessions with capability subsets (no report-status in particular), in process and over TCP
    _stream_caps(ctx, sd, ctx.budget(40, mult=3), full=True, stream="search.wire.caps", tcp_every=2)
    if ctx.oracle_failures:
        return
    seeds = [d["case"] for d in ctx.disagreements if isinstance(d.get("case"), dict) and d["case"].get("path") == "wire"][:8]
    seeds += [expand(c) for c in FIXED_WIRE]
    for sc in seeds:
        for c in _neighbours(sc):
            run_wire_case(ctx, sd, c, "search.wire", lines, metas)
        if ctx.oracle_failures:
            return
    for dgr in ctx.disagreements:
        c = dgr.get("case")
        if isinstance(c, dict) and c.get("path") == "local":
            run_local_case(ctx, sd, c, ex, "search.local", [], [])
    if ctx.oracle_failures:
        return
    rng = ctx.rng
    for c in [expand(c_) for c_ in FIXED_SYMREF_WIRE] + [gen_symref_wire_case(rng) for _ in range(ctx.budget(600, mult=4))]:
        run_wire_case(ctx, sd, c, "search.symref", lines, metas)
        if len(ctx.oracle_failures) > 3:
            return
    for _ in range(ctx.budget(3000, mult=4)):
        run_wire_case(ctx, sd, gen_wire_case(rng), "search.wire", lines, metas)
        if len(ctx.oracle_failures) > 3:
            return
    for _ in range(ctx.budget(1500, mult=4)):
        run_local_case(ctx, sd, gen_local_case(rng), ex, "search.local", [], [])
        if len(ctx.oracle_failures) > 3:
            return
    for _ in range(ctx.budget(60, mult=4)):
        run_e2e_case(ctx, sd, gen_local_case(rng), "dulwich", "search.e2e")
        if len(ctx.oracle_failures) > 3:
            return


def replay(ctx: core.Ctx, data: dict) -> int:
    case = data.get("case", {})
    case = case.get("case", case)
    stream = data.get("stream", "replay")
    ex = _extract_or_fallback(ctx)
    sd = ServerDir(ctx.scratch / "srv-replay")
    ctx.known = []          # a replay reports every failure, listed or not
    if case.get("path") == "race":
        r = _race_explicit(ctx, case, "replay")
        print("replay race:", case["sc"]["name"], "schedule", "".join(case["schedule"]))
        for f in r["fails"]:
            print("  A:", f["run"]["A"], "\n  B:", f["run"]["B"], "\n  final:", f["run"]["final"], "\n  events:", " ".join(f["run"]["events"]))
    elif case.get("path") == "wire":
        case = expand(case)
        obs, pre, post = run_wire_case(ctx, sd, case, "replay", [], [])
        print("replay wire: handler raised:", obs["raised"], "| client statuses:", obs["parsed"])
        print("  refs before:", pre, "\n  refs after: ", post)
    elif case.get("path") == "e2e" or (case.get("path") == "local" and (stream.startswith(("e2e", "search.e2e")) or case.get("inplace"))):
        case = dict(case, path="local")
        server = "git" if "git-server" in stream else "dulwich"
        obs = run_e2e_case(ctx, sd, expand(case), server, "replay")
        print(f"replay e2e ({server} server): client raised:", obs["raised"], "| ref_status:", obs["ref_status"])
    elif case.get("path") == "local":
        obs, post = run_local_case(ctx, sd, expand(case), ex, "replay", [], [])
        print("replay local: raised:", obs["raised"], "| ref_status:", obs["ref_status"], "\n  refs after:", post)
    else:
        print("replay: this record has no re-runnable case (broken obligation or git-push sample); run ./check C06")
        return 1 if data.get("kind") == "broken-obligation" else 0
    for f in ctx.oracle_failures:
        print("  FAIL:", f["class"], "-", f["what"])
    if ctx.oracle_failures:
        print(f"VIOLATION property={PROP} replay={data.get('_path', '<replayed>')}")
        return 1
    print("replay: property holds on this case")
    return 0


# ------------------------------------------------------------------------------------------------
# symbolic refs among the commanded names (refs/heads/sym -> ..., a chain, HEAD): an update goes through the symref
# (set_if_equals follows), a deletion names the symref itself and compares its raw content (remove_if_equals does
# not follow) — while the client always names the advertised, resolved value.

SYM1, SYM2 = "refs/heads/sym", "refs/heads/sym2"


def st_resolve(st: dict, name: str):
    """resolved object id of `name` in a generated state (None if absent/dangling)"""
    raw = {k.encode("latin-1"): v.encode("latin-1") for k, v in {**st["refs"], **st.get("loose_after", {})}.items()}
    for k, t in st.get("symrefs", {}).items():
        raw[k.encode("latin-1")] = SYMREF + t.encode("latin-1")
    raw[b"HEAD"] = SYMREF + (st.get("head") or "refs/heads/main").encode("latin-1")
    v = resolve(raw, name.encode("latin-1"))[1]
    return v.decode() if v else None


def gen_symref_state(rng) -> dict:
    st = gen_state(rng)
    st["refs"].pop(DF_PARENT.decode(), None)
    st.get("loose_after", {}).pop(DF_PARENT.decode(), None)
    names = [n.decode() for n in NAMES]
    st["symrefs"] = {SYM1: rng.choice(names)}
    if rng.random() < 0.3:
        st["symrefs"][SYM2] = SYM1
    if rng.random() < 0.6:
        st["head"] = rng.choice(names + [SYM1])
    return st


def _sym_cmd_parts(rng, st, name, tags):
    """(old, new, pack idx or None) for a command on `name`, the old value being what an honest or a stale client names"""
    cur = st_resolve(st, name)
    r = rng.random()
    if r < 0.7:
        old = cur or ZERO40.decode()
        tags.append("old-resolved")
    elif r < 0.85:
        old = rng.choice([cid(i).decode() for i in range(4) if cid(i).decode() != cur])
        tags.append("old-stale")
    else:
        old = ZERO40.decode()
        tags.append("old-zero")
    r = rng.random()
    if r < 0.4:
        return old, ZERO40.decode(), None
    if r < 0.75:
        return old, rng.choice([cid(i).decode() for i in BASE if cid(i).decode() != cur]), None
    i = rng.choice([4, 5])
    return old, cid(i).decode(), i


def gen_symref_wire_case(rng) -> dict:
    st = gen_symref_state(rng)
    symnames = list(st["symrefs"]) + ["HEAD"]
    plain = [n.decode() for n in NAMES]
    rng.shuffle(plain)
    n = rng.choice([1, 2, 2, 3])
    names = [rng.choice(symnames)] + plain[: n - 1]
    if n >= 2 and rng.random() < 0.25:
        names[1] = rng.choice(symnames)
    rng.shuffle(names)
    names = list(dict.fromkeys(names))
    cmds, pack, tags = [], set(), []
    for name in names:
        old, new, pk = _sym_cmd_parts(rng, st, name, tags)
        if pk is not None:
            pack.add(pk)
        cmds.append([old, new, name])
        if name in symnames:
            tags.append("sym-delete" if new == ZERO40.decode() else "sym-update")
            if name == "HEAD":
                tags.append("via-HEAD")
            if st_resolve(st, name) is None:
                tags.append("sym-dangling")
    caps = ["report-status"] + [c for c in ("side-band-64k", "delete-refs") if rng.random() < 0.4]
    atomic = rng.random() < 0.55
    if atomic:
        caps.append("atomic")
    case = {"path": "wire", "state": st, "cmds": cmds, "caps": caps, "pack": {"idx": sorted(pack), "variant": "ok"}}
    case["tags"] = sorted(set(tags) | {f"n={len(cmds)}", "atomic" if atomic else "plain", "packed" if st.get("packed") else "loose"})
    return case


def gen_symref_local_case(rng) -> dict:
    st = gen_symref_state(rng)
    symnames = list(st["symrefs"]) + ["HEAD"]
    plain = [n.decode() for n in NAMES]
    rng.shuffle(plain)
    n = rng.choice([1, 2, 2, 3])
    names = list(dict.fromkeys([rng.choice(symnames)] + plain[: n - 1]))
    rng.shuffle(names)
    cmds, pack, tags = [], set(), []
    for name in names:
        _, new, pk = _sym_cmd_parts(rng, st, name, [])
        if pk is not None:
            pack.add(pk)
        cmds.append([name, new])
        if name in symnames:
            tags.append("sym-delete" if new == ZERO40.decode() else "sym-update")
    racer = []
    if rng.random() < 0.4:
        victim = rng.choice(names)
        if victim not in symnames:
            racer.append(["set", victim, cid(rng.choice(BASE)).decode()] if rng.random() < 0.7 else ["del", victim])
            tags.append("raced")
    atomic = rng.random() < 0.55
    case = {"path": "local", "state": st, "cmds": cmds, "pack": sorted(pack), "atomic": atomic, "racer": racer}
    case["tags"] = sorted(set(tags) | {f"n={len(cmds)}", "atomic" if atomic else "plain"})
    return case


FIXED_SYMREF_WIRE = [
    # atomic: [update x; delete a symbolic ref naming the advertised (resolved) value]
    {"path": "wire", "state": {"refs": {"refs/heads/m": "@1", "refs/heads/a": "@2"}, "symrefs": {SYM1: "refs/heads/m"}},
     "cmds": [["@2", "@3", "refs/heads/a"], ["@1", "@z", SYM1]], "caps": ["report-status", "atomic"]},
    {"path": "wire", "state": {"refs": {"refs/heads/m": "@1", "refs/heads/a": "@2"}, "symrefs": {SYM1: "refs/heads/m"}},
     "cmds": [["@2", "@3", "refs/heads/a"], ["@1", "@z", SYM1]], "caps": ["report-status"]},
    # update through a symref, through HEAD, through a chain; atomic and not
    {"path": "wire", "state": {"refs": {"refs/heads/m": "@1", "refs/heads/a": "@2"}, "symrefs": {SYM1: "refs/heads/m"}},
     "cmds": [["@2", "@3", "refs/heads/a"], ["@1", "@2", SYM1]], "caps": ["report-status", "atomic"]},
    {"path": "wire", "state": {"refs": {"refs/heads/m": "@1"}, "symrefs": {SYM1: "refs/heads/m", SYM2: SYM1}, "head": SYM2},
     "cmds": [["@1", "@2", "HEAD"]], "caps": ["report-status"]},
    {"path": "wire", "state": {"refs": {"refs/heads/a": "@2"}, "symrefs": {SYM1: "refs/heads/m"}},
     "cmds": [["@z", "@3", SYM1], ["@1", "@3", "refs/heads/a"]], "caps": ["report-status", "atomic"]},
    {"path": "wire", "state": {"refs": {"refs/heads/m": "@1"}, "head": "refs/heads/m"},
     "cmds": [["@1", "@z", "HEAD"], ["@z", "@2", "refs/heads/b"]], "caps": ["report-status", "atomic"]},
]


def _stream_symref(ctx, sd, ex, n_wire, n_local, n_e2e):
    rng = ctx.rng
    lines, metas = [], []
    for case in [expand(c) for c in FIXED_SYMREF_WIRE] + [gen_symref_wire_case(rng) for _ in range(n_wire)]:
        case.setdefault("tags", ["fixed"])
        obs, pre, post = run_wire_case(ctx, sd, case, "wire.symref", lines, metas)
        if sum(1 for s_ in ctx.samples if s_.get("stream") == "wire.symref") < 1 and len(case["cmds"]) >= 2 and "atomic" in case["caps"]:
            ctx.sample({"stream": "wire.symref", "case": case, "client_status": repr(obs["parsed"]),
                        "refs_before": {k.decode(): v.decode() for k, v in pre.items()},
                        "refs_after": {k.decode(): v.decode() for k, v in post.items()}})
    compare_wire_batch(ctx, lines, metas)
    lines, metas = [], []
    for _ in range(n_local):
        run_local_case(ctx, sd, gen_symref_local_case(rng), ex, "local.symref", lines, metas)
    compare_local_batch(ctx, lines, metas)
    for _ in range(n_e2e):
        run_e2e_case(ctx, sd, gen_symref_local_case(rng), "dulwich", "e2e.symref")


# ------------------------------------------------------------------------------------------------
# two pushers racing on the same ref: two REAL pushes (wire handler / LocalGitClient) against one bare disk repository
# under harness/sched.py's deterministic scheduler; yield points are the system calls on the ref file, its lock,
# packed-refs and its lock.  Runs in a worker process (the scheduler patches os.* for the whole process).

RACE_REF = b"refs/heads/m"
RACE_X = b"refs/heads/x"
_RACE_RELEVANT = None


def _race_sched_class():
    import re
    from .. import sched
    global _RACE_RELEVANT
    if _RACE_RELEVANT is None:
        _RACE_RELEVANT = re.compile(r"^(packed-refs|refs/heads/m|refs/heads/x)(\.lock)?$")

    class RaceSched(sched.Scheduler):
        def _handle(self, who, name, paths, do):
            if name != "start":
                if name in ("mkdir", "makedirs", "rmdir", "chmod", "utime", "listdir", "scandir", "access"):
                    return do()
                if not paths or not all(isinstance(p_, str) and _RACE_RELEVANT.match(p_) for p_ in paths):
                    return do()
            return super()._handle(who, name, paths, do)
    return RaceSched


def _race_reset(root: str, sc: dict):
    """ref m = c1, stored loose / packed-only (no loose file) / both (packed holds the older c0)"""
    import glob
    shutil.rmtree(os.path.join(root, "refs"), ignore_errors=True)
    os.makedirs(os.path.join(root, "refs", "heads"))
    os.makedirs(os.path.join(root, "refs", "tags"))
    for f in glob.glob(os.path.join(root, "*.lock")) + glob.glob(os.path.join(root, "objects", "pack", "*")) + [os.path.join(root, "packed-refs")]:
        try:
            os.remove(f)
        except OSError:
            pass
    shutil.rmtree(os.path.join(root, "logs"), ignore_errors=True)
    other = b"%s refs/heads/zz\n" % cid(0)
    if sc["storage"] in ("packed", "both"):
        v = cid(1) if sc["storage"] == "packed" else cid(0)
        with open(os.path.join(root, "packed-refs"), "wb") as f:
            f.write(b"# pack-refs with: peeled fully-peeled sorted \n" + b"%s refs/heads/m\n" % v + other)
    if sc["storage"] in ("loose", "both"):
        with open(os.path.join(root, "refs", "heads", "m"), "wb") as f:
            f.write(cid(1) + b"\n")


def _race_read(root: str, name: str = "refs/heads/m"):
    """raw value of a ref, read by the harness itself: the loose file wins over packed-refs"""
    try:
        with open(os.path.join(root, *name.split("/")), "rb") as f:
            return f.read().strip() or None
    except OSError:
        pass
    try:
        with open(os.path.join(root, "packed-refs"), "rb") as f:
            for ln in f.read().splitlines():
                if ln.endswith(b" " + name.encode()) and not ln.startswith(b"#"):
                    return ln.split(b" ")[0]
    except OSError:
        pass
    return None


def _race_actor(root: str, spec: dict, out: dict):
    """one pusher: {"path": wire|local, "old": id, "new": id or zero, "repack": bool} -> out[ok, old, error]"""
    from dulwich.repo import Repo
    path, new = spec["path"], spec["new"].encode()

    def body():
        repo = Repo(root)
        try:
            if path == "wire":
                from dulwich import client as C
                from dulwich.protocol import Protocol, pkt_line
                from dulwich.server import DictBackend, ReceivePackHandler
                old = spec["old"].encode()
                out["old"] = old
                caps = b"report-status" + (b" atomic" if spec.get("atomic") else b"")
                lines_ = [old + b" " + new + b" " + RACE_REF]
                if spec.get("extra"):            # a command on a ref nobody else touches, BEFORE the contended one
                    lines_.insert(0, ZERO40 + b" " + spec["extra"].encode() + b" " + RACE_X)
                lines_[0] += b"\0" + caps
                need_pack = new != ZERO40 or spec.get("extra")
                inp = io.BytesIO(b"".join(pkt_line(l_) for l_ in lines_) + pkt_line(None) + (pack_bytes([]) if need_pack else b""))
                outb = io.BytesIO()
                try:
                    ReceivePackHandler(DictBackend({"/": repo}), ["/"], Protocol(inp.read, outb.write), stateless_rpc=True).handle()
                except Exception as e:      # the handler died (e.g. FileLocked): the client sees a hang-up, no success
                    out["error"] = type(e).__name__
                    out["ok"] = False
                else:
                    p = C.ReportStatusParser()
                    f = io.BytesIO(outb.getvalue())
                    for pkt in Protocol(f.read, lambda b_: None).read_pkt_seq():
                        p.handle_packet(pkt)
                    try:
                        st = dict(p.check())
                    except Exception as e:
                        st = {}
                        out["error"] = "status:" + type(e).__name__
                    out["ok"] = RACE_REF in st and st[RACE_REF] is None
                    out["msg"] = st.get(RACE_REF)
                    out["x_ok"] = RACE_X in st and st[RACE_X] is None
            elif path == "repack":
                out["ok"] = False
                out["old"] = None
            else:
                from dulwich.client import LocalGitClient
                from dulwich.pack import pack_objects_to_data

                def update_refs(refs):
                    out["old"] = bytes(refs.get(RACE_REF, ZERO40))
                    return {RACE_REF: new}
                try:
                    res = LocalGitClient().send_pack(root, update_refs, lambda have, want, **kw: pack_objects_to_data([]))
                    out["ok"] = (res.ref_status or {}).get(RACE_REF) is None
                    out["msg"] = (res.ref_status or {}).get(RACE_REF)
                except Exception as e:
                    out["error"] = type(e).__name__
                    out["ok"] = False
            if spec.get("repack"):
                try:
                    repo.refs.pack_refs(all=True)
                except Exception as e:
                    out["repack_error"] = type(e).__name__
        finally:
            repo.close()
    return body


def _race_run(root: str, sc: dict, prefix: list):
    RaceSched = _race_sched_class()
    _race_reset(root, sc)
    s = RaceSched(root, timeout=30)
    outs = {"A": {}, "B": {}}
    s.spawn("A", _race_actor(root, sc["A"], outs["A"]))
    s.spawn("B", _race_actor(root, sc["B"], outs["B"]))
    choices, pend = [], []
    pre = list(prefix)

    def choose(pending, history):
        ps = sorted(pending)
        pend.append(ps)
        k = len(choices)
        if k < len(pre) and pre[k] in pending:
            c = pre[k]
        elif choices and choices[-1] in pending:
            c = choices[-1]
        else:
            c = ps[0]
        choices.append(c)
        return c
    ev = s.run(choose)
    for n in ("A", "B"):
        if s.results[n].exc is not None:
            outs[n].setdefault("error", "actor:" + type(s.results[n].exc).__name__)
            outs[n].setdefault("ok", False)
    final = _race_read(root)
    fx = _race_read(root, "refs/heads/x")
    final_x = fx.decode() if fx else None
    return {"choices": choices, "pend": pend, "final": final.decode() if final else None, "final_x": final_x,
            "A": {k: (v.decode() if isinstance(v, bytes) else v) for k, v in outs["A"].items()},
            "B": {k: (v.decode() if isinstance(v, bytes) else v) for k, v in outs["B"].items()},
            "events": [f"{e[0]}:{e[1]}:{'+'.join(map(str, e[2]))}:{e[3]}" for e in ev]}


def _race_preemptions(choices, pend):
    n = 0
    for i in range(1, len(choices)):
        if choices[i] != choices[i - 1] and choices[i - 1] in pend[i]:
            n += 1
    return n


def race_verdict(sc: dict, run: dict):
    """The property's words for two racing pushers: the pushers answered ok must be explainable one after the other —
    each one's old value was current when its write happened — and the ref must end up at the value the last of them
    wrote (no lost update, a deleted ref does not come back); a pusher not answered ok has changed nothing."""
    v0 = cid(1).decode()
    ops = []
    for n in ("A", "B"):
        o = run[n]
        if o.get("ok"):
            ops.append((n, o.get("old"), sc[n]["new"]))
    z = ZERO40.decode()

    def explain(order):
        v = v0
        for _, old, new in order:
            if (v or z) != old:
                return False
            v = None if new == z else new
        return v == run["final"]
    import itertools
    xa = sc["A"].get("extra")
    if xa:
        # the ref only pusher A touches: reported outcome <=> ref state; under atomic, all or none
        a = run["A"]
        if run.get("final_x") == xa and not a.get("x_ok"):
            cls = "race-lock-contention-aborts-push-after-partial-apply" if a.get("error") == "FileLocked" else "race-applied-but-not-reported"
            return cls, (f"pusher A's command on refs/heads/x was applied (x = {xa}) but no success was reported for it: "
                         f"the handler ended with {a.get('error')} on the contended ref")
        if a.get("x_ok") and run.get("final_x") != xa:
            return "race-ok-but-not-applied", f"pusher A was answered ok for refs/heads/x, which holds {run.get('final_x')}"
        if sc["A"].get("atomic") and run.get("final_x") == xa and not a.get("ok"):
            why = a.get("msg") or a.get("error") or ""
            cls = ("race-atomic-partial-apply-rival-between-validation-and-apply" if "stale" in why
                   else "race-atomic-partial-apply-lock-contention" if "lock" in why.lower() else "race-atomic-partial-apply")
            return cls, f"atomic push of A: refs/heads/x was applied, refs/heads/m was not ({why})"
    if any(explain(p_) for p_ in itertools.permutations(ops)):
        return None
    repack = sc["A"].get("repack") or sc["B"].get("repack")
    if len(ops) == 2 and ops[0][1] == ops[1][1] and ops[0][2] != ops[1][2]:
        return "race-lost-update", f"both pushers were answered ok from the same old value {ops[0][1]}; the ref ends at {run['final']}"
    dele = [o for o in ops if o[2] == z]
    if dele and run["final"] is not None and len(ops) == 1:
        return ("race-deleted-ref-came-back-after-pack-refs" if repack else "race-deleted-ref-came-back",
                f"pusher {dele[0][0]} was answered ok for deleting the ref, which ends at {run['final']}")
    if not ops and run["final"] != v0:
        return "race-rejected-but-changed", f"no pusher was answered ok, yet the ref went from {v0} to {run['final']}"
    return "race-ok-unexplained", f"answered ok: {ops}; the ref went from {v0} to {run['final']}: no order of the successful pushes explains it"


def impl_race(a):
    """Explore schedules of one scenario: depth-first over the choice points with at most `bound` pre-emptions
    (at most `max` runs; a spread sample when truncated).  Returns the failing runs and counters."""
    import random
    import tempfile
    sc, bound, mx = a["sc"], a["bound"], a.get("max", 100000)
    root = a["root"]
    if not os.path.exists(os.path.join(root, "objects")):
        from dulwich.repo import Repo
        r = Repo.init_bare(root, mkdir=not os.path.exists(root))
        for i in range(6):
            for o in pool()[i]:
                r.object_store.add_object(o)
        r.close()
    rng = random.Random(a.get("seed", 0))
    if a.get("explicit") is not None:
        run = _race_run(root, sc, a["explicit"])
        v = race_verdict(sc, run)
        return {"runs": 1, "truncated": False, "fails": [{"verdict": v, "run": run}] if v else [], "steps": len(run["choices"]), "outcomes": {}}
    stack, n, fails, outcomes, truncated, steps = [[]], 0, [], {}, False, 0
    while stack:
        if n >= mx:
            truncated = True
            break
        prefix = stack.pop(rng.randrange(len(stack)) if len(stack) > 64 else -1)
        run = _race_run(root, sc, prefix)
        n += 1
        steps = max(steps, len(run["choices"]))
        key = f"A={'ok' if run['A'].get('ok') else run['A'].get('error') or 'ng'} B={'ok' if run['B'].get('ok') else run['B'].get('error') or 'ng'}"
        outcomes[key] = outcomes.get(key, 0) + 1
        v = race_verdict(sc, run)
        if v and len(fails) < 3:
            fails.append({"verdict": v, "run": {k: run[k] for k in ("choices", "final", "A", "B", "events")}})
        for i in range(len(prefix), len(run["choices"])):
            for b_ in run["pend"][i]:
                if b_ != run["choices"][i]:
                    newp = run["choices"][:i] + [b_]
                    if _race_preemptions(newp, run["pend"]) <= bound:
                        stack.append(newp)
    return {"runs": n, "truncated": truncated, "fails": fails, "steps": steps, "outcomes": outcomes}


def race_scenarios(thorough: bool) -> list:
    z = ZERO40.decode()
    out = []
    for storage in ("loose", "packed", "both"):
        for rival_new, rname in ((cid(3).decode(), "update"), (z, "delete")):
            for repack in (False, True):
                for pa, pb in (("wire", "wire"), ("local", "wire"), ("wire", "local")) if thorough else (("wire", "wire"), ("local", "wire")):
                    out.append({"storage": storage, "name": f"{storage}:{pa}-vs-{pb}:{rname}{'+repack' if repack else ''}",
                                "A": {"path": pa, "old": cid(1).decode(), "new": cid(2).decode()},
                                "B": {"path": pb, "old": cid(1).decode(), "new": rival_new, "repack": repack}})
    # the pusher deletes, the rival updates and repacks (a reported deletion must not come back)
    for storage in ("loose", "packed", "both"):
        out.append({"storage": storage, "name": f"{storage}:wire-delete-vs-wire-update+repack",
                    "A": {"path": "wire", "old": cid(1).decode(), "new": z},
                    "B": {"path": "wire", "old": cid(1).decode(), "new": cid(3).decode(), "repack": True}})
        out.append({"storage": storage, "name": f"{storage}:wire-stale-vs-wire-update",
                    "A": {"path": "wire", "old": cid(4).decode(), "new": cid(2).decode()},
                    "B": {"path": "wire", "old": cid(1).decode(), "new": cid(3).decode(), "repack": False}})
    # a push with two commands whose SECOND ref is contended: the rival holds refs/heads/m.lock (another push) or
    # packed-refs.lock (pack_refs) while the handler applies command 2 of 2 — after command 1 was applied
    for storage in ("loose", "packed"):
        for atomic in (False, True):
            out.append({"storage": storage, "name": f"{storage}:wire-2cmds{'-atomic' if atomic else ''}-vs-wire-update",
                        "A": {"path": "wire", "old": cid(1).decode(), "new": cid(2).decode(), "extra": cid(2).decode(), "atomic": atomic},
                        "B": {"path": "wire", "old": cid(1).decode(), "new": cid(3).decode(), "repack": False}})
            out.append({"storage": storage, "name": f"{storage}:wire-2cmds{'-atomic' if atomic else ''}-delete-vs-pack-refs",
                        "A": {"path": "wire", "old": cid(1).decode(), "new": z, "extra": cid(2).decode(), "atomic": atomic},
                        "B": {"path": "repack", "old": cid(1).decode(), "new": cid(1).decode(), "repack": True}})
    return out


def _race_explicit(ctx, case, stream):
    """one scenario under one explicit schedule (corpus / replay)"""
    w = core.Worker("default", mem_mb=2048)
    try:
        rep = w.ask({"mod": MOD, "op": "race", "args": {"sc": case["sc"], "bound": 0, "root": str(ctx.scratch / "race-x"),
                                                       "explicit": case["schedule"]}}, timeout=300)
    finally:
        w.close()
    if "r" not in rep:
        raise core.InfraError(f"race worker failed: {rep}")
    ctx.count(stream, json.dumps(case, sort_keys=True), True, "race")
    for f in rep["r"]["fails"]:
        cls, what = f["verdict"]
        ctx.oracle_fail(stream, {"case": case, "run": f["run"]}, f"{case['sc']['name']}: {what}", cls)
    return rep["r"]


def _stream_race(ctx, scenarios, bound, max_runs, stream="race", nworkers=6):
    """Fan the scenarios out over a few worker processes (each explores its scenarios' schedules sequentially)."""
    import concurrent.futures as cf
    workers = [core.Worker("default", mem_mb=2048) for _ in range(min(nworkers, len(scenarios)))]
    roots = [str(ctx.scratch / f"race{i}") for i in range(len(workers))]

    def job(k):
        w, root = workers[k], roots[k]
        res = []
        for sc in scenarios[k::len(workers)]:
            rep = w.ask({"mod": MOD, "op": "race", "args": {"sc": sc, "bound": bound, "max": max_runs, "root": root, "seed": ctx.seed}}, timeout=1200)
            res.append((sc, rep))
        return res
    try:
        with cf.ThreadPoolExecutor(len(workers)) as ex:
            results = [r for rs in ex.map(job, range(len(workers))) for r in rs]
    finally:
        for w in workers:
            w.close()
    total = 0
    for sc, rep in results:
        if "r" not in rep:
            raise core.InfraError(f"race worker failed on {sc['name']}: {rep}")
        r = rep["r"]
        total += r["runs"]
        ctx.count(stream, sc["name"], True, None)
        ctx.evaluations += r["runs"] - 1
        ctx.streams[stream] = ctx.streams.get(stream, 0) + r["runs"] - 1
        h = ctx.hist.setdefault(stream, {})
        for k, v in r["outcomes"].items():
            h[f"{sc['storage']}:{k}"] = h.get(f"{sc['storage']}:{k}", 0) + v
        if r["truncated"]:
            h["truncated-scenarios"] = h.get("truncated-scenarios", 0) + 1
        for f in r["fails"]:
            cls, what = f["verdict"]
            ctx.oracle_fail(stream, {"case": {"path": "race", "sc": sc, "schedule": f["run"]["choices"]}, "run": f["run"]},
                            f"{sc['name']}: {what}", cls)
    ctx.extra_cov.setdefault("race", {})[stream] = {"scenarios": len(scenarios), "schedules": total, "preemption_bound": bound, "max_runs_per_scenario": max_runs}


# ------------------------------------------------------------------------------------------------
# sessions in which the client negotiates a SUBSET of the capabilities — in particular no report-status: with no
# status report to read, "success" is that the session ended without an error; the refs must then hold what was asked,
# and what the server does must not depend on which report capabilities (report-status, side-band-64k, quiet,
# ofs-delta) were negotiated.  In-process handler and TCP (dulwich's TCPGitServer, hand-written pkt-line client).

REPORT_CAPS = ["report-status", "side-band-64k", "quiet", "ofs-delta"]


def _effect(post_refs: dict, post_store) -> str:
    return ",".join(f"{k.decode('latin-1')}={v.decode('latin-1')}" for k, v in sorted(post_refs.items())) + " | " + ",".join(sorted(i.decode() for i in post_store))


def run_wire_effect(ctx, sd: ServerDir, case: dict, stream: str, lines=None, metas=None):
    """run one wire case (oracle included) and return (obs, effect string)"""
    tmp_l, tmp_m = ([], []) if lines is None else (lines, metas)
    obs, pre, post = run_wire_case(ctx, sd, case, stream, tmp_l, tmp_m)
    post_store = tmp_m[-1][4]
    return obs, _effect(post, post_store)


def gen_caps_base(rng) -> dict:
    """a wire case without hooks / injected faults (they cannot be installed in a TCP server), well-formed pack"""
    for _ in range(50):
        c = gen_wire_case(rng) if rng.random() < 0.7 else gen_symref_wire_case(rng)
        if c.get("hooks") or c.get("pre") or "key" in c.get("faults", {}).values() or c.get("pack", {}).get("variant", "ok") != "ok":
            continue
        if any(cap not in CAPS for cap in c["caps"]):
            continue
        return c
    return c


FIXED_CAPS_BASES = [
    {"path": "wire", "state": {"refs": {"refs/heads/m": "@2"}}, "cmds": [["@2", "@4", "refs/heads/m"], ["@z", "@5", "refs/tags/t"]],
     "caps": [], "pack": {"idx": [4, 5], "variant": "ok"}},
    {"path": "wire", "state": {"refs": {"refs/heads/m": "@2", "refs/heads/a": "@1"}}, "cmds": [["@2", "@z", "refs/heads/m"], ["@1", "@3", "refs/heads/a"]],
     "caps": []},
    {"path": "wire", "state": {"refs": {"refs/heads/m": "@2"}}, "cmds": [["@2", "@3", "refs/heads/m"]], "caps": []},
    {"path": "wire", "state": {"refs": {"refs/heads/m": "@2"}}, "cmds": [["@1", "@3", "refs/heads/m"], ["@z", "@1", "refs/heads/x"]], "caps": []},
]


def cap_subsets(rng, full: bool) -> list:
    subs = []
    names = REPORT_CAPS + ["delete-refs"]
    if full:
        for mask in range(1 << len(names)):
            subs.append([c for i, c in enumerate(names) if mask >> i & 1])
    else:
        subs = [[], ["report-status"], ["side-band-64k"], ["quiet"], ["ofs-delta", "quiet"], ["report-status", "side-band-64k"],
                ["report-status", "quiet", "ofs-delta", "delete-refs"], ["side-band-64k", "quiet", "ofs-delta"], REPORT_CAPS + ["delete-refs"]]
        subs += [[c for c in names if rng.random() < 0.5] for _ in range(3)]
    return subs


class _TcpServer:
    """dulwich's own TCPGitServer on a free local port, serving the scratch directory; handler exceptions are recorded"""

    def __init__(self, root: Path):
        import threading
        from dulwich.server import FileSystemBackend, TCPGitServer
        outer = self
        self.errors = []

        class Srv(TCPGitServer):
            def handle_error(self, request, client_address):
                import sys as _s
                outer.errors.append(_s.exc_info()[1])
        self.srv = Srv(FileSystemBackend(str(root)), "127.0.0.1", 0)
        self.t = threading.Thread(target=self.srv.serve_forever, kwargs={"poll_interval": 0.05}, daemon=True)
        self.t.start()

    def close(self):
        self.srv.shutdown()
        self.srv.server_close()
        self.t.join(10)


def tcp_push(tcp: _TcpServer, sd: ServerDir, case: dict) -> dict:
    """a hand-written pkt-line client over TCP: request line, read the advertisement, commands with exactly the
    capabilities of the case, the pack, half-close, read to EOF"""
    import socket
    from dulwich import client as C
    from dulwich.errors import GitProtocolError
    from dulwich.protocol import Protocol, pkt_line
    cmds = [(c[0].encode(), c[1].encode(), c[2].encode("latin-1")) for c in case["cmds"]]
    caps = [c.encode() for c in case["caps"]]
    tcp.errors.clear()
    sock = socket.create_connection(tcp.srv.server_address, timeout=30)
    obs = {"unpack_exc": None, "unpack_called": None, "raised": None, "pkts": None, "parsed": None, "leftover": 0}
    data = b""
    try:
        rfile = sock.makefile("rb")
        sock.sendall(pkt_line(b"git-receive-pack " + str(sd.path).encode() + b"\0host=localhost\0"))
        adv = list(Protocol(rfile.read, lambda b_: None).read_pkt_seq())
        obs["advertised"] = adv[0].split(b"\0", 1)[1].split() if adv and b"\0" in adv[0] else []
        req = io.BytesIO()
        first = True
        for old, new, name in cmds:
            line = old + b" " + new + b" " + name
            if first and caps:
                line += b"\0" + b" ".join(caps)
            first = False
            req.write(pkt_line(line))
        req.write(pkt_line(None))
        pk = case.get("pack", {"idx": [], "variant": "ok"})
        if any(new != ZERO40 for _, new, _ in cmds):      # like a real client: no pack when only deletions are sent
            req.write(pack_bytes(pk["idx"], pk["variant"]))
        try:
            sock.sendall(req.getvalue())
            sock.shutdown(socket.SHUT_WR)
            data = rfile.read()
        except OSError as e:        # the server closed the connection before the request was complete / with data unread
            obs["transport_error"] = type(e).__name__
    finally:
        sock.close()
    # socketserver calls handle_error() before it closes the connection, so a handler exception is recorded by the time EOF is read
    if tcp.errors:
        e = tcp.errors[0]
        obs["raised"] = ("protocol" if isinstance(e, GitProtocolError) else "ref-error", type(e).__name__, str(e)[:120])
    elif obs.get("transport_error"):
        obs["raised"] = ("transport", obs["transport_error"], "the server closed the connection early")
    if obs["raised"] is None and b"report-status" in caps and cmds:
        f = io.BytesIO(data)
        p = Protocol(f.read, lambda b_: None)
        cl = C.LocalGitClient()
        cl.protocol_version = 0
        cl._report_status_parser = C.ReportStatusParser()
        try:
            st = cl._handle_receive_pack_tail(p, set(caps))
            obs["parsed"] = ("ok", {bytes(k): v for k, v in st.items()})
        except C.SendPackError:
            obs["parsed"] = ("err", "sendpack")
        except GitProtocolError as e:
            obs["parsed"] = ("err", "protocol:" + type(e).__name__)
        except ValueError:
            obs["parsed"] = ("err", "value")
    elif data and obs["raised"] is None:
        # no report was asked for: anything the server still sends must not be an error packet
        if b"ERR " in data[:64]:
            obs["raised"] = ("protocol", "ERR-pkt", data[:80].decode("latin-1"))
    obs["bytes_after_request"] = len(data)
    return obs


def run_tcp_case(ctx, tcp: _TcpServer, sd: ServerDir, case: dict, stream: str):
    sd.reset_state(case["state"])
    hd = uses_head(case)
    repo = sd.open()
    try:
        pre_refs = read_refs(repo, hd)
        cands = candidate_ids(case)
        pre_store = {i for i in cands if in_store(repo, i)}
    finally:
        repo.close()
    obs = tcp_push(tcp, sd, case)
    repo = sd.open()
    try:
        post_refs = read_refs(repo, hd)
        post_store = {i for i in cands if in_store(repo, i)}
        post_missing = {n: v for n, v in post_refs.items() if not v.startswith(SYMREF) and not in_store(repo, v)}
    finally:
        repo.close()
    ctx.count(stream, json.dumps(case, sort_keys=True), True, "report" if "report-status" in case["caps"] else "silent")
    oracle_wire(ctx, stream, case, pre_refs, pre_store, obs, post_refs, post_missing)
    return obs, _effect(post_refs, post_store)


def _stream_caps(ctx, sd: ServerDir, n_bases: int, full: bool, stream="wire.caps", tcp_every=3):
    """every base case under many capability subsets: same server-side effect within {atomic on} and within {atomic off},
    over the in-process transport and (every few) over TCP; the per-session oracle runs on each of them"""
    rng = ctx.rng
    bases = [expand(c) for c in FIXED_CAPS_BASES] + [gen_caps_base(rng) for _ in range(n_bases)]
    tcp = _TcpServer(ctx.scratch)
    lines, metas = [], []
    try:
        for bi, base in enumerate(bases):
            base = json.loads(json.dumps(base))
            base.pop("tags", None)
            seen = {}
            for atomic in (False, True):
                for k, sub in enumerate(cap_subsets(rng, full)):
                    case = json.loads(json.dumps(base))
                    case["caps"] = list(sub) + (["atomic"] if atomic else [])
                    case["tags"] = [("atomic" if atomic else "plain") + ":" + ("report" if "report-status" in sub else "silent")]
                    obs, eff = run_wire_effect(ctx, sd, case, stream, lines, metas)
                    ref = seen.setdefault(atomic, (case["caps"], eff))
                    if eff != ref[1]:
                        ctx.oracle_fail(stream, {"case": case, "other_caps": ref[0], "effect": eff, "other_effect": ref[1]},
                                        f"the same commands leave the server in a different state with capabilities {case['caps']} than with {ref[0]}",
                                        "wire-effect-depends-on-report-capabilities")
                    if (bi * 31 + k) % tcp_every == 0:
                        tobs, teff = run_tcp_case(ctx, tcp, sd, case, stream.replace("wire", "tcp"))
                        if teff != eff:
                            ctx.oracle_fail(stream.replace("wire", "tcp"), {"case": case, "effect": teff, "inprocess_effect": eff},
                                            f"over TCP the same session ({case['caps']}) leaves the server in a different state than in process",
                                            "tcp-effect-differs-from-in-process")
            if len(lines) > 400:
                compare_wire_batch(ctx, lines, metas)
                lines, metas = [], []
        compare_wire_batch(ctx, lines, metas)
    finally:
        tcp.close()
