"""C06 — a push reports success exactly for the refs it changed; server refs stay valid; atomic pushes
are all-or-nothing.

Model: lean/DulwichModel/Model/ReceivePack.lean; theorems: Props/C06.lean.
Tie: translate() regenerates Gen/ReceivePack.lean (exception tuple, status literals, report-status line
formats, capability lists, zero sha, and three booleans saying whether `_apply_pack` uses the CAS result /
checks the new object / validates old values under `atomic`); run() drives the correspondence streams
(model vs the real ReceivePackHandler over an in-memory pkt-line transport against bare disk repos, model vs
the real LocalGitClient.send_pack, model vs the real ReportStatusParser) and the direct oracle in the
property's words.
"""
from __future__ import annotations

import ast
import io
import json
import os
import shutil
import struct
import zlib
import hashlib
from pathlib import Path

from .. import core, translate as T
from ..core import hx, unhx

MOD = "c06"
PROP = "C06"


# ------------------------------------------------------------------------------------------------
# translator

def _calls_attr(node: ast.AST, attr: str) -> list[ast.Call]:
    return [n for n in ast.walk(node) if isinstance(n, ast.Call) and isinstance(n.func, ast.Attribute)
            and n.func.attr == attr]


def _bytes_const(node) -> bytes:
    if isinstance(node, ast.Constant) and isinstance(node.value, bytes):
        return node.value
    raise T.TranslateError(f"expected a bytes literal, got {ast.dump(node)[:80]}")


def _flatten_add(node) -> list:
    """b"ng " + name + b" " + msg + b"\\n"  ->  [b"ng ", "name", b" ", "msg", b"\\n"]"""
    if isinstance(node, ast.BinOp) and isinstance(node.op, ast.Add):
        return _flatten_add(node.left) + _flatten_add(node.right)
    if isinstance(node, ast.Constant) and isinstance(node.value, bytes):
        return [node.value]
    if isinstance(node, ast.Name) and node.id in ("name", "msg"):
        return [node.id]
    raise T.TranslateError(f"_report_status: unexpected operand {ast.dump(node)[:80]}")


def _lean_parts(parts: list) -> str:
    out = []
    for p in parts:
        if isinstance(p, bytes):
            out.append(f".lit {T.lean_bytes(p)}")
        else:
            out.append(f".{p}")
    return "[" + ", ".join(out) + "]"


def _cap_list(func: ast.AST, consts: dict) -> list[bytes]:
    """The CAPABILITY_* names of the list returned by a `capabilities()`-style method (calls such as
    capability_agent() / capability_object_format(...) are skipped: they carry a value)."""
    rets = [n for n in ast.walk(func) if isinstance(n, ast.Return) and isinstance(n.value, ast.List)]
    if len(rets) != 1:
        raise T.TranslateError(f"{func.name}: expected one `return [...]`")
    out = []
    for e in rets[0].value.elts:
        if isinstance(e, ast.Name):
            if e.id not in consts:
                raise T.TranslateError(f"{func.name}: unknown capability constant {e.id}")
            out.append(consts[e.id])
        elif isinstance(e, ast.Call):
            continue
        else:
            raise T.TranslateError(f"{func.name}: unexpected element {ast.dump(e)[:60]}")
    return out


def _handler_assign(handler: ast.ExceptHandler, var="ref_status") -> bytes:
    for st in handler.body:
        if isinstance(st, ast.Assign) and isinstance(st.targets[0], ast.Name) and st.targets[0].id == var:
            return _bytes_const(st.value)
    raise T.TranslateError("except handler does not assign ref_status")


def _exc_names(node) -> list[str]:
    if node is None:
        return ["BaseException"]
    if isinstance(node, ast.Tuple):
        return [ast.unparse(e) for e in node.elts]
    return [ast.unparse(node)]


def _one(values, what):
    vs = set(values)
    if len(vs) != 1:
        raise T.TranslateError(f"{what}: expected exactly one distinct value, got {sorted(map(repr, vs))}")
    return vs.pop()


def extract(repo: Path) -> dict:
    """Everything the model takes from the source, as a python dict (also used by the harness)."""
    srv = T.module_ast(repo / "dulwich" / "server.py")
    cli = T.module_ast(repo / "dulwich" / "client.py")
    proto = T.module_ast(repo / "dulwich" / "protocol.py")
    ofmt = T.module_ast(repo / "dulwich" / "object_format.py")
    caps_consts = {}
    for st in proto.body:
        if isinstance(st, ast.Assign) and isinstance(st.targets[0], ast.Name) and st.targets[0].id.startswith("CAPABILITY_") \
                and isinstance(st.value, ast.Constant) and isinstance(st.value.value, bytes):
            caps_consts[st.targets[0].id] = st.value.value
    d: dict = {}
    ap = T.find_def(srv, "ReceivePackHandler._apply_pack")
    # exception tuple
    tup = None
    zero_char = None
    for n in ast.walk(ap):
        if isinstance(n, ast.Assign) and isinstance(n.targets[0], ast.Name):
            if n.targets[0].id == "all_exceptions" and isinstance(n.value, ast.Tuple):
                tup = [ast.unparse(e) for e in n.value.elts]
            if n.targets[0].id == "zero_sha":
                for m in ast.walk(n.value):
                    if isinstance(m, ast.BinOp) and isinstance(m.op, ast.Mult) and isinstance(m.left, ast.Constant) \
                            and isinstance(m.left.value, bytes) and "hex_length" in ast.unparse(m.right):
                        zero_char = m.left.value
    if not tup:
        raise T.TranslateError("_apply_pack: all_exceptions tuple not found")
    if zero_char is None or len(zero_char) != 1:
        raise T.TranslateError("_apply_pack: zero_sha = b'0' * hex_length not found")
    d["all_exceptions"] = tup
    d["zero_char"] = zero_char
    hexlen = None
    for st in ofmt.body:
        if isinstance(st, ast.Assign) and isinstance(st.targets[0], ast.Name) and st.targets[0].id == "SHA1" \
                and isinstance(st.value, ast.Call):
            for kw in st.value.keywords:
                if kw.arg == "hex_length":
                    hexlen = T.eval_literal(kw.value)
    if not isinstance(hexlen, int):
        raise T.TranslateError("object_format.SHA1 hex_length not found")
    d["hex_length"] = hexlen
    # yields: (b"unpack", b"ok") x2, (b"unpack", <error>), (ref, b"atomic push failed"), ...
    unpack_names, ok_msgs, atomic_msgs = [], [], []
    for n in ast.walk(ap):
        if isinstance(n, ast.Yield) and isinstance(n.value, ast.Tuple) and len(n.value.elts) == 2:
            a, b = n.value.elts
            if isinstance(a, ast.Constant):
                unpack_names.append(_bytes_const(a))
                if isinstance(b, ast.Constant):
                    ok_msgs.append(_bytes_const(b))
            elif isinstance(b, ast.Constant):
                atomic_msgs.append(_bytes_const(b))
    d["unpack_name"] = _one(unpack_names, "_apply_pack unpack entry name")
    d["ok"] = _one(ok_msgs, "_apply_pack unpack ok message")
    d["atomic_failed"] = _one(atomic_msgs, "_apply_pack atomic failure message")
    # `ref_status = b"ok"` initialisations and the `status == b"ok"` test must use the same literal
    inits = [_bytes_const(n.value) for n in ast.walk(ap) if isinstance(n, ast.Assign) and isinstance(n.targets[0], ast.Name)
             and n.targets[0].id == "ref_status" and isinstance(n.value, ast.Constant)
             and not any(n in h.body for h in ast.walk(ap) if isinstance(h, ast.ExceptHandler))]
    if _one(inits, "_apply_pack ref_status initial value") != d["ok"]:
        raise T.TranslateError("_apply_pack: ref_status is not initialised to the unpack ok literal")
    # try/except structure around the CAS calls
    fd, fw, bad, bad_types, inner_types = [], [], [], [], []
    for n in ast.walk(ap):
        if not isinstance(n, ast.Try):
            continue
        direct = [s for s in n.body if not isinstance(s, (ast.Try, ast.If))]
        has_rm = any(_calls_attr(s, "remove_if_equals") for s in direct)
        has_set = any(_calls_attr(s, "set_if_equals") for s in direct)
        if not (has_rm or has_set):
            # `if not ...set_if_equals(...)` directly inside the try (repaired shape)
            ifs = [s for s in n.body if isinstance(s, ast.If)]
            has_rm = any(_calls_attr(s.test, "remove_if_equals") for s in ifs)
            has_set = any(_calls_attr(s.test, "set_if_equals") for s in ifs)
        if has_rm or has_set:
            if len(n.handlers) != 1:
                raise T.TranslateError("_apply_pack: CAS try block with several handlers")
            inner_types.append(tuple(_exc_names(n.handlers[0].type)))
            (fd if has_rm else fw).append(_handler_assign(n.handlers[0]))
        elif any(isinstance(s, (ast.Try, ast.If)) for s in n.body) and _calls_attr(n, "set_if_equals") + _calls_attr(n, "remove_if_equals") \
                or any("delete refs" in ast.unparse(s) for s in n.body):
            for h in n.handlers:
                bad.append(_handler_assign(h))
                bad_types.append(tuple(_exc_names(h.type)))
    d["failed_delete"] = _one(fd, "_apply_pack failed-to-delete literal")
    d["failed_write"] = _one(fw, "_apply_pack failed-to-write literal")
    d["bad_ref"] = _one(bad, "_apply_pack bad-ref literal")
    if _one(inner_types, "CAS try handler type") != ("all_exceptions",):
        raise T.TranslateError("_apply_pack: CAS calls are not guarded by `except all_exceptions`")
    d["bad_ref_catches"] = list(_one(bad_types, "_apply_pack outer handler type"))
    # is the boolean returned by the ref container used?
    cas_calls = _calls_attr(ap, "set_if_equals") + _calls_attr(ap, "remove_if_equals")
    bare = [c for c in cas_calls if any(isinstance(s, ast.Expr) and s.value is c for s in ast.walk(ap))]
    if len(cas_calls) < 2:
        raise T.TranslateError("_apply_pack: set_if_equals/remove_if_equals calls not found")
    if bare and len(bare) != len(cas_calls):
        raise T.TranslateError("_apply_pack: the CAS result is used at some call sites and dropped at others "
                               "(the model has one switch)")
    d["cas_result_used"] = not bare
    # is membership of the new object in the object store checked?
    d["new_object_checked"] = any(
        isinstance(n, ast.Compare) and isinstance(n.ops[0], (ast.In, ast.NotIn)) and "object_store" in ast.unparse(n.comparators[0])
        for n in ast.walk(ap))
    # atomic branch: does the validation loop look at the current ref value?
    atomic_if = None
    for n in ast.walk(ap):
        if isinstance(n, ast.If) and isinstance(n.test, ast.Name) and n.test.id == "atomic":
            atomic_if = n
    if atomic_if is None:
        raise T.TranslateError("_apply_pack: `if atomic:` not found")
    loops = [s for s in atomic_if.body if isinstance(s, ast.For)]
    if len(loops) < 2:
        raise T.TranslateError("_apply_pack: atomic branch does not have a validation loop and an apply loop")
    val_src = ast.unparse(loops[0])
    d["atomic_validates_old"] = any(k in val_src for k in ("refs.read_ref", "refs.follow", "refs.get(", "refs[", "_ref_matches", "_current_ref"))
    if _calls_attr(loops[0], "set_if_equals") or _calls_attr(loops[0], "remove_if_equals"):
        raise T.TranslateError("_apply_pack: atomic validation loop mutates refs")
    # repaired-only literals
    d["stale"] = d["missing"] = None
    if d["cas_result_used"] or d["atomic_validates_old"] or d["new_object_checked"]:
        lits = {n.value for n in ast.walk(ap) if isinstance(n, ast.Constant) and isinstance(n.value, bytes)}
        known = {d[k] for k in ("unpack_name", "ok", "atomic_failed", "failed_delete", "failed_write", "bad_ref", "zero_char")}
        extra = sorted(lits - known)
        stale = [x for x in extra if b"stale" in x or b"lock" in x or b"expected" in x]
        missing = [x for x in extra if b"missing" in x]
        if (d["cas_result_used"] or d["atomic_validates_old"]) and len(stale) != 1:
            raise T.TranslateError(f"_apply_pack: cannot identify the stale-old status literal among {extra}")
        if d["new_object_checked"] and len(missing) != 1:
            raise T.TranslateError(f"_apply_pack: cannot identify the missing-object status literal among {extra}")
        d["stale"] = stale[0] if stale else None
        d["missing"] = missing[0] if missing else None
    # delete-refs check: against the server's own list (as coded) or the client's capabilities
    src = ast.unparse(ap)
    if "CAPABILITY_DELETE_REFS not in self.capabilities()" in src:
        d["delete_check_client"] = False
    elif "self.has_capability(CAPABILITY_DELETE_REFS)" in src:
        d["delete_check_client"] = True
    else:
        raise T.TranslateError("_apply_pack: delete-refs capability check not found")
    if "self.has_capability(CAPABILITY_ATOMIC)" not in src:
        raise T.TranslateError("_apply_pack: atomic is not taken from the client capability")
    d["atomic_cap"] = caps_consts["CAPABILITY_ATOMIC"]
    d["delete_cap"] = caps_consts["CAPABILITY_DELETE_REFS"]
    d["report_cap"] = caps_consts["CAPABILITY_REPORT_STATUS"]
    d["sideband_cap"] = caps_consts["CAPABILITY_SIDE_BAND_64K"]
    d["agent_cap"] = caps_consts["CAPABILITY_AGENT"]
    # _report_status: three line formats and the two tests
    rs = T.find_def(srv, "ReceivePackHandler._report_status")
    loop = [n for n in ast.walk(rs) if isinstance(n, ast.For)]
    if len(loop) != 1 or not isinstance(loop[0].body[0], ast.If):
        raise T.TranslateError("_report_status: status loop not found")
    i1 = loop[0].body[0]
    if not (isinstance(i1.test, ast.Compare) and ast.unparse(i1.test.left) == "name" and isinstance(i1.test.ops[0], ast.Eq)):
        raise T.TranslateError("_report_status: `name == b'unpack'` test not found")
    d["rs_unpack_name"] = _bytes_const(i1.test.comparators[0])
    i2 = i1.orelse[0] if i1.orelse and isinstance(i1.orelse[0], ast.If) else None
    if i2 is None or not (isinstance(i2.test, ast.Compare) and ast.unparse(i2.test.left) == "msg" and isinstance(i2.test.ops[0], ast.Eq)):
        raise T.TranslateError("_report_status: `msg == b'ok'` test not found")
    d["rs_ok_msg"] = _bytes_const(i2.test.comparators[0])

    def wr(body):
        if len(body) != 1 or not isinstance(body[0], ast.Expr) or not isinstance(body[0].value, ast.Call) \
                or ast.unparse(body[0].value.func) != "write":
            raise T.TranslateError("_report_status: expected a single write(...)")
        return _flatten_add(body[0].value.args[0])
    d["fmt_unpack"], d["fmt_ok"], d["fmt_ng"] = wr(i1.body), wr(i2.body), wr(i2.orelse)
    if "CAPABILITY_SIDE_BAND_64K" not in ast.unparse(rs):
        raise T.TranslateError("_report_status: side-band branch not found")
    # handle(): pre-receive literal, report-status gating
    hd = T.find_def(srv, "ReceivePackHandler.handle")
    pre = {n.value for n in ast.walk(hd) if isinstance(n, ast.Constant) and isinstance(n.value, bytes) and b"pre-receive" in n.value}
    d["pre_receive_declined"] = _one(pre, "handle pre-receive literal")
    hsrc = ast.unparse(hd)
    if hsrc.count("self.has_capability(CAPABILITY_REPORT_STATUS)") != 2 or "list(self._apply_pack(client_refs))" not in hsrc:
        raise T.TranslateError("handle: report-status gating / _apply_pack call not as modelled")
    d["server_caps"] = _cap_list(T.find_def(srv, "ReceivePackHandler.capabilities"), caps_consts)
    d["innocuous_caps"] = _cap_list(T.find_def(srv, "PackHandler.innocuous_capabilities"), caps_consts)
    # client parser
    chk = T.find_def(cli, "ReportStatusParser.check")
    okset = None
    for n in ast.walk(chk):
        if isinstance(n, ast.Compare) and isinstance(n.ops[0], ast.NotIn) and "_pack_status" in ast.unparse(n.left):
            okset = T.eval_literal(n.comparators[0])
    if not okset or None not in okset:
        raise T.TranslateError("ReportStatusParser.check: pack status test not found")
    d["parser_unpack_ok"] = _one([x for x in okset if x is not None], "parser unpack-ok literal")
    cmps = {}
    for n in ast.walk(chk):
        if isinstance(n, ast.Compare) and ast.unparse(n.left) == "status" and isinstance(n.ops[0], ast.Eq):
            cmps[_bytes_const(n.comparators[0])] = True
    if len(cmps) != 2:
        raise T.TranslateError(f"ReportStatusParser.check: expected two status keywords, got {list(cmps)}")
    ks = list(cmps)  # source order: ng, ok
    d["parser_ng"], d["parser_ok"] = ks[0], ks[1]
    seps = {_bytes_const(c.args[0]) for c in _calls_attr(chk, "split")}
    d["parser_sep"] = _one(seps, "parser split separator")
    if len(d["parser_sep"]) != 1:
        raise T.TranslateError("parser split separator is not one byte")
    if any(T.eval_literal(c.args[1]) != 1 for c in _calls_attr(chk, "split")):
        raise T.TranslateError("parser split maxsplit != 1")
    hp = T.find_def(cli, "ReportStatusParser.handle_packet")
    if ast.unparse(hp).count("pkt.strip()") != 2:
        raise T.TranslateError("ReportStatusParser.handle_packet: pkt.strip() x2 not found")
    # LocalGitClient.send_pack messages (used to canonicalise the real messages)
    lsp = T.find_def(cli, "LocalGitClient.send_pack")
    strs = []
    for n in ast.walk(lsp):
        if isinstance(n, ast.JoinedStr):
            first = n.values[0]
            if isinstance(first, ast.Constant) and isinstance(first.value, str):
                strs.append(first.value.strip())
        elif isinstance(n, ast.Constant) and isinstance(n.value, str) and n.value.startswith(("unable", "atomic")):
            strs.append(n.value.strip())
    d["local_set_prefix"] = _one([s for s in strs if s.startswith("unable to set")], "local 'unable to set' prefix")
    d["local_remove"] = _one([s for s in strs if s.startswith("unable to remove")], "local 'unable to remove'")
    d["local_atomic"] = _one([s for s in strs if s.startswith("atomic")], "local atomic failure message")
    lsrc = ast.unparse(lsp)
    d["local_uses_cas_result"] = "if not target.refs.set_if_equals(" in lsrc and "if not target.refs.remove_if_equals(" in lsrc
    d["local_precheck_get_peeled"] = lsrc.count("target.refs.get_peeled(refname)") == 2
    d["fingerprints"] = {"_apply_pack": T.fingerprint(ap), "_report_status": T.fingerprint(rs), "handle": T.fingerprint(hd),
                         "ReportStatusParser.check": T.fingerprint(chk), "LocalGitClient.send_pack": T.fingerprint(lsp)}
    return d


def translate(repo: Path) -> dict:
    d = extract(repo)
    lb = T.lean_bytes

    def names(xs):
        return "[" + ", ".join(lb(x.encode() if isinstance(x, str) else x) for x in xs) + "]"

    def b(v):
        return "true" if v else "false"
    stale = d["stale"] if d["stale"] is not None else b"stale info"
    missing = d["missing"] if d["missing"] is not None else b"missing necessary objects"
    src = T.lean_header("dulwich/server.py: ReceivePackHandler._apply_pack/_report_status/handle/capabilities; "
                        "dulwich/client.py: ReportStatusParser, LocalGitClient.send_pack; object_format.SHA1") + f"""
import DulwichModel.Model.Basic
namespace Dulwich.Gen.ReceivePack
open Dulwich

/-- operand of a `_report_status` line format -/
inductive Part where
  | lit (b : Bytes)
  | name
  | msg
  deriving DecidableEq, Repr

/-- `all_exceptions` in `_apply_pack` (source spelling): {", ".join(d["all_exceptions"])} -/
def allExceptions : List Bytes := {names(d["all_exceptions"])}
/-- exception classes of the outer `except` around the per-ref update: {", ".join(d["bad_ref_catches"])} -/
def badRefCatches : List Bytes := {names(d["bad_ref_catches"])}
/-- `b"0"` in `zero_sha = b"0" * hex_length` -/
def zeroChar : UInt8 := {d["zero_char"][0]}
/-- `object_format.SHA1.hex_length` -/
def hexLength : Nat := {d["hex_length"]}
/-- `(b"unpack", b"ok")` -/
def unpackName : Bytes := {lb(d["unpack_name"])}
def okMsg : Bytes := {lb(d["ok"])}
/-- {d["atomic_failed"]!r} -/
def atomicFailedMsg : Bytes := {lb(d["atomic_failed"])}
/-- {d["failed_delete"]!r} -/
def failedDeleteMsg : Bytes := {lb(d["failed_delete"])}
/-- {d["failed_write"]!r} -/
def failedWriteMsg : Bytes := {lb(d["failed_write"])}
/-- {d["bad_ref"]!r} -/
def badRefMsg : Bytes := {lb(d["bad_ref"])}
/-- {d["pre_receive_declined"]!r} (handle) -/
def preReceiveDeclinedMsg : Bytes := {lb(d["pre_receive_declined"])}
/-- status for a failed compare-and-swap ({'from the source' if d['stale'] is not None else 'NOT in the source: the CAS result is dropped; wording of the proposed fix'}): {stale!r} -/
def staleMsg : Bytes := {lb(stale)}
/-- status for a new value the object store does not have ({'from the source' if d['missing'] is not None else 'NOT in the source; wording of the proposed fix'}): {missing!r} -/
def missingMsg : Bytes := {lb(missing)}
/-- does `_apply_pack` use the boolean returned by set_if_equals/remove_if_equals? -/
def casResultUsed : Bool := {b(d["cas_result_used"])}
/-- does `_apply_pack` test `new in object_store`? -/
def newObjectChecked : Bool := {b(d["new_object_checked"])}
/-- does the atomic validation loop compare old values with the current refs? -/
def atomicValidatesOld : Bool := {b(d["atomic_validates_old"])}
/-- is the delete-refs test made against the client's capabilities (false: the server's own list, as coded)? -/
def deleteCheckClient : Bool := {b(d["delete_check_client"])}
def atomicCap : Bytes := {lb(d["atomic_cap"])}
def deleteRefsCap : Bytes := {lb(d["delete_cap"])}
def reportStatusCap : Bytes := {lb(d["report_cap"])}
def sideBand64kCap : Bytes := {lb(d["sideband_cap"])}
def agentCap : Bytes := {lb(d["agent_cap"])}
/-- `ReceivePackHandler.capabilities()` (valued entries omitted): {b" ".join(d["server_caps"]).decode()} -/
def serverCaps : List Bytes := {names(d["server_caps"])}
/-- `PackHandler.innocuous_capabilities()` (agent omitted): {b" ".join(d["innocuous_caps"]).decode()} -/
def innocuousCaps : List Bytes := {names(d["innocuous_caps"])}
/-- `_report_status`: `if name == b"unpack"` / `elif msg == b"ok"` and the three line formats -/
def rsUnpackName : Bytes := {lb(d["rs_unpack_name"])}
def rsOkMsg : Bytes := {lb(d["rs_ok_msg"])}
def fmtUnpack : List Part := {_lean_parts(d["fmt_unpack"])}
def fmtOk : List Part := {_lean_parts(d["fmt_ok"])}
def fmtNg : List Part := {_lean_parts(d["fmt_ng"])}
/-- `ReportStatusParser.check`: {d["parser_unpack_ok"]!r}, {d["parser_ng"]!r}, {d["parser_ok"]!r}, split({d["parser_sep"]!r}, 1) -/
def parserUnpackOk : Bytes := {lb(d["parser_unpack_ok"])}
def parserNg : Bytes := {lb(d["parser_ng"])}
def parserOk : Bytes := {lb(d["parser_ok"])}
def parserSep : UInt8 := {d["parser_sep"][0]}
/-- `LocalGitClient.send_pack` uses `if not target.refs.set_if_equals(...)` / `remove_if_equals(...)` -/
def localUsesCasResult : Bool := {b(d["local_uses_cas_result"])}
/-- the local atomic pre-check reads `target.refs.get_peeled(refname)` (None for loose refs) -/
def localPrecheckGetPeeled : Bool := {b(d["local_precheck_get_peeled"])}
end Dulwich.Gen.ReceivePack
"""
    return {"ReceivePack": src}
