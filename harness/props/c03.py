"""C03 — delta codec: apply(create(base,target),base)=target; bad deltas fail cleanly.

Model: lean/DulwichModel/Model/Delta.lean; theorems: Props/C03.lean.
Tie: translate() regenerates Gen/Delta.lean (loop bounds and limits of the codec), run() drives the
correspondence streams (model vs pure-Python vs freshly built Rust) and the direct oracle.
"""
from __future__ import annotations

import ast
import itertools
import re
from pathlib import Path

from .. import core, translate as T
from ..core import hx, unhx

MOD = "c03"


# ------------------------------------------------------------------------------------------------
# translator

def translate(repo: Path) -> dict:
    tree = T.module_ast(repo / "dulwich" / "pack.py")
    max_copy = T.const_value(tree, "_MAX_COPY_LEN")
    enc = T.find_def(tree, "_encode_copy_operation")
    rb = T.range_bounds(enc)
    if len(rb) != 2:
        raise T.TranslateError(f"_encode_copy_operation: expected two range() loops, got {rb}")
    cre = T.find_def(tree, "_create_delta_py")
    ins = None
    for n in ast.walk(cre):
        if isinstance(n, ast.While) and isinstance(n.test, ast.Compare) and isinstance(n.test.left, ast.Name) \
                and n.test.left.id == "s" and isinstance(n.test.ops[0], ast.Gt):
            consts = set(T.int_constants(n))
            if len(consts) != 1:
                raise T.TranslateError(f"_create_delta_py insert loop uses several constants {consts}")
            ins = consts.pop()
    if ins is None:
        raise T.TranslateError("_create_delta_py: insert-splitting loop not found")
    app = T.find_def(tree, "apply_delta")
    ab = T.range_bounds(app)
    if len(ab) != 2:
        raise T.TranslateError(f"apply_delta: expected two range() loops, got {ab}")
    zero = None
    for n in ast.walk(app):
        if isinstance(n, ast.If) and isinstance(n.test, ast.Compare) and isinstance(n.test.left, ast.Name) \
                and n.test.left.id == "cp_size" and isinstance(n.test.ops[0], ast.Eq) \
                and T.eval_literal(n.test.comparators[0]) == 0:
            zero = T.eval_literal(n.body[0].value)
    if zero is None:
        raise T.TranslateError("apply_delta: `if cp_size == 0` not found")
    rs = repo / "crates" / "pack" / "src" / "lib.rs"
    rs_max = T.rust_const(rs, "MAX_COPY_LEN")
    rs_src = rs.read_text()
    m = re.search(r"\nfn apply_delta\(.*?\n}\n", rs_src, re.S)
    if not m:
        raise T.TranslateError("Rust apply_delta not found")
    rs_ranges = [int(x) for x in re.findall(r"for i in 0\.\.(\d+)", m.group(0))]
    rs_zero = re.search(r"if cp_size == 0 \{\s*cp_size = (0x[0-9a-fA-F]+|\d+);", m.group(0))
    if len(rs_ranges) != 2 or not rs_zero:
        raise T.TranslateError(f"Rust apply_delta: loop bounds {rs_ranges} / zero-size rule not found")
    import struct
    src = T.lean_header("dulwich/pack.py: _MAX_COPY_LEN, _encode_copy_operation, _create_delta_py, apply_delta; "
                        "crates/pack/src/lib.rs: MAX_COPY_LEN") + f"""
namespace Dulwich.Gen
/-- `_MAX_COPY_LEN` -/
def maxCopyLen : Nat := {max_copy}
/-- Rust `MAX_COPY_LEN` -/
def rsMaxCopyLen : Nat := {rs_max}
/-- `for i in range(N)` over offset bytes in `_encode_copy_operation` -/
def copyOffsetBytes : Nat := {rb[0]}
/-- `for i in range(N)` over length bytes in `_encode_copy_operation` -/
def copyLengthBytes : Nat := {rb[1]}
/-- literal-insert chunk limit in `_create_delta_py` (`while s > N`) -/
def maxInsertLen : Nat := {ins}
/-- `for i in range(N)` over offset bytes in `apply_delta` -/
def applyOffsetBytes : Nat := {ab[0]}
/-- `for i in range(N)` over size bytes in `apply_delta` -/
def applySizeBytes : Nat := {ab[1]}
/-- `if cp_size == 0: cp_size = N` -/
def copyZeroSize : Nat := {zero}
/-- Rust `for i in 0..N` over offset bytes / size bytes, and the zero-size rule -/
def rsApplyOffsetBytes : Nat := {rs_ranges[0]}
def rsApplySizeBytes : Nat := {rs_ranges[1]}
def rsCopyZeroSize : Nat := {int(rs_zero.group(1), 0)}
/-- width of Rust `usize` on this platform -/
def rsUsizeBits : Nat := {struct.calcsize("P") * 8}
end Dulwich.Gen
"""
    return {"Delta": src}


# ------------------------------------------------------------------------------------------------
# worker-side implementation adapters (run inside harness/worker.py children)

def _canon_apply(fn, base: bytes, delta: bytes):
    from dulwich.errors import ApplyDeltaError
    try:
        out = fn(base, delta)
    except ApplyDeltaError:
        return "err delta"
    if isinstance(out, list):
        out = b"".join(out)
    return "ok " + hx(bytes(out))


def impl_apply(a):
    import dulwich.pack as P
    return _canon_apply(P.apply_delta, unhx(a["base"]), unhx(a["delta"]))


def impl_apply_many(a):
    import dulwich.pack as P
    base = unhx(a["base"])
    return [_canon_apply(P.apply_delta, base, unhx(d)) for d in a["deltas"]]


def impl_create(a):
    import dulwich.pack as P
    out = P.create_delta(unhx(a["base"]), unhx(a["target"]))
    if not isinstance(out, (bytes, bytearray)):
        out = b"".join(out)
    return hx(bytes(out))


def impl_opcodes(a):
    """The opcode list difflib returns for (base, target), as model ops, plus the raw tuples."""
    from difflib import SequenceMatcher
    base, target = unhx(a["base"]), unhx(a["target"])
    ops = []
    for tag, i1, i2, j1, j2 in SequenceMatcher(isjunk=None, a=base, b=target).get_opcodes():
        if tag == "equal":
            ops.append(f"c:{i1}:{i2 - i1}")
        elif tag in ("replace", "insert"):
            ops.append("i:" + hx(target[j1:j2]))
    return ops


_BIG = {}


def impl_copyop_big(a):
    """Op-level round trip on a big base generated in the child (seed, size): for each (off, len) build the delta
    header + the real encoder's copy ops (split at _MAX_COPY_LEN like _create_delta_py) and apply it with the real
    decoder; returns the list of (off, len) for which the result is not base[off:off+len]."""
    import random
    import dulwich.pack as P
    from dulwich.errors import ApplyDeltaError
    key = (a["seed"], a["size"])
    if key not in _BIG:
        _BIG.clear()
        _BIG[key] = random.Random(a["seed"]).randbytes(a["size"])
    base = _BIG[key]
    bad = []
    for off, ln in a["copies"]:
        d = bytearray(P._delta_encode_size(len(base)) + P._delta_encode_size(ln))
        o, l = off, ln
        while l > 0:
            if a.get("git_style") and l >= 0x10000:
                # the form C git emits for a 64 KiB copy: no size bytes (size 0 means 0x10000)
                n = 0x10000
                cmd, args = 0x80, bytearray()
                for i in range(4):
                    if (o >> (8 * i)) & 0xFF:
                        cmd |= 1 << i
                        args.append((o >> (8 * i)) & 0xFF)
                d += bytes([cmd]) + args
            else:
                n = min(l, P._MAX_COPY_LEN)
                d += P._encode_copy_operation(o, n)
            o += n
            l -= n
        try:
            out = b"".join(P.apply_delta(base, bytes(d)))
        except ApplyDeltaError:
            out = None
        if out != base[off:off + ln]:
            bad.append([off, ln])
    return bad


def impl_which(a):
    import dulwich.pack as P
    return {"apply": getattr(P.apply_delta, "__module__", "?"), "create": getattr(P.create_delta, "__module__", "?") or "?",
            "file": P.__file__}


# ------------------------------------------------------------------------------------------------
# generators

ALPHABET = [0x00, 0x01, 0x7f, 0x80, 0x81, 0x90, 0x91, 0xb0, 0xff]


def gen_pair(rng, big=False):
    kind = rng.choice(["empty-base", "empty-target", "identical", "edit", "edit", "edit", "random", "runs", "shuffle"] +
                      (["big"] * 3 if big else []))

    def rb(n, alpha=None):
        if alpha:
            return bytes(rng.choice(alpha) for _ in range(n))
        return rng.randbytes(n)
    n = rng.choice([0, 1, 2, 5, 16, 100, 127, 128, 129, 255, 256, 300, 1000])
    if kind == "empty-base":
        return kind, b"", rb(n)
    if kind == "empty-target":
        return kind, rb(n), b""
    if kind == "identical":
        b = rb(n)
        return kind, b, b
    if kind == "edit":
        b = bytearray(rb(max(n, 1), rng.choice([None, b"ab", b"abc\n"])))
        t = bytearray(b)
        for _ in range(rng.randint(1, 4)):
            pos = rng.randrange(len(t) + 1)
            c = rng.choice(["ins", "del", "rep"])
            if c == "ins":
                t[pos:pos] = rb(rng.choice([1, 2, 130, 260]))
            elif c == "del":
                del t[pos:pos + rng.randint(1, 10)]
            else:
                t[pos:pos + 1] = rb(1)
        return kind, bytes(b), bytes(t)
    if kind == "random":
        return kind, rb(n), rb(rng.choice([0, 1, 50, 127, 128, 254, 255, 400]))
    if kind == "runs":
        blocks = [rb(rng.choice([1, 3, 40])) for _ in range(4)]
        b = b"".join(rng.choice(blocks) for _ in range(rng.randint(1, 12)))
        t = b"".join(rng.choice(blocks) for _ in range(rng.randint(1, 12)))
        return kind, b, t
    if kind == "shuffle":
        blocks = [rb(rng.choice([10, 200, 300])) for _ in range(5)]
        b = b"".join(blocks)
        rng.shuffle(blocks)
        return kind, b, b"".join(blocks)
    # big: copies that must be split at _MAX_COPY_LEN, offsets needing 3 bytes
    size = rng.choice([0xFFFF, 0x10000, 0x10001, 70000, 0x20000, 0x1FFFE])
    b = rb(size, b"xy") if rng.random() < 0.3 else rb(size)
    t = bytearray(b)
    c = rng.choice(["same", "prefix", "suffix", "mid-edit", "tail-copy"])
    if c == "prefix":
        t = t[: rng.choice([0xFFFF, 0x10000, 65537])]
    elif c == "suffix":
        t = t[rng.choice([1, 255, 256, 65535, 65536]):]
    elif c == "mid-edit":
        p = rng.randrange(len(t))
        t[p:p + 1] = rb(rng.choice([1, 128, 300]))
    elif c == "tail-copy":
        t = rb(10) + t[-rng.choice([100, 0x10000]):]
    return "big-" + c, bytes(b), bytes(t)


def enc_size(n: int) -> bytes:
    out = bytearray()
    while True:
        c = n & 0x7F
        n >>= 7
        if n:
            out.append(c | 0x80)
        else:
            out.append(c)
            return bytes(out)


def enc_size_padded(n: int, width: int) -> bytes:
    """size varint of exactly `width` bytes (over-long encodings with zero continuation groups)."""
    out = bytearray()
    for i in range(width):
        c = (n >> (7 * i)) & 0x7F
        out.append(c | (0x80 if i < width - 1 else 0))
    return bytes(out)


def gen_structured_delta(rng, base: bytes):
    """Mostly-valid delta for `base` with one structured oddity."""
    ops = bytearray()
    out_len = 0
    for _ in range(rng.randint(0, 4)):
        if len(base) >= 0x10000 and rng.random() < 0.3:
            # valid copy of exactly 0x10000 bytes with no size byte (the form C git emits)
            off = rng.randrange(len(base) - 0x10000 + 1)
            cmd, args = 0x80, bytearray()
            for i in range(4):
                if (off >> (8 * i)) & 0xFF:
                    cmd |= 1 << i
                    args.append((off >> (8 * i)) & 0xFF)
            ops.append(cmd)
            ops += args
            out_len += 0x10000
        elif rng.random() < 0.5 and base:
            off = rng.randrange(len(base))
            ln = rng.randint(1, len(base) - off)
            cmd = 0x80
            args = bytearray()
            for i in range(4):
                byte = (off >> (8 * i)) & 0xFF
                if byte or rng.random() < 0.1:
                    cmd |= 1 << i
                    args.append(byte)
            for i in range(3):
                byte = (ln >> (8 * i)) & 0xFF
                if byte or rng.random() < 0.1:
                    cmd |= 1 << (4 + i)
                    args.append(byte)
            ops.append(cmd)
            ops += args
            out_len += ln
        else:
            n = rng.randint(1, 127)
            ops.append(n)
            ops += rng.randbytes(n)
            out_len += n
    kind = rng.choice(["valid", "wide-src", "wide-dst", "huge-dst", "wrap-dst", "bad-src", "dst+1", "dst-1", "trunc",
                       "op0", "copy-oob", "copy-last-oob", "ins-last-trunc", "copy-zero-size", "ins-gt-dst", "mask"])
    src_hdr, dst_hdr = enc_size(len(base)), enc_size(out_len)
    body = bytes(ops)
    if kind == "wide-src":
        src_hdr = enc_size_padded(len(base), rng.randint(2, 11))
    elif kind == "wide-dst":
        dst_hdr = enc_size_padded(out_len, rng.randint(2, 11))
    elif kind == "huge-dst":
        dst_hdr = enc_size(rng.choice([2 ** 31, 2 ** 32, 2 ** 40, 2 ** 45, 2 ** 62, 2 ** 63, 2 ** 63 + 1]))
    elif kind == "wrap-dst":
        dst_hdr = enc_size(out_len + rng.choice([2 ** 64, 2 ** 65, 2 ** 70]))
    elif kind == "bad-src":
        src_hdr = enc_size(len(base) + rng.choice([1, 2 ** 64]))
    elif kind == "dst+1":
        dst_hdr = enc_size(out_len + 1)
    elif kind == "dst-1" and out_len:
        dst_hdr = enc_size(out_len - 1)
    elif kind == "trunc" and body:
        body = body[: rng.randrange(len(body))]
    elif kind == "op0":
        p = rng.randint(0, len(body))
        body = body[:p] + b"\x00" + body[p:]
    elif kind == "copy-oob":
        body += bytes([0x91, len(base) & 0xFF or 1, 5])
    elif kind == "copy-last-oob":
        body += bytes([0x90 | 1, 0xFF, rng.choice([1, 0xFF])])
    elif kind == "ins-last-trunc":
        body += bytes([rng.randint(1, 127)])
    elif kind == "copy-zero-size":
        body += bytes([0x80]) if rng.random() < 0.5 else bytes([0x81, 0])
    elif kind == "ins-gt-dst":
        n = rng.randint(1, 127)
        body += bytes([n]) + rng.randbytes(rng.choice([0, n]))
    elif kind == "mask":
        cmd = rng.randrange(0x80, 0x100)
        need = bin(cmd & 0x7F).count("1")
        body += bytes([cmd]) + rng.randbytes(rng.choice([need, need, max(need - 1, 0)]))
    return kind, src_hdr + dst_hdr + body


# ------------------------------------------------------------------------------------------------
# oracle helpers

def declared_sizes(delta: bytes):
    def rd(i):
        size, sh = 0, 0
        while True:
            if i >= len(delta):
                return None, i
            c = delta[i]
            i += 1
            size |= (c & 0x7F) << sh
            sh += 7
            if not c & 0x80:
                return size, i
    s, i = rd(0)
    if s is None:
        return None
    d, i = rd(i)
    if d is None:
        return None
    return s, d


def classify_decode(ctx, stream, variant, base: bytes, delta: bytes, rep):
    """Direct oracle for the decoder half of the statement, on one reply from a worker
    ({"r": "ok <hex>"|"err delta"} | {"exc":..} | {"crash":..}): a decoder either returns output of the
    declared length or fails with the delta error; it never kills the process, panics, or exhausts the
    child's 1 GiB address-space limit (allocation out of proportion to a few-hundred-KiB input)."""
    case = {"variant": variant, "base": hx(base), "delta": hx(delta)}
    if "crash" in rep:
        ctx.oracle_fail(stream, case, f"decoder killed the process / exceeded its limits: {rep['crash']}",
                        f"{variant}-crash")
        return "crash"
    if "exc" in rep:
        ctx.oracle_fail(stream, case, f"decoder raised {rep['exc']} instead of the delta error: {rep.get('msg')}",
                        f"{variant}-exc-{rep['exc']}")
        return "exc:" + rep["exc"]
    r = rep["r"]
    if r.startswith("ok "):
        out = unhx(r[3:])
        ds = declared_sizes(delta)
        if ds is None or len(out) != ds[1]:
            ctx.oracle_fail(stream, case, f"output length {len(out)} != declared {ds}", f"{variant}-wrong-length")
        elif not _from_base_or_literal(out, base, delta):
            ctx.oracle_fail(stream, case, "output contains bytes that occur neither in the base nor in the delta",
                            f"{variant}-foreign-bytes")
    return r


# ------------------------------------------------------------------------------------------------

def run(ctx: core.Ctx):
    rng = ctx.rng
    ov = core.rust_overlay()
    workers = {"py": core.Worker("py", mem_mb=1024)}
    if ov is not None:
        workers["rs"] = core.Worker("rs", overlay=ov, mem_mb=1024)
    else:
        ctx.notes.append("cargo build failed: Rust variant not exercised (see .cache/cargo.log)")
        ctx.disagree("rust.build", {}, "builds", "cargo build failed", "rs")
    ctx.assumptions += [
        "difflib.SequenceMatcher / Rust `similar` opcode lists are parameters of the theorem; the contract "
        "(blocks tile the target) is checked on every list the real library returned in this run",
        "Rust usize = 64 bit; debug profile (overflow checks on), as the installed artefact",
        "process-level resource oracle: decoders run in children with RLIMIT_AS 1 GiB; abort, panic, MemoryError "
        "or any non-delta exception on inputs of at most a few hundred KiB is a violation",
    ]
    try:
        w = {k: v.ask({"mod": MOD, "op": "which"}) for k, v in workers.items()}
        ctx.extra_cov["variants"] = {k: v.get("r") for k, v in w.items()}
        if "rs" in w and "_pack" not in str(w["rs"].get("r", {}).get("apply")):
            ctx.notes.append(f"rs worker did not load the Rust apply_delta: {w['rs']}")
        _stream_varint(ctx)
        _stream_copyop_big(ctx, workers)
        _stream_pairs(ctx, workers)
        _stream_exhaustive(ctx, workers)
        _stream_structured(ctx, workers)
        _stream_git(ctx, workers)
        _run_corpus(ctx, workers)
    finally:
        for v in workers.values():
            v.close()


def _stream_varint(ctx):
    """size varint + copy-op encoder: model vs real (in-process, pure functions)."""
    import dulwich.pack as P
    rng = ctx.rng
    ns = [0, 1, 127, 128, 129, 16383, 16384, 2 ** 21 - 1, 2 ** 21, 2 ** 28, 2 ** 32 - 1, 2 ** 32, 2 ** 63, 2 ** 64, 2 ** 70]
    ns += [rng.getrandbits(rng.choice([7, 8, 14, 15, 21, 31, 32, 33, 63, 64, 65])) for _ in range(ctx.budget(300))]
    lines = [f"c03.encsize {n}" for n in ns]
    outs = ctx.driver.batch(lines)
    for n, o in zip(ns, outs):
        real = hx(P._delta_encode_size(n))
        ctx.count("varint.enc", n, True, f"{len(real) // 2}B")
        if o != real:
            ctx.disagree("varint.enc", {"n": n}, o, real)
    copies = [(0, 1), (0, 0xFFFF), (1, 0x100), (0x100, 0xFF), (0xFFFFFFFF, 0xFFFF), (0x01000000, 0x0100), (0x00FF00FF, 0xFF00)]
    for _ in range(ctx.budget(400)):
        off = rng.getrandbits(rng.choice([1, 8, 9, 16, 17, 24, 25, 32])) & rng.choice([0xFFFFFFFF, 0xFF00FF00, 0x00FF00FF, 0xFFFF0000])
        ln = max(1, rng.getrandbits(rng.choice([1, 8, 9, 16])) & rng.choice([0xFFFF, 0xFF00, 0x00FF]))
        copies.append((off, ln))
    outs = ctx.driver.batch([f"c03.enccopy {o} {l}" for o, l in copies])
    for (off, ln), o in zip(copies, outs):
        real = hx(P._encode_copy_operation(off, ln))
        ctx.count("copy.enc", (off, ln), True, f"mask{real[:2]}")
        if o != real:
            ctx.disagree("copy.enc", {"off": off, "len": ln}, o, real)


def _copyop_cases(rng, size, n):
    cases = []
    edges = [0, 1, 255, 256, 257, 0xFFFF, 0x10000, 0x10001, 0xFFFFFF, 0x1000000, 0x1000001, size - 1]
    for _ in range(n):
        off = min(max(rng.choice(edges) + rng.choice([-1, 0, 0, 1, 7]), 0), size - 1)
        if rng.random() < 0.3:
            off = rng.randrange(size)
        ln = rng.choice([1, 2, 255, 256, 257, 0xFF00, 0xFFFF, 0x10000, 0x10001, 0x1FFFE, 0x20000, rng.randint(1, 70000)])
        ln = max(1, min(ln, size - off))
        cases.append([off, ln])
    return cases


def _stream_copyop_big(ctx, workers, stream="copyop.big", scale=1):
    """Direct oracle at opcode level on bases big enough to need 3- and 4-byte offsets (2^16.., 2^24..):
    apply(header ++ encode_copy*(off, len)) == base[off:off+len] on the real encoder x real decoders."""
    rng = ctx.rng
    for size in (0x10000 + 300, 0x1000000 + 70000):
        cases = _copyop_cases(rng, size, ctx.budget(60) * scale)
        for v, wk in workers.items():
            for git_style in (False, True):
                rep = wk.ask({"mod": MOD, "op": "copyop_big", "args": {"seed": 7, "size": size, "copies": cases,
                                                                     "git_style": git_style}}, timeout=600)
                if "r" not in rep:
                    ctx.oracle_fail(stream, {"variant": v, "size": size}, f"copy-op round trip crashed: {rep}", f"{v}-crash")
                    continue
                for c in cases:
                    ctx.count(stream, (v, size, tuple(c), git_style), True,
                              f"{v}:off{c[0].bit_length() // 8}B:len{c[1].bit_length() // 8}B" + (":git-style" if git_style else ""))
                for off, ln in rep["r"][:5]:
                    ctx.oracle_fail(stream, {"variant": v, "base": f"random.Random(7).randbytes({size})", "off": off, "len": ln,
                                             "git_style_size0_copies": git_style},
                                    f"apply(copy ops for ({off},{ln})" + (", 64 KiB copies encoded git-style with no size byte" if git_style else "") +
                                    f") != base[{off}:{off + ln}] with the {v} decoder")


def _stream_pairs(ctx, workers):
    """(base,target) pairs through {py,rs} create x {py,rs,model} apply; difflib opcode contract;
    model createDelta on difflib's opcodes vs _create_delta_py bytes."""
    rng = ctx.rng
    n = ctx.budget(250)
    nbig = ctx.budget(6, mult=4)
    cases = [gen_pair(rng) for _ in range(n)] + [gen_pair(rng, big=True) for _ in range(nbig)]
    cases += [("fixed", b"", b""), ("fixed", b"a", b"a"), ("fixed", b"x" * 0x10000, b"x" * 0x10000)]
    lines, meta = [], []
    for kind, base, target in cases:
        key = (base, target)
        deltas = {}
        for v, wk in workers.items():
            rep = wk.ask({"mod": MOD, "op": "create", "args": {"base": hx(base), "target": hx(target)}}, timeout=300)
            if "r" not in rep:
                ctx.oracle_fail("pairs.create", {"variant": v, "base": hx(base), "target": hx(target)},
                                f"create_delta failed: {rep}")
                continue
            deltas[v] = unhx(rep["r"])
        # opcode contract + model emitter vs python emitter
        rep = workers["py"].ask({"mod": MOD, "op": "opcodes", "args": {"base": hx(base), "target": hx(target)}}, timeout=300)
        ops = rep.get("r")
        if ops is not None:
            lines.append("c03.create " + hx(base) + "".join(" " + o for o in ops))
            meta.append(("create", kind, base, target, deltas.get("py")))
        for enc, delta in deltas.items():
            lines.append(f"c03.apply {hx(base)} {hx(delta)}")
            meta.append(("apply", kind, base, target, (enc, delta)))
            for dec, wk in workers.items():
                rep = wk.ask({"mod": MOD, "op": "apply", "args": {"base": hx(base), "delta": hx(delta)}}, timeout=300)
                r = classify_decode(ctx, "pairs.apply", dec, base, delta, rep)
                ctx.count("pairs.apply", (enc, dec, key), True, f"{kind}:{enc}->{dec}")
                if r != "ok " + hx(target):
                    ctx.oracle_fail("pairs.apply", {"enc": enc, "dec": dec, "base": hx(base), "target": hx(target),
                                                    "delta": hx(delta)},
                                    f"apply(create(base,target),base) != target with encoder {enc}, decoder {dec}: {r[:80]}")
        if len(ctx.samples) < 2:
            ctx.sample({"stream": "pairs", "kind": kind, "base": hx(base)[:64], "target": hx(target)[:64],
                        "deltas": {k: hx(v)[:64] for k, v in deltas.items()}})
    outs = ctx.driver.batch(lines)
    for (what, kind, base, target, x), o in zip(meta, outs):
        if what == "create":
            parts = o.split(" ")
            if len(parts) != 2:
                ctx.disagree("pairs.create.model", {"base": hx(base), "target": hx(target)}, o, "delta target")
                continue
            mdelta, mtarget = parts
            ctx.count("pairs.opcodes", (base, target), True, kind)
            if mtarget != hx(target):
                # difflib's opcodes do not tile the target: the theorem's hypothesis fails
                ctx.disagree("pairs.opcode-contract", {"base": hx(base), "target": hx(target)}, mtarget, hx(target))
            if x is not None and mdelta != hx(x):
                ctx.disagree("pairs.create.model", {"base": hx(base), "target": hx(target)}, mdelta, hx(x), "py")
        else:
            enc, delta = x
            ctx.count("pairs.apply.model", (enc, base, target), True, kind)
            if o != "ok " + hx(target):
                ctx.disagree("pairs.apply.model", {"enc": enc, "base": hx(base), "delta": hx(delta)}, o, "ok " + hx(target))


def _compare_decoders(ctx, stream, workers, base: bytes, deltas: list[bytes], tags=None):
    """model(py) vs real py; model(rs) vs real rs; oracle on every reply; py-vs-rs agreement (C15)."""
    lines = [f"c03.apply {hx(base)} {hx(d)}" for d in deltas] + [f"c03.applyrs {hx(base)} {hx(d)}" for d in deltas]
    outs = ctx.driver.batch(lines)
    mpy, mrs = outs[: len(deltas)], outs[len(deltas):]
    for i, d in enumerate(deltas):
        tag = tags[i] if tags else None
        res = {}
        for v, model in (("py", mpy[i]), ("rs", mrs[i])):
            if v not in workers:
                continue
            rep = workers[v].ask({"mod": MOD, "op": "apply", "args": {"base": hx(base), "delta": hx(d)}})
            r = classify_decode(ctx, stream, v, base, d, rep)
            res[v] = r
            ctx.count(stream, (v, base, d), True, (tag + ":" if tag else "") + v + ":" + r[:3])
            if r != model:
                ctx.disagree(stream, {"base": hx(base), "delta": hx(d)}, model[:200], r[:200], v)
        if len(res) == 2 and res["py"] != res["rs"]:
            ctx.oracle_fail(stream, {"base": hx(base), "delta": hx(d), "py": res["py"][:100], "rs": res["rs"][:100]},
                            "pure-Python and Rust decoders disagree", "py-rs-decode-divergence")


def _stream_exhaustive(ctx, workers):
    """All byte strings of length <= L over the opcode-covering alphabet, as deltas against three bases."""
    L = 5 if ctx.thorough else 4
    bases = [b"", b"\x01", bytes(range(0x90))]
    for base in bases:
        deltas = []
        for ln in range(0, L + 1):
            for tup in itertools.product(ALPHABET, repeat=ln):
                deltas.append(bytes(tup))
        # the py decoder is cheap: batch through apply_many for speed
        _compare_decoders_batched(ctx, "exhaustive", workers, base, deltas)
    ctx.extra_cov["exhaustive_delta_len"] = L


def _compare_decoders_batched(ctx, stream, workers, base, deltas):
    """Like _compare_decoders, but each worker gets a whole batch per request; falls back to one-by-one
    when a batch kills the child."""
    lines = [f"c03.apply {hx(base)} {hx(d)}" for d in deltas] + [f"c03.applyrs {hx(base)} {hx(d)}" for d in deltas]
    outs = ctx.driver.batch(lines)
    models = {"py": outs[: len(deltas)], "rs": outs[len(deltas):]}
    CH = 2000
    for s in range(0, len(deltas), CH):
        chunk = deltas[s:s + CH]
        got = {}
        for v in ("py", "rs"):
            if v not in workers:
                continue
            rep = workers[v].ask({"mod": MOD, "op": "apply_many",
                                  "args": {"base": hx(base), "deltas": [hx(d) for d in chunk]}}, timeout=300)
            if "r" not in rep:
                got = None
                break
            got[v] = rep["r"]
        if got is None:
            _compare_decoders(ctx, stream, workers, base, chunk)
            continue
        for j, d in enumerate(chunk):
            for v, rs_ in got.items():
                r = rs_[j]
                classify_decode(ctx, stream, v, base, d, {"r": r})
                ctx.count(stream, (v, base, d), True, v + ":" + r[:3])
                if r != models[v][s + j]:
                    ctx.disagree(stream, {"base": hx(base), "delta": hx(d)}, models[v][s + j][:200], r[:200], v)
            if len(got) == 2 and got["py"][j] != got["rs"][j]:
                ctx.oracle_fail(stream, {"base": hx(base), "delta": hx(d), "py": got["py"][j][:100], "rs": got["rs"][j][:100]},
                                "pure-Python and Rust decoders disagree", "py-rs-decode-divergence")


def _stream_structured(ctx, workers):
    rng = ctx.rng
    n = ctx.budget(600)
    by_base: dict[bytes, list] = {}
    bases = [b"", b"a", bytes(range(256)), rng.randbytes(300), b"q" * 0x10001]
    for _ in range(n):
        base = rng.choice(bases)
        kind, d = gen_structured_delta(rng, base)
        by_base.setdefault(base, []).append((kind, d))
    for base, lst in by_base.items():
        _compare_decoders(ctx, "structured", workers, base, [d for _, d in lst], tags=[k for k, _ in lst])
    k, d = by_base[bases[2]][0] if bases[2] in by_base else ("-", b"")
    ctx.sample({"stream": "structured", "kind": k, "base": "00..ff", "delta": hx(d)})


# ------------------------------------------------------------------------------------------------
# C git as third encoder / decoder

def _obj_hdr(type_num: int, size: int) -> bytes:
    c = (type_num << 4) | (size & 0x0F)
    size >>= 4
    out = bytearray()
    while size:
        out.append(c | 0x80)
        c = size & 0x7F
        size >>= 7
    out.append(c)
    return bytes(out)


def _git(args, cwd, inp=None):
    import subprocess
    p = subprocess.run(["git"] + args, cwd=cwd, input=inp, stdout=subprocess.PIPE, stderr=subprocess.PIPE,
                       env=core.clean_env(), timeout=120)
    return p.returncode, p.stdout, p.stderr


def _parse_pack(data: bytes):
    """Minimal pack reader (independent of dulwich): yields (type, size, base_ref|ofs, payload)."""
    import struct
    import zlib
    assert data[:4] == b"PACK"
    n = struct.unpack(">L", data[8:12])[0]
    pos = 12
    for _ in range(n):
        start = pos
        c = data[pos]
        pos += 1
        typ, size, sh = (c >> 4) & 7, c & 0x0F, 4
        while c & 0x80:
            c = data[pos]
            pos += 1
            size |= (c & 0x7F) << sh
            sh += 7
        base = None
        if typ == 7:
            base = data[pos:pos + 20]
            pos += 20
        elif typ == 6:
            c = data[pos]
            pos += 1
            ofs = c & 0x7F
            while c & 0x80:
                c = data[pos]
                pos += 1
                ofs = ((ofs + 1) << 7) | (c & 0x7F)
            base = start - ofs
        d = zlib.decompressobj()
        payload = d.decompress(data[pos:])
        pos = len(data) - len(d.unused_data)
        yield start, typ, size, base, payload


def _stream_git(ctx, workers):
    """dulwich-created deltas decoded by C git (index-pack of a hand-framed 2-object pack) and git-created
    deltas (git pack-objects) decoded by both dulwich decoders."""
    import hashlib
    import shutil
    import zlib
    if shutil.which("git") is None:
        ctx.notes.append("git not found: C git streams skipped")
        return
    rng = ctx.rng
    n = ctx.budget(12, mult=10)
    root = ctx.scratch / "git"
    root.mkdir(exist_ok=True)

    def blob_id(b):
        return hashlib.sha1(b"blob %d\0" % len(b) + b).hexdigest()
    for i in range(n):
        kind, base, target = gen_pair(rng, big=(i % 6 == 5))
        if i == 0:
            kind, base, target = "witness-F21", b"x" * 40, b""   # known finding F21: re-run every time
        if base == target:
            target = target + b"!"
        repo = root / f"r{i}"
        rc, _, err = _git(["init", "-q", "--bare", str(repo)], cwd=root)
        if rc != 0:
            raise core.InfraError(f"git init failed: {err[:200]}")
        # (a) dulwich encoder -> git decoder
        for enc, wk in workers.items():
            rep = wk.ask({"mod": MOD, "op": "create", "args": {"base": hx(base), "target": hx(target)}}, timeout=300)
            if "r" not in rep:
                continue
            delta = unhx(rep["r"])
            body = (_obj_hdr(3, len(base)) + zlib.compress(base) +
                    _obj_hdr(7, len(delta)) + bytes.fromhex(blob_id(base)) + zlib.compress(delta))
            pack = b"PACK" + (2).to_bytes(4, "big") + (2).to_bytes(4, "big") + body
            pack += hashlib.sha1(pack).digest()
            rc, out, err = _git(["index-pack", "--strict", "--stdin"], cwd=repo, inp=pack)
            got = None
            if rc == 0:
                rc2, got, _ = _git(["cat-file", "blob", blob_id(target)], cwd=repo)
                if rc2 != 0:
                    got = None
            ctx.count("git.decode", (enc, base, target), True, f"{kind}:{enc}->git")
            if got != target:
                # git's patch_delta() refuses any delta shorter than DELTA_SIZE_MIN = 4 bytes
                cls = "git-rejects-delta-shorter-than-4-bytes" if len(delta) < 4 else None
                ctx.oracle_fail("git.decode", {"enc": enc, "dec": "git", "base": hx(base), "target": hx(target), "delta": hx(delta)},
                                f"C git does not decode the {enc} delta to the target: rc={rc} {err[:120]!r}", cls)
        # (b) git encoder -> dulwich decoders
        ids = []
        for b in (base, target):
            rc, out, err = _git(["hash-object", "-w", "--stdin", "-t", "blob"], cwd=repo, inp=b)
            ids.append(out.strip().decode())
        rc, pk, err = _git(["pack-objects", "--stdout", "--window=10", "--depth=50", "-q"], cwd=repo,
                           inp=("\n".join(ids) + "\n").encode())
        if rc != 0 or pk[:4] != b"PACK":
            continue
        ents = list(_parse_pack(pk))
        by_start = {e[0]: e for e in ents}
        full = {hashlib.sha1(b"blob %d\0" % len(e[4]) + e[4]).digest(): e[4] for e in ents if e[1] == 3}
        for start, typ, size, bref, payload in ents:
            if typ not in (6, 7):
                continue
            gb = by_start[bref][4] if typ == 6 else full.get(bref)
            if gb is None:
                continue
            expect = target if gb == base else base
            for dec, wk in workers.items():
                rep = wk.ask({"mod": MOD, "op": "apply", "args": {"base": hx(gb), "delta": hx(payload)}}, timeout=300)
                r = classify_decode(ctx, "git.encode", dec, gb, payload, rep)
                ctx.count("git.encode", (dec, base, target), True, f"{kind}:git->{dec}")
                if r != "ok " + hx(expect):
                    ctx.oracle_fail("git.encode", {"enc": "git", "dec": dec, "base": hx(gb), "target": hx(expect), "delta": hx(payload)},
                                    f"{dec} decoder does not decode C git's delta to the target: {r[:80]}")
            # the model decoder on git's delta as well (correspondence)
            o = ctx.driver.batch([f"c03.apply {hx(gb)} {hx(payload)}"])[0]
            if o != "ok " + hx(expect):
                ctx.disagree("git.encode.model", {"base": hx(gb), "delta": hx(payload)}, o[:100], "ok " + hx(expect)[:100])
        shutil.rmtree(repo, ignore_errors=True)


def _run_corpus(ctx, workers):
    d = core.VERIF / "corpus" / "C03"
    if not d.exists():
        return
    import json
    for f in sorted(d.glob("*.json")):
        c = json.loads(f.read_text())
        _compare_decoders(ctx, "corpus", workers, unhx(c["base"]), [unhx(c["delta"])], tags=[f.stem])


def search(ctx: core.Ctx):
    """Failing-input search after a broken obligation/correspondence: re-run the direct oracle with a boosted
    budget around the disagreeing cases."""
    ov = core.rust_overlay()
    workers = {"py": core.Worker("py", mem_mb=1024)}
    if ov is not None:
        workers["rs"] = core.Worker("rs", overlay=ov, mem_mb=1024)
    rng = ctx.rng
    try:
        _stream_copyop_big(ctx, workers, stream="search.copyop.big", scale=5)
        if ctx.oracle_failures:
            return
        # 1. neighbourhood of disagreeing (base, target) pairs and a large fresh sample
        pairs = []
        for dgr in ctx.disagreements:
            c = dgr["case"]
            if "target" in c and "base" in c:
                pairs.append((unhx(c["base"]), unhx(c["target"])))
            if "off" in c:
                off, ln = c["off"], c["len"]
                base = bytes(range(256)) * ((off + ln) // 256 + 1) if off + ln < (1 << 22) else b""
                if base:
                    pairs.append((base, base[off:off + ln]))
                    pairs.append((base, b"z" + base[off:off + ln] + b"z"))
        for _ in range(ctx.budget(400)):
            k, b, t = gen_pair(rng, big=rng.random() < 0.05)
            pairs.append((b, t))
        for base, target in pairs:
            for enc, wk in workers.items():
                rep = wk.ask({"mod": MOD, "op": "create", "args": {"base": hx(base), "target": hx(target)}}, timeout=300)
                if "r" not in rep:
                    ctx.oracle_fail("search.create", {"variant": enc, "base": hx(base), "target": hx(target)}, f"create failed: {rep}")
                    continue
                delta = unhx(rep["r"])
                for dec, wk2 in workers.items():
                    rep2 = wk2.ask({"mod": MOD, "op": "apply", "args": {"base": hx(base), "delta": hx(delta)}}, timeout=300)
                    r = classify_decode(ctx, "search.apply", dec, base, delta, rep2)
                    if r != "ok " + hx(target):
                        ctx.oracle_fail("search.apply", {"enc": enc, "dec": dec, "base": hx(base), "target": hx(target), "delta": hx(delta)},
                                        f"apply(create(base,target),base) != target ({enc}->{dec}): {r[:80]}")
            if ctx.oracle_failures:
                return
        # 2. decoder half on disagreeing deltas: output must be sized + made of base slices/literals
        for dgr in ctx.disagreements:
            c = dgr["case"]
            if "delta" in c:
                base, d = unhx(c["base"]), unhx(c["delta"])
                for dec, wk in workers.items():
                    rep = wk.ask({"mod": MOD, "op": "apply", "args": {"base": hx(base), "delta": hx(d)}})
                    r = classify_decode(ctx, "search.decode", dec, base, d, rep)
                    if r.startswith("ok "):
                        out = unhx(r[3:])
                        if not _from_base_or_literal(out, base, d):
                            ctx.oracle_fail("search.decode", {"variant": dec, "base": hx(base), "delta": hx(d)},
                                            "output is not made of base slices and delta literals")
    finally:
        for v in workers.values():
            v.close()


def _from_base_or_literal(out: bytes, base: bytes, delta: bytes) -> bool:
    """Cheap necessary condition: every output byte occurs in base or in the delta."""
    pool = set(base) | set(delta)
    return all(b in pool for b in out)


def replay(ctx: core.Ctx, data: dict) -> int:
    c = data.get("case", {})
    ov = core.rust_overlay()
    workers = {"py": core.Worker("py", mem_mb=1024)}
    if ov is not None:
        workers["rs"] = core.Worker("rs", overlay=ov, mem_mb=1024)
    try:
        base = unhx(c.get("base", "-"))
        if "delta" in c and "target" not in c:
            v = c.get("variant", "py")
            rep = workers[v].ask({"mod": MOD, "op": "apply", "args": {"base": hx(base), "delta": c["delta"]}})
            print("replay decode", v, rep)
            r = classify_decode(ctx, "replay", v, base, unhx(c["delta"]), rep)
        else:
            target = unhx(c.get("target", "-"))
            enc, dec = c.get("enc", "py"), c.get("dec", "py")
            rep = workers[enc].ask({"mod": MOD, "op": "create", "args": {"base": hx(base), "target": hx(target)}})
            print("replay create", enc, str(rep)[:200])
            if "r" in rep:
                rep2 = workers[dec].ask({"mod": MOD, "op": "apply", "args": {"base": hx(base), "delta": rep["r"]}})
                print("replay apply", dec, str(rep2)[:200])
                if rep2.get("r") != "ok " + hx(target):
                    ctx.oracle_fail("replay", c, "round trip fails")
            else:
                ctx.oracle_fail("replay", c, "create fails")
        if ctx.oracle_failures:
            print(f"VIOLATION property=C03 replay={data.get('_path', '<replayed>')}")
            return 1
        print("replay: property holds on this case")
        return 0
    finally:
        for v in workers.values():
            v.close()
