"""C01 — object names are content hashes; serialisation is lossless and git-identical.

Model: lean/DulwichModel/Model/Objects*.lean; theorems: Props/C01.lean.
Tie: translate() regenerates Gen/Objects.lean (header names and order, type table, format widths,
timezone arithmetic constants, setter table: which setter invalidates what), run() drives the
correspondence streams (model vs real code, pure-Python and rebuilt-Rust variants for the tree
functions) and the direct oracle (round trips on the real code, ids vs hashlib, C git as third party).

The Lean driver does not implement SHA: it returns the *bytes* (header ++ body) the id is the hash of
and the harness hashes them with hashlib (trusted base says so).
"""
from __future__ import annotations

import ast
import hashlib
import json
import re
import stat as _stat
import subprocess
from pathlib import Path

from .. import core, translate as T
from ..core import hx, unhx

MOD = "c01"


# ================================================================================================
# translator

def _b(x: bytes) -> str:
    return "[" + ", ".join(str(c) for c in x) + "]"


def _s(x: str) -> str:
    return json.dumps(x)


def _header_slots(func: ast.FunctionDef, who: str):
    """Sequence of `headers.append((<_X_HEADER>, ...))` / `headers.extend(... self._extra ...)` calls in
    source order, each with the kind of guard it sits under."""
    out = []

    def guard_of(stack):
        g = "always"
        for st in stack:
            if isinstance(st, ast.For):
                g = "loop"
            elif isinstance(st, ast.If):
                t = st.test
                if isinstance(t, ast.Attribute) and isinstance(t.value, ast.Name) and t.value.id == "self":
                    g = "truthy" if g == "always" else g
                else:
                    g = "cond" if g == "always" else g
        return g

    def visit(stmts, stack):
        for st in stmts:
            if isinstance(st, ast.Expr) and isinstance(st.value, ast.Call):
                c = st.value
                f = c.func
                if isinstance(f, ast.Attribute) and isinstance(f.value, ast.Name) and f.value.id == "headers":
                    if f.attr == "append":
                        a = c.args[0]
                        if not (isinstance(a, ast.Tuple) and isinstance(a.elts[0], ast.Name)):
                            raise T.TranslateError(f"{who}: unexpected headers.append argument")
                        out.append((st.lineno, a.elts[0].id, guard_of(stack)))
                    elif f.attr == "extend":
                        names = {n.attr for n in ast.walk(c) if isinstance(n, ast.Attribute)}
                        if "_extra" not in names:
                            raise T.TranslateError(f"{who}: headers.extend over something else than self._extra")
                        out.append((st.lineno, "extra", "loop"))
                    else:
                        raise T.TranslateError(f"{who}: headers.{f.attr}")
            for fld in ("body", "orelse"):
                sub = getattr(st, fld, None)
                if isinstance(sub, list) and sub and isinstance(st, (ast.If, ast.For, ast.With, ast.Try)):
                    visit(sub, stack + [st])

    visit(func.body, [])
    return [(n, g) for _, n, g in sorted(out)]


def _marks_dirty(func: ast.FunctionDef, obj_name: str) -> int:
    """0: only assigns; 1: sets <obj>._needs_serialization = True; 2: goes through set_raw_string/chunks."""
    kind = 0
    for n in ast.walk(func):
        if isinstance(n, ast.Assign):
            for t in n.targets:
                if isinstance(t, ast.Attribute) and t.attr == "_needs_serialization" and \
                        isinstance(t.value, ast.Name) and t.value.id == obj_name and \
                        isinstance(n.value, ast.Constant) and n.value.value is True:
                    kind = max(kind, 1)
        if isinstance(n, ast.Call) and isinstance(n.func, ast.Attribute) and \
                n.func.attr in ("set_raw_string", "set_raw_chunks") and \
                isinstance(n.func.value, ast.Name) and n.func.value.id == obj_name:
            kind = 2
    return kind


def _setters(tree: ast.Module):
    sp = T.find_def(tree, "serializable_property")
    sp_set = None
    for n in sp.body:
        if isinstance(n, ast.FunctionDef) and n.name == "set":
            sp_set = n
    if sp_set is None:
        raise T.TranslateError("serializable_property.set not found")
    sp_kind = _marks_dirty(sp_set, sp_set.args.args[0].arg)
    out = []
    for cname in ("Blob", "Tree", "Commit", "Tag"):
        cls = T.find_def(tree, cname)
        for st in cls.body:
            if isinstance(st, ast.Assign) and isinstance(st.value, ast.Call) and \
                    isinstance(st.value.func, ast.Name) and st.value.func.id == "serializable_property":
                out.append((cname, st.targets[0].id, sp_kind))
            elif isinstance(st, ast.FunctionDef):
                is_setter = any(isinstance(d, ast.Attribute) and d.attr == "setter" for d in st.decorator_list)
                if is_setter or (cname == "Tree" and st.name in ("__setitem__", "__delitem__", "add")):
                    out.append((cname, st.name, _marks_dirty(st, st.args.args[0].arg)))
    return out


def _binops(func: ast.AST):
    """(op, left-name, int) for every `<name> <op> <int literal>` in func, source order."""
    out = []
    for n in ast.walk(func):
        if isinstance(n, ast.BinOp) and isinstance(n.right, ast.Constant) and isinstance(n.right.value, int) \
                and not isinstance(n.right.value, bool):
            left = n.left
            while isinstance(left, ast.BinOp):
                left = left.left
            nm = left.id if isinstance(left, ast.Name) else "?"
            out.append((n.lineno, n.col_offset, type(n.op).__name__, nm, n.right.value))
    return [(o, nm, v) for _, _, o, nm, v in sorted(out)]


def translate(repo: Path) -> dict:
    tree = T.module_ast(repo / "dulwich" / "objects.py")
    hdr = {k: T.const_value(tree, k) for k in (
        "_TREE_HEADER", "_PARENT_HEADER", "_AUTHOR_HEADER", "_COMMITTER_HEADER", "_ENCODING_HEADER",
        "_MERGETAG_HEADER", "_GPGSIG_HEADER", "_OBJECT_HEADER", "_TYPE_HEADER", "_TAG_HEADER", "_TAGGER_HEADER")}
    for k, v in hdr.items():
        if not isinstance(v, bytes):
            raise T.TranslateError(f"{k} is not a bytes literal")
    # type table
    types = []
    for cname in ("Commit", "Tree", "Blob", "Tag"):
        cls = T.find_def(tree, cname)
        tn = tnum = None
        for st in cls.body:
            if isinstance(st, ast.Assign) and isinstance(st.targets[0], ast.Name):
                if st.targets[0].id == "type_name":
                    tn = T.eval_literal(st.value)
                elif st.targets[0].id == "type_num":
                    tnum = T.eval_literal(st.value)
        if not isinstance(tn, bytes) or not isinstance(tnum, int):
            raise T.TranslateError(f"{cname}: type_name/type_num not found")
        types.append((tnum, tn, cname))
    # header order
    slot_of = {"_TREE_HEADER": "tree", "_PARENT_HEADER": "parent", "_AUTHOR_HEADER": "author",
               "_COMMITTER_HEADER": "committer", "_ENCODING_HEADER": "encoding", "_MERGETAG_HEADER": "mergetag",
               "_GPGSIG_HEADER": "gpgsig", "extra": "extra", "_OBJECT_HEADER": "object", "_TYPE_HEADER": "type",
               "_TAG_HEADER": "tag", "_TAGGER_HEADER": "tagger"}
    corder = _header_slots(T.find_def(tree, "Commit._serialize"), "Commit._serialize")
    expect_guard = {"tree": "always", "parent": "loop", "author": "always", "committer": "always",
                    "encoding": "truthy", "mergetag": "loop", "extra": "loop", "gpgsig": "truthy"}
    cslots = []
    for n, g in corder:
        s = slot_of.get(n)
        if s is None or s not in expect_guard:
            raise T.TranslateError(f"Commit._serialize: unknown header {n}")
        if expect_guard[s] != g:
            raise T.TranslateError(f"Commit._serialize: header {s} is emitted under guard {g!r}, model assumes {expect_guard[s]!r}")
        cslots.append(s)
    if sorted(cslots) != sorted(expect_guard):
        raise T.TranslateError(f"Commit._serialize: header slots {cslots} (each of {sorted(expect_guard)} expected once)")
    torder = _header_slots(T.find_def(tree, "Tag._serialize"), "Tag._serialize")
    tslots = []
    for n, g in torder:
        s = slot_of.get(n)
        if s not in ("object", "type", "tag", "tagger"):
            raise T.TranslateError(f"Tag._serialize: unknown header {n}")
        if s not in tslots:
            tslots.append(s)   # tagger is appended on two branches (with / without time)
    if sorted(tslots) != ["object", "tag", "tagger", "type"]:
        raise T.TranslateError(f"Tag._serialize: header slots {tslots}")
    # message folding
    fm = T.find_def(tree, "_format_message")
    cont = None
    for n in ast.walk(fm):
        if isinstance(n, ast.For) and isinstance(n.iter, ast.Subscript):
            for y in ast.walk(n):
                if isinstance(y, ast.Yield):
                    left = y.value
                    while isinstance(left, ast.BinOp):
                        left = left.left
                    if isinstance(left, ast.Constant) and isinstance(left.value, bytes):
                        cont = left.value
    if cont is None:
        raise T.TranslateError("_format_message: continuation-line prefix not found")
    pm = T.find_def(tree, "_parse_message")
    pcont = None
    for n in ast.walk(pm):
        if isinstance(n, ast.Call) and isinstance(n.func, ast.Attribute) and n.func.attr == "startswith" and \
                isinstance(n.func.value, ast.Name) and n.func.value.id == "line":
            pcont = T.eval_literal(n.args[0])
    if pcont is None:
        raise T.TranslateError("_parse_message: line.startswith(..) not found")
    if len(cont) != 1 or len(pcont) != 1:
        raise T.TranslateError("continuation prefix is not a single byte")
    # object_header / git_line separators
    oh = T.find_def(tree, "object_header")
    oh_consts = [n.value for n in ast.walk(oh) if isinstance(n, ast.Constant) and isinstance(n.value, bytes)]
    if sorted(oh_consts) != [b"\x00", b" "]:
        raise T.TranslateError(f"object_header: separators {oh_consts}")
    ret = [n for n in ast.walk(oh) if isinstance(n, ast.Return) and isinstance(n.value, ast.BinOp)]
    if not ret:
        raise T.TranslateError("object_header: return expression not found")
    seq = []

    def flat(e):
        if isinstance(e, ast.BinOp) and isinstance(e.op, ast.Add):
            flat(e.left)
            flat(e.right)
        elif isinstance(e, ast.Constant):
            seq.append(e.value)
        elif isinstance(e, ast.Attribute):
            seq.append("@" + e.attr)
        else:
            seq.append("@len" if "length" in ast.dump(e) else "@?")
    flat(ret[0].value)
    if seq != ["@type_name", b" ", "@len", b"\x00"]:
        raise T.TranslateError(f"object_header: shape {seq}")
    # tree entry format
    st_ = T.find_def(tree, "serialize_tree")
    spec = None
    for n in ast.walk(st_):
        if isinstance(n, ast.FormattedValue) and n.format_spec is not None:
            spec = "".join(v.value for v in n.format_spec.values if isinstance(v, ast.Constant))
    m = re.fullmatch(r"0(\d+)o", spec or "")
    if not m:
        raise T.TranslateError(f"serialize_tree: mode format spec {spec!r}")
    mode_width = int(m.group(1))
    st_consts = [n.value for n in ast.walk(st_) if isinstance(n, ast.Constant) and isinstance(n.value, bytes)]
    if sorted(st_consts) != [b"\x00", b" "]:
        raise T.TranslateError(f"serialize_tree: separators {st_consts}")
    ke = T.find_def(tree, "key_entry")
    suffix = None
    isdir = False
    for n in ast.walk(ke):
        if isinstance(n, ast.AugAssign) and isinstance(n.op, ast.Add) and isinstance(n.value, ast.Constant):
            suffix = n.value.value
        if isinstance(n, ast.Attribute) and n.attr == "S_ISDIR":
            isdir = True
    if not isinstance(suffix, bytes) or len(suffix) != 1 or not isdir:
        raise T.TranslateError("key_entry: `if stat.S_ISDIR(mode): name += b'/'` not found")
    if _stat.S_IFMT(0o7777777) != 0o170000:
        raise T.TranslateError("stat.S_IFMT is not 0o170000")
    rs = (repo / "crates" / "objects" / "src" / "lib.rs").read_text()

    def rsc(name):
        mm = re.search(rf"const\s+{name}\s*:\s*u32\s*=\s*(0o[0-7_]+|0x[0-9a-fA-F_]+|[0-9_]+)\s*;", rs)
        if not mm:
            raise T.TranslateError(f"rust const {name} not found")
        return int(mm.group(1).replace("_", ""), 0)
    rs_ifdir, rs_ifmt = rsc("S_IFDIR"), rsc("S_IFMT")
    if rs_ifmt != 0o170000:
        raise T.TranslateError("rust S_IFMT is not 0o170000 (the model writes the mask as (m / 4096) % 16)")
    mm = re.search(r"if \(a\.0 & S_IFMT\) == S_IFDIR \{\s*b'(.)'\s*\} else \{\s*(\d+)\s*\}", rs)
    if not mm:
        raise T.TranslateError("rust cmp_with_suffix: terminator expression not found")
    rs_suffix, rs_term = ord(mm.group(1)), int(mm.group(2))
    # hex lengths
    hl = set()
    for fn in ("hex_to_sha", "sha_to_hex"):
        f = T.find_def(tree, fn)
        for n in ast.walk(f):
            if isinstance(n, ast.Compare) and isinstance(n.ops[0], ast.NotIn):
                hl.add(tuple(T.eval_literal(n.comparators[0])))
    if len(hl) != 1:
        raise T.TranslateError(f"hex_to_sha/sha_to_hex: length sets {hl}")
    hexlens = list(hl.pop())
    # timezone arithmetic
    ft = T.find_def(tree, "format_timezone")
    fmt = [n.value for n in ast.walk(ft) if isinstance(n, ast.Constant) and isinstance(n.value, str)
           and "%" in n.value]
    if fmt != ["%c%02d%02d"]:
        raise T.TranslateError(f"format_timezone: format string {fmt}")
    fb = _binops(ft)
    if [(o, v) for o, _, v in fb] != [("Mod", 60), ("Div", 3600), ("Mod", 60), ("Div", 60)]:
        raise T.TranslateError(f"format_timezone: arithmetic {fb}")
    pt = T.find_def(tree, "parse_timezone")
    pb = _binops(pt)
    if [(o, nm) for o, nm, _ in pb] != [("Div", "offset"), ("Mod", "offset"), ("Mult", "hours"), ("Mult", "minutes")]:
        raise T.TranslateError(f"parse_timezone: arithmetic {pb}")
    signs = [n.value for n in ast.walk(pt) if isinstance(n, ast.Constant) and isinstance(n.value, bytes)]
    if sorted(set(signs)) != [b"+-", b"-"]:
        raise T.TranslateError(f"parse_timezone: sign literals {signs}")
    pte = T.find_def(tree, "parse_time_entry")
    seps = [n.value for n in ast.walk(pte) if isinstance(n, ast.Constant) and isinstance(n.value, bytes)]
    if sorted(seps) != [b" ", b"> "]:
        raise T.TranslateError(f"parse_time_entry: separators {seps}")
    setters = _setters(tree)
    max_time = T.const_value(tree, "MAX_TIME")
    pgp, ssh = T.const_value(tree, "BEGIN_PGP_SIGNATURE"), T.const_value(tree, "BEGIN_SSH_SIGNATURE")

    L = [T.lean_header("dulwich/objects.py: header names and order, type table, object_header, _format_message/"
                       "_parse_message, serialize_tree, key_entry, hex_to_sha, format_timezone/parse_timezone, "
                       "setter table; crates/objects/src/lib.rs: S_IFDIR, S_IFMT, cmp_with_suffix terminators"),
         "namespace Dulwich.OGen", ""]
    L.append("/-- `(type_num, type_name)` of the four ShaFile subclasses, in `OBJECT_CLASSES` source order -/")
    L.append("def typeTable : List (Nat × List UInt8) := [" + ", ".join(f"({n}, {_b(t)})" for n, t, _ in types) + "]")
    for k, v in hdr.items():
        nm = "hdr" + k.strip("_").replace("_HEADER", "").capitalize()
        L.append(f"/-- `{k}` = {v!r} -/")
        L.append(f"def {nm} : List UInt8 := {_b(v)}")
    L.append("/-- order of the `headers.append/extend` calls in `Commit._serialize` -/")
    L.append("def commitOrder : List String := [" + ", ".join(_s(s) for s in cslots) + "]")
    L.append("/-- order of the `headers.append` calls in `Tag._serialize` -/")
    L.append("def tagOrder : List String := [" + ", ".join(_s(s) for s in tslots) + "]")
    L.append("/-- continuation-line prefix written by `_format_message` / recognised by `_parse_message` -/")
    L.append(f"def contFmt : UInt8 := {cont[0]}")
    L.append(f"def contParse : UInt8 := {pcont[0]}")
    L.append("/-- `f\"{mode:0Wo}\"` in `serialize_tree` -/")
    L.append(f"def treeModeWidth : Nat := {mode_width}")
    L.append("/-- `name += b\"/\"` in `key_entry` -/")
    L.append(f"def dirSuffix : UInt8 := {suffix[0]}")
    L.append(f"def sIFDIR : Nat := {_stat.S_IFDIR}")
    L.append(f"def rsSIFDIR : Nat := {rs_ifdir}")
    L.append(f"/-- Rust `cmp_with_suffix`: virtual terminator of a directory name / of any other name -/")
    L.append(f"def rsDirTerm : UInt8 := {rs_suffix}")
    L.append(f"def rsFileTerm : UInt8 := {rs_term}")
    L.append("/-- accepted lengths in `hex_to_sha` / `sha_to_hex` -/")
    L.append(f"def hexLens : List Nat := {hexlens}")
    L.append("/-- `format_timezone`: `offset % A != 0`, `offset / B`, `(offset / C) % D` -/")
    L.append(f"def tzCheckMod : Nat := {fb[0][2]}")
    L.append(f"def tzHourDiv : Nat := {fb[1][2]}")
    L.append(f"def tzMinDiv : Nat := {fb[3][2]}")
    L.append(f"def tzMinMod : Nat := {fb[2][2]}")
    L.append("/-- `parse_timezone`: `int(offset / A)`, `offset % B`, `hours * C + minutes * D` -/")
    L.append(f"def tzpDiv : Nat := {pb[0][2]}")
    L.append(f"def tzpMod : Nat := {pb[1][2]}")
    L.append(f"def tzpHourMul : Nat := {pb[2][2]}")
    L.append(f"def tzpMinMul : Nat := {pb[3][2]}")
    L.append(f"def pgpMarker : List UInt8 := {_b(pgp)}")
    L.append(f"def sshMarker : List UInt8 := {_b(ssh)}")
    L.append(f"def maxTime : Nat := {max_time}")
    L.append("/-- every public setter of the four classes: (class, name, kind); kind 0 = assigns the attribute only,\n"
             "    1 = also sets `_needs_serialization = True`, 2 = goes through `set_raw_string` -/")
    L.append("def setters : List (String × String × Nat) := [" +
             ", ".join(f"({_s(c)}, {_s(n)}, {k})" for c, n, k in setters) + "]")
    L += ["", "end Dulwich.OGen", ""]
    return {"Objects": "\n".join(L)}
