"""C01 — object names are content hashes; serialisation is lossless and git-identical.

Model: lean/DulwichModel/Model/Objects*.lean; theorems: Props/C01.lean.
Tie: translate() regenerates Gen/Objects.lean (header names and order, type table, format widths,
timezone arithmetic constants, setter table: which setter invalidates what), run() drives the
correspondence streams (model vs real code, pure-Python and rebuilt-Rust variants for the tree
functions) and the direct oracle (round trips on the real code, ids vs hashlib, C git as third party).

The Lean driver does not implement SHA: it returns the *bytes* (header ++ body) the id is the hash of
and the harness hashes them with hashlib (trusted base says so).
"""
from __future__ import annotations

import ast
import hashlib
import json
import re
import stat as _stat
import subprocess
from pathlib import Path

from .. import core, translate as T
from ..core import hx, unhx

MOD = "c01"


# ================================================================================================
# translator

def _b(x: bytes) -> str:
    return "[" + ", ".join(str(c) for c in x) + "]"


def _s(x: str) -> str:
    return json.dumps(x)


def _header_slots(func: ast.FunctionDef, who: str):
    """Sequence of `headers.append((<_X_HEADER>, ...))` / `headers.extend(... self._extra ...)` calls in
    source order, each with the kind of guard it sits under."""
    out = []

    def guard_of(stack):
        g = "always"
        for st in stack:
            if isinstance(st, ast.For):
                g = "loop"
            elif isinstance(st, ast.If):
                t = st.test
                if isinstance(t, ast.Attribute) and isinstance(t.value, ast.Name) and t.value.id == "self":
                    g = "truthy" if g == "always" else g
                else:
                    g = "cond" if g == "always" else g
        return g

    def visit(stmts, stack):
        for st in stmts:
            if isinstance(st, ast.Expr) and isinstance(st.value, ast.Call):
                c = st.value
                f = c.func
                if isinstance(f, ast.Attribute) and isinstance(f.value, ast.Name) and f.value.id == "headers":
                    if f.attr == "append":
                        a = c.args[0]
                        if not (isinstance(a, ast.Tuple) and isinstance(a.elts[0], ast.Name)):
                            raise T.TranslateError(f"{who}: unexpected headers.append argument")
                        out.append((st.lineno, a.elts[0].id, guard_of(stack)))
                    elif f.attr == "extend":
                        names = {n.attr for n in ast.walk(c) if isinstance(n, ast.Attribute)}
                        if "_extra" not in names:
                            raise T.TranslateError(f"{who}: headers.extend over something else than self._extra")
                        out.append((st.lineno, "extra", "loop"))
                    else:
                        raise T.TranslateError(f"{who}: headers.{f.attr}")
            for fld in ("body", "orelse"):
                sub = getattr(st, fld, None)
                if isinstance(sub, list) and sub and isinstance(st, (ast.If, ast.For, ast.With, ast.Try)):
                    visit(sub, stack + [st])

    visit(func.body, [])
    return [(n, g) for _, n, g in sorted(out)]


def _marks_dirty(func: ast.FunctionDef, obj_name: str) -> int:
    """0: only assigns; 1: sets <obj>._needs_serialization = True; 2: goes through set_raw_string/chunks;
    3: drops the cached id (<obj>._sha = None) without marking the object dirty."""
    kind = 0
    drops_sha = False
    for n in ast.walk(func):
        if isinstance(n, ast.Assign):
            for t in n.targets:
                if isinstance(t, ast.Attribute) and t.attr == "_needs_serialization" and \
                        isinstance(t.value, ast.Name) and t.value.id == obj_name and \
                        isinstance(n.value, ast.Constant) and n.value.value is True:
                    kind = max(kind, 1)
                if isinstance(t, ast.Attribute) and t.attr == "_sha" and \
                        isinstance(t.value, ast.Name) and t.value.id == obj_name and \
                        isinstance(n.value, ast.Constant) and n.value.value is None:
                    drops_sha = True
        if isinstance(n, ast.Call) and isinstance(n.func, ast.Attribute) and \
                n.func.attr in ("set_raw_string", "set_raw_chunks") and \
                isinstance(n.func.value, ast.Name) and n.func.value.id == obj_name:
            kind = 2
    if kind == 0 and drops_sha:
        kind = 3
    return kind


def _setters(tree: ast.Module):
    sp = T.find_def(tree, "serializable_property")
    sp_set = None
    for n in sp.body:
        if isinstance(n, ast.FunctionDef) and n.name == "set":
            sp_set = n
    if sp_set is None:
        raise T.TranslateError("serializable_property.set not found")
    sp_kind = _marks_dirty(sp_set, sp_set.args.args[0].arg)
    out = []
    for cname in ("Blob", "Tree", "Commit", "Tag"):
        cls = T.find_def(tree, cname)
        for st in cls.body:
            if isinstance(st, ast.Assign) and isinstance(st.value, ast.Call) and \
                    isinstance(st.value.func, ast.Name) and st.value.func.id == "serializable_property":
                out.append((cname, st.targets[0].id, sp_kind))
            elif isinstance(st, ast.FunctionDef):
                is_setter = any(isinstance(d, ast.Attribute) and d.attr == "setter" for d in st.decorator_list)
                if is_setter or (cname == "Tree" and st.name in ("__setitem__", "__delitem__", "add")):
                    out.append((cname, st.name, _marks_dirty(st, st.args.args[0].arg)))
    return out


def _binops(func: ast.AST):
    """(op, left-name, int) for every `<name> <op> <int literal>` in func, source order."""
    out = []
    for n in ast.walk(func):
        if isinstance(n, ast.BinOp) and isinstance(n.right, ast.Constant) and isinstance(n.right.value, int) \
                and not isinstance(n.right.value, bool):
            left = n.left
            while isinstance(left, ast.BinOp):
                left = left.left
            nm = left.id if isinstance(left, ast.Name) else "?"
            out.append((n.lineno, n.col_offset, type(n.op).__name__, nm, n.right.value))
    return [(o, nm, v) for _, _, o, nm, v in sorted(out)]


def translate(repo: Path) -> dict:
    tree = T.module_ast(repo / "dulwich" / "objects.py")
    hdr = {k: T.const_value(tree, k) for k in (
        "_TREE_HEADER", "_PARENT_HEADER", "_AUTHOR_HEADER", "_COMMITTER_HEADER", "_ENCODING_HEADER",
        "_MERGETAG_HEADER", "_GPGSIG_HEADER", "_OBJECT_HEADER", "_TYPE_HEADER", "_TAG_HEADER", "_TAGGER_HEADER")}
    for k, v in hdr.items():
        if not isinstance(v, bytes):
            raise T.TranslateError(f"{k} is not a bytes literal")
    # type table
    types = []
    for cname in ("Commit", "Tree", "Blob", "Tag"):
        cls = T.find_def(tree, cname)
        tn = tnum = None
        for st in cls.body:
            if isinstance(st, ast.Assign) and isinstance(st.targets[0], ast.Name):
                if st.targets[0].id == "type_name":
                    tn = T.eval_literal(st.value)
                elif st.targets[0].id == "type_num":
                    tnum = T.eval_literal(st.value)
        if not isinstance(tn, bytes) or not isinstance(tnum, int):
            raise T.TranslateError(f"{cname}: type_name/type_num not found")
        types.append((tnum, tn, cname))
    # header order
    slot_of = {"_TREE_HEADER": "tree", "_PARENT_HEADER": "parent", "_AUTHOR_HEADER": "author",
               "_COMMITTER_HEADER": "committer", "_ENCODING_HEADER": "encoding", "_MERGETAG_HEADER": "mergetag",
               "_GPGSIG_HEADER": "gpgsig", "extra": "extra", "_OBJECT_HEADER": "object", "_TYPE_HEADER": "type",
               "_TAG_HEADER": "tag", "_TAGGER_HEADER": "tagger"}
    corder = _header_slots(T.find_def(tree, "Commit._serialize"), "Commit._serialize")
    expect_guard = {"tree": "always", "parent": "loop", "author": "always", "committer": "always",
                    "encoding": "truthy", "mergetag": "loop", "extra": "loop", "gpgsig": "truthy"}
    cslots = []
    for n, g in corder:
        s = slot_of.get(n)
        if s is None or s not in expect_guard:
            raise T.TranslateError(f"Commit._serialize: unknown header {n}")
        if expect_guard[s] != g:
            raise T.TranslateError(f"Commit._serialize: header {s} is emitted under guard {g!r}, model assumes {expect_guard[s]!r}")
        cslots.append(s)
    if sorted(cslots) != sorted(expect_guard):
        raise T.TranslateError(f"Commit._serialize: header slots {cslots} (each of {sorted(expect_guard)} expected once)")
    torder = _header_slots(T.find_def(tree, "Tag._serialize"), "Tag._serialize")
    tslots = []
    for n, g in torder:
        s = slot_of.get(n)
        if s not in ("object", "type", "tag", "tagger"):
            raise T.TranslateError(f"Tag._serialize: unknown header {n}")
        if s not in tslots:
            tslots.append(s)   # tagger is appended on two branches (with / without time)
    if sorted(tslots) != ["object", "tag", "tagger", "type"]:
        raise T.TranslateError(f"Tag._serialize: header slots {tslots}")
    # message folding
    fm = T.find_def(tree, "_format_message")
    cont = None
    for n in ast.walk(fm):
        if isinstance(n, ast.For) and isinstance(n.iter, ast.Subscript):
            for y in ast.walk(n):
                if isinstance(y, ast.Yield):
                    left = y.value
                    while isinstance(left, ast.BinOp):
                        left = left.left
                    if isinstance(left, ast.Constant) and isinstance(left.value, bytes):
                        cont = left.value
    if cont is None:
        raise T.TranslateError("_format_message: continuation-line prefix not found")
    pm = T.find_def(tree, "_parse_message")
    pcont = None
    for n in ast.walk(pm):
        if isinstance(n, ast.Call) and isinstance(n.func, ast.Attribute) and n.func.attr == "startswith" and \
                isinstance(n.func.value, ast.Name) and n.func.value.id == "line":
            pcont = T.eval_literal(n.args[0])
    if pcont is None:
        raise T.TranslateError("_parse_message: line.startswith(..) not found")
    if len(cont) != 1 or len(pcont) != 1:
        raise T.TranslateError("continuation prefix is not a single byte")
    # object_header / git_line separators
    oh = T.find_def(tree, "object_header")
    oh_consts = [n.value for n in ast.walk(oh) if isinstance(n, ast.Constant) and isinstance(n.value, bytes)]
    if sorted(oh_consts) != [b"\x00", b" "]:
        raise T.TranslateError(f"object_header: separators {oh_consts}")
    ret = [n for n in ast.walk(oh) if isinstance(n, ast.Return) and isinstance(n.value, ast.BinOp)]
    if not ret:
        raise T.TranslateError("object_header: return expression not found")
    seq = []

    def flat(e):
        if isinstance(e, ast.BinOp) and isinstance(e.op, ast.Add):
            flat(e.left)
            flat(e.right)
        elif isinstance(e, ast.Constant):
            seq.append(e.value)
        elif isinstance(e, ast.Attribute):
            seq.append("@" + e.attr)
        else:
            seq.append("@len" if "length" in ast.dump(e) else "@?")
    flat(ret[0].value)
    if seq != ["@type_name", b" ", "@len", b"\x00"]:
        raise T.TranslateError(f"object_header: shape {seq}")
    # tree entry format
    st_ = T.find_def(tree, "serialize_tree")
    spec = None
    for n in ast.walk(st_):
        if isinstance(n, ast.FormattedValue) and n.format_spec is not None:
            spec = "".join(v.value for v in n.format_spec.values if isinstance(v, ast.Constant))
    m = re.fullmatch(r"0(\d+)o", spec or "")
    if not m:
        raise T.TranslateError(f"serialize_tree: mode format spec {spec!r}")
    mode_width = int(m.group(1))
    st_consts = [n.value for n in ast.walk(st_) if isinstance(n, ast.Constant) and isinstance(n.value, bytes)]
    if sorted(st_consts) != [b"\x00", b" "]:
        raise T.TranslateError(f"serialize_tree: separators {st_consts}")
    ke = T.find_def(tree, "key_entry")
    suffix = None
    isdir = False
    for n in ast.walk(ke):
        if isinstance(n, ast.AugAssign) and isinstance(n.op, ast.Add) and isinstance(n.value, ast.Constant):
            suffix = n.value.value
        if isinstance(n, ast.Attribute) and n.attr == "S_ISDIR":
            isdir = True
    if not isinstance(suffix, bytes) or len(suffix) != 1 or not isdir:
        raise T.TranslateError("key_entry: `if stat.S_ISDIR(mode): name += b'/'` not found")
    if _stat.S_IFMT(0o7777777) != 0o170000:
        raise T.TranslateError("stat.S_IFMT is not 0o170000")
    rs = (repo / "crates" / "objects" / "src" / "lib.rs").read_text()

    def rsc(name):
        mm = re.search(rf"const\s+{name}\s*:\s*u32\s*=\s*(0o[0-7_]+|0x[0-9a-fA-F_]+|[0-9_]+)\s*;", rs)
        if not mm:
            raise T.TranslateError(f"rust const {name} not found")
        return int(mm.group(1).replace("_", ""), 0)
    rs_ifdir, rs_ifmt = rsc("S_IFDIR"), rsc("S_IFMT")
    if rs_ifmt != 0o170000:
        raise T.TranslateError("rust S_IFMT is not 0o170000 (the model writes the mask as (m / 4096) % 16)")
    # cmp_with_suffix: old style compares ONE virtual byte after the common prefix (`/` for a directory, 0 otherwise);
    # new style (15beabf) compares the rest of the names chained with a suffix slice (b"/" or b"")
    mm_old = re.search(r"if \(a\.0 & S_IFMT\) == S_IFDIR \{\s*b'(.)'\s*\} else \{\s*(\d+)\s*\}", rs)
    mm_new = re.search(r"if \(mode & S_IFMT\) == S_IFDIR \{\s*b\"([^\"]*)\"\s*\} else \{\s*b\"([^\"]*)\"\s*\}", rs)
    if mm_new and re.search(r"\.chain\(suffix\(a\.0\)\)\s*\.cmp\(b\.1\[len\.\.\]\.iter\(\)\.chain\(suffix\(b\.0\)\)\)", rs):
        rs_whole = True
        rs_dir_suffix, rs_file_suffix = mm_new.group(1).encode(), mm_new.group(2).encode()
        if len(rs_dir_suffix) != 1:
            raise T.TranslateError("rust cmp_with_suffix: directory suffix is not one byte")
        rs_suffix, rs_term = rs_dir_suffix[0], 0
    elif mm_old:
        rs_whole = False
        rs_suffix, rs_term = ord(mm_old.group(1)), int(mm_old.group(2))
        rs_dir_suffix, rs_file_suffix = bytes([rs_suffix]), b""
    else:
        raise T.TranslateError("rust cmp_with_suffix: neither the one-byte nor the chained-suffix comparison found")
    rs_rejects_plus = bool(re.search(r"if text\[0\] == b'\+' \{\s*return Err", rs))
    if not re.search(r"u32::from_str_radix\(text_str\.as_str\(\), 8\)", rs):
        raise T.TranslateError("rust parse_tree: u32::from_str_radix(_, 8) not found")
    # Python mode token: int(mode_text, 8) (old) or `_TREE_MODE_RE.fullmatch` + upper bound (5d5709a)
    pt_ = T.find_def(tree, "parse_tree")
    uses_re = any(isinstance(n, ast.Call) and isinstance(n.func, ast.Attribute) and n.func.attr == "fullmatch" and
                  isinstance(n.func.value, ast.Name) and n.func.value.id == "_TREE_MODE_RE" for n in ast.walk(pt_))
    mode_max = None
    if uses_re:
        pat = None
        for st in tree.body:
            if isinstance(st, ast.Assign) and isinstance(st.targets[0], ast.Name) and st.targets[0].id == "_TREE_MODE_RE":
                if isinstance(st.value, ast.Call) and st.value.args and isinstance(st.value.args[0], ast.Constant):
                    pat = st.value.args[0].value
        if pat != b"[0-7]+":
            raise T.TranslateError(f"_TREE_MODE_RE is {pat!r}, the model's strict mode token is [0-7]+")
        for n in ast.walk(pt_):
            if isinstance(n, ast.Compare) and isinstance(n.left, ast.Name) and n.left.id == "mode" and \
                    isinstance(n.ops[0], ast.Gt) and isinstance(n.comparators[0], ast.Constant):
                mode_max = n.comparators[0].value
        if mode_max is None:
            raise T.TranslateError("parse_tree: `if mode > <max>` not found")
    else:
        if not any(isinstance(n, ast.Call) and isinstance(n.func, ast.Name) and n.func.id == "int" and len(n.args) == 2
                   for n in ast.walk(pt_)):
            raise T.TranslateError("parse_tree: neither _TREE_MODE_RE.fullmatch nor int(mode_text, 8) found")
        mode_max = 0xFFFFFFFF
    if mode_max != 0xFFFFFFFF:
        raise T.TranslateError(f"parse_tree: mode bound {mode_max:#x} (Rust parses into u32)")
    sti = T.find_def(tree, "sorted_tree_items")
    sort_checks = False
    for n in ast.walk(sti):
        if isinstance(n, ast.Compare) and len(n.ops) == 2 and isinstance(n.comparators[0], ast.Name) and \
                n.comparators[0].id == "mode" and isinstance(n.left, ast.Constant) and n.left.value == 0 and \
                isinstance(n.comparators[1], ast.Constant):
            if n.comparators[1].value != mode_max:
                raise T.TranslateError("sorted_tree_items: mode bound differs from parse_tree's")
            sort_checks = True
    # hex lengths
    hl = set()
    for fn in ("hex_to_sha", "sha_to_hex"):
        f = T.find_def(tree, fn)
        for n in ast.walk(f):
            if isinstance(n, ast.Compare) and isinstance(n.ops[0], ast.NotIn):
                hl.add(tuple(T.eval_literal(n.comparators[0])))
    if len(hl) != 1:
        raise T.TranslateError(f"hex_to_sha/sha_to_hex: length sets {hl}")
    hexlens = list(hl.pop())
    # timezone arithmetic
    ft = T.find_def(tree, "format_timezone")
    fmt = [n.value for n in ast.walk(ft) if isinstance(n, ast.Constant) and isinstance(n.value, str)
           and "%" in n.value]
    if fmt != ["%c%02d%02d"]:
        raise T.TranslateError(f"format_timezone: format string {fmt}")
    fb = _binops(ft)
    if [(o, v) for o, _, v in fb] != [("Mod", 60), ("Div", 3600), ("Mod", 60), ("Div", 60)]:
        raise T.TranslateError(f"format_timezone: arithmetic {fb}")
    pt = T.find_def(tree, "parse_timezone")
    pb = _binops(pt)
    if [(o, nm) for o, nm, _ in pb] != [("Div", "offset"), ("Mod", "offset"), ("Mult", "hours"), ("Mult", "minutes")]:
        raise T.TranslateError(f"parse_timezone: arithmetic {pb}")
    signs = [n.value for n in ast.walk(pt) if isinstance(n, ast.Constant) and isinstance(n.value, bytes)]
    if sorted(set(signs)) != [b"+-", b"-"]:
        raise T.TranslateError(f"parse_timezone: sign literals {signs}")
    pte = T.find_def(tree, "parse_time_entry")
    seps = [n.value for n in ast.walk(pte) if isinstance(n, ast.Constant) and isinstance(n.value, bytes)]
    if sorted(seps) != [b" ", b"> "]:
        raise T.TranslateError(f"parse_time_entry: separators {seps}")
    setters = _setters(tree)
    # how Commit._serialize cuts the final newline of a mergetag text: unconditional `[:-1]` (old) or only when
    # the text ends in one (`if text.endswith(b"\n")`)
    cs = T.find_def(tree, "Commit._serialize")
    mt_loop = [n for n in ast.walk(cs) if isinstance(n, ast.For) and "mergetag" in ast.dump(n.iter)]
    if len(mt_loop) != 1:
        raise T.TranslateError("Commit._serialize: `for mergetag in self.mergetag` not found")
    slices = [n for n in ast.walk(mt_loop[0]) if isinstance(n, ast.Subscript) and isinstance(n.slice, ast.Slice)
              and n.slice.lower is None and isinstance(n.slice.upper, ast.UnaryOp)
              and isinstance(n.slice.upper.operand, ast.Constant) and n.slice.upper.operand.value == 1]
    if len(slices) != 1:
        raise T.TranslateError("Commit._serialize: the `[:-1]` cut of the mergetag text not found")
    guarded = [n for n in ast.walk(mt_loop[0]) if isinstance(n, ast.If) and any(
        isinstance(c, ast.Call) and isinstance(c.func, ast.Attribute) and c.func.attr == "endswith" and
        c.args and isinstance(c.args[0], ast.Constant) and c.args[0].value == b"\n" for c in ast.walk(n.test))
        and any(sl in list(ast.walk(n)) for sl in slices)]
    mt_conditional = bool(guarded)
    # ---- re-filling a live object: which attributes `_deserialize` resets / assigns, and under which header branch
    def self_attrs(node):
        out = []
        for t in ast.walk(node):
            if isinstance(t, ast.Attribute) and isinstance(t.value, ast.Name) and t.value.id == "self" and \
                    isinstance(t.ctx, ast.Store):
                out.append(t.attr)
        return out
    td = T.find_def(tree, "Tag._deserialize")
    tag_resets, tag_branches = [], []
    loop = None
    for st in td.body:
        if isinstance(st, ast.For):
            loop = st
            break
        if isinstance(st, (ast.Assign, ast.AnnAssign)):
            tag_resets += self_attrs(st)
    if loop is None:
        raise T.TranslateError("Tag._deserialize: header loop not found")

    def walk_chain(ifnode):
        t = ifnode.test
        key = None
        if isinstance(t, ast.Compare) and isinstance(t.left, ast.Name) and t.left.id == "field":
            c = t.comparators[0]
            key = c.id if isinstance(c, ast.Name) else ("None" if isinstance(c, ast.Constant) and c.value is None else None)
        if key is None:
            raise T.TranslateError("Tag._deserialize: unexpected branch test in the header loop")
        attrs = []
        for b in ifnode.body:
            attrs += self_attrs(b)
        tag_branches.append((key, sorted(set(attrs))))
        if len(ifnode.orelse) == 1 and isinstance(ifnode.orelse[0], ast.If):
            walk_chain(ifnode.orelse[0])
        else:
            for b in ifnode.orelse:
                if self_attrs(b):
                    raise T.TranslateError("Tag._deserialize: attribute assigned in the final else branch")
    chains = [b for b in loop.body if isinstance(b, ast.If)]
    if len(chains) != 1 or any(self_attrs(b) for b in loop.body if not isinstance(b, ast.If)):
        raise T.TranslateError("Tag._deserialize: loop body is not one if/elif chain")
    walk_chain(chains[0])
    cd = T.find_def(tree, "Commit._deserialize")
    commit_uncond = []
    for st in cd.body:
        if isinstance(st, (ast.Assign, ast.AnnAssign)):
            commit_uncond += self_attrs(st)
        elif self_attrs(st):
            raise T.TranslateError("Commit._deserialize: an attribute is assigned under a condition/loop "
                                   "(the model's parse is a function of the new bytes only)")
    ccls = T.find_def(tree, "Commit")
    commit_slots = None
    for st in ccls.body:
        if isinstance(st, ast.Assign) and isinstance(st.targets[0], ast.Name) and st.targets[0].id == "__slots__":
            commit_slots = list(T.eval_literal(st.value))
    if not commit_slots:
        raise T.TranslateError("Commit.__slots__ not found")
    max_time = T.const_value(tree, "MAX_TIME")
    pgp, ssh = T.const_value(tree, "BEGIN_PGP_SIGNATURE"), T.const_value(tree, "BEGIN_SSH_SIGNATURE")

    L = [T.lean_header("dulwich/objects.py: header names and order, type table, object_header, _format_message/"
                       "_parse_message, serialize_tree, key_entry, hex_to_sha, format_timezone/parse_timezone, "
                       "setter table; crates/objects/src/lib.rs: S_IFDIR, S_IFMT, cmp_with_suffix terminators"),
         "namespace Dulwich.OGen", ""]
    L.append("/-- `(type_num, type_name)` of the four ShaFile subclasses, in `OBJECT_CLASSES` source order -/")
    L.append("def typeTable : List (Nat × List UInt8) := [" + ", ".join(f"({n}, {_b(t)})" for n, t, _ in types) + "]")
    for k, v in hdr.items():
        nm = "hdr" + k.strip("_").replace("_HEADER", "").capitalize()
        L.append(f"/-- `{k}` = {v!r} -/")
        L.append(f"def {nm} : List UInt8 := {_b(v)}")
    L.append("/-- order of the `headers.append/extend` calls in `Commit._serialize` -/")
    L.append("def commitOrder : List String := [" + ", ".join(_s(s) for s in cslots) + "]")
    L.append("/-- order of the `headers.append` calls in `Tag._serialize` -/")
    L.append("def tagOrder : List String := [" + ", ".join(_s(s) for s in tslots) + "]")
    L.append("/-- continuation-line prefix written by `_format_message` / recognised by `_parse_message` -/")
    L.append(f"def contFmt : UInt8 := {cont[0]}")
    L.append(f"def contParse : UInt8 := {pcont[0]}")
    L.append("/-- `f\"{mode:0Wo}\"` in `serialize_tree` -/")
    L.append(f"def treeModeWidth : Nat := {mode_width}")
    L.append("/-- `name += b\"/\"` in `key_entry` -/")
    L.append(f"def dirSuffix : UInt8 := {suffix[0]}")
    L.append(f"def sIFDIR : Nat := {_stat.S_IFDIR}")
    L.append(f"def rsSIFDIR : Nat := {rs_ifdir}")
    L.append(f"/-- Rust `cmp_with_suffix`: virtual terminator of a directory name / of any other name -/")
    L.append(f"def rsDirTerm : UInt8 := {rs_suffix}")
    L.append(f"def rsFileTerm : UInt8 := {rs_term}")
    L.append("/-- Rust `cmp_with_suffix` compares the whole rest of the names chained with a suffix slice (`true`, since\n"
             "    15beabf) or only one virtual byte after the common prefix (`false`) -/")
    L.append(f"def rsCmpWhole : Bool := {'true' if rs_whole else 'false'}")
    L.append(f"def rsDirSuffix : List UInt8 := {_b(rs_dir_suffix)}")
    L.append(f"def rsFileSuffix : List UInt8 := {_b(rs_file_suffix)}")
    L.append("/-- mode token of `parse_tree`: Python requires `[0-7]+` and a value ≤ treeModeMax (`true`, since 5d5709a) or\n"
             "    takes `int(token, 8)` (`false`); Rust rejects a leading `+` before `u32::from_str_radix` (`true`) or not -/")
    L.append(f"def pyModeStrict : Bool := {'true' if uses_re else 'false'}")
    L.append(f"def rsRejectsPlus : Bool := {'true' if rs_rejects_plus else 'false'}")
    L.append(f"def treeModeMax : Nat := {mode_max}")
    L.append("/-- pure-Python `sorted_tree_items` raises TypeError for a mode outside 0..treeModeMax (since 46c4930) -/")
    L.append(f"def pySortChecksMode : Bool := {'true' if sort_checks else 'false'}")
    L.append("/-- accepted lengths in `hex_to_sha` / `sha_to_hex` -/")
    L.append(f"def hexLens : List Nat := {hexlens}")
    L.append("/-- `format_timezone`: `offset % A != 0`, `offset / B`, `(offset / C) % D` -/")
    L.append(f"def tzCheckMod : Nat := {fb[0][2]}")
    L.append(f"def tzHourDiv : Nat := {fb[1][2]}")
    L.append(f"def tzMinDiv : Nat := {fb[3][2]}")
    L.append(f"def tzMinMod : Nat := {fb[2][2]}")
    L.append("/-- `parse_timezone`: `int(offset / A)`, `offset % B`, `hours * C + minutes * D` -/")
    L.append(f"def tzpDiv : Nat := {pb[0][2]}")
    L.append(f"def tzpMod : Nat := {pb[1][2]}")
    L.append(f"def tzpHourMul : Nat := {pb[2][2]}")
    L.append(f"def tzpMinMul : Nat := {pb[3][2]}")
    L.append(f"def pgpMarker : List UInt8 := {_b(pgp)}")
    L.append(f"def sshMarker : List UInt8 := {_b(ssh)}")
    L.append(f"def maxTime : Nat := {max_time}")
    L.append("/-- `Commit._serialize` cuts the last byte of a mergetag text only when it is LF (`true`), or always (`false`) -/")
    L.append(f"def mergetagStripConditional : Bool := {'true' if mt_conditional else 'false'}")
    L.append("/-- `Tag._deserialize`: attributes assigned before the header loop (reset on every re-fill) -/")
    L.append("def tagResets : List String := [" + ", ".join(_s(a) for a in tag_resets) + "]")
    L.append("/-- `Tag._deserialize`: for each `field == <header>` branch of the loop, the attributes it assigns -/")
    L.append("def tagBranchAssigns : List (String × List String) := [" +
             ", ".join(f"({_s(k)}, [" + ", ".join(_s(a) for a in v) + "])" for k, v in tag_branches) + "]")
    L.append("/-- `Commit._deserialize`: attributes assigned unconditionally (top-level statements) -/")
    L.append("def commitDeserAssigned : List String := [" + ", ".join(_s(a) for a in commit_uncond) + "]")
    L.append("/-- `Commit.__slots__` -/")
    L.append("def commitSlotAttrs : List String := [" + ", ".join(_s(a) for a in commit_slots) + "]")
    L.append("/-- every public setter of the four classes: (class, name, kind); kind 0 = assigns the attribute only,\n"
             "    1 = also sets `_needs_serialization = True`, 2 = goes through `set_raw_string`,\n"
             "    3 = also drops the cached id (`_sha = None`) -/")
    L.append("def setters : List (String × String × Nat) := [" +
             ", ".join(f"({_s(c)}, {_s(n)}, {k})" for c, n, k in setters) + "]")
    L += ["", "end Dulwich.OGen", ""]
    return {"Objects": "\n".join(L)}


# ================================================================================================
# small helpers shared by harness and workers

def _errname(e: BaseException) -> str:
    """Exception class -> the model's error enum."""
    try:
        from dulwich.errors import ObjectFormatException
    except Exception:  # pragma: no cover
        ObjectFormatException = ()
    if isinstance(e, (ObjectFormatException, ValueError)):
        return "format"
    return "other"


def ob(x) -> str:
    """Option[bytes] token."""
    return "~" if x is None else hx(bytes(x))


def oi(x) -> str:
    return "~" if x is None else str(int(x))


def obool(x) -> str:
    return "~" if x is None else ("1" if x else "0")


def lst(items) -> str:
    items = list(items)
    return "." if not items else ",".join(items)


def ent(name: bytes, mode: int, sha: bytes) -> str:
    return f"{hx(name)}:{int(mode)}:{hx(sha)}"


TYPE_NUM = {"commit": 1, "tree": 2, "blob": 3, "tag": 4}


def sha_hex(algo: str, type_name: str, body: bytes) -> bytes:
    h = hashlib.sha1() if algo == "sha1" else hashlib.sha256()
    h.update(type_name.encode() + b" " + str(len(body)).encode() + b"\0" + body)
    return h.hexdigest().encode()


# ================================================================================================
# field records (plain dicts) and the glue to the real classes / the model line protocol

COMMIT_KEYS = ["tree", "parents", "author", "author_time", "author_timezone", "author_neg",
               "committer", "commit_time", "commit_timezone", "commit_neg", "encoding", "mergetag",
               "extra", "gpgsig", "message"]
TAG_KEYS = ["object_sha", "object_type", "name", "tagger", "tag_time", "tag_timezone", "tag_neg",
            "message", "signature"]


def commit_tokens(f: dict) -> str:
    return " ".join([
        ob(f["tree"]), lst(hx(p) for p in f["parents"]),
        ob(f["author"]), oi(f["author_time"]), oi(f["author_timezone"]), obool(f["author_neg"]),
        ob(f["committer"]), oi(f["commit_time"]), oi(f["commit_timezone"]), obool(f["commit_neg"]),
        ob(f["encoding"]), lst(hx(m) for m in f["mergetag"]),
        lst(hx(k) + "=" + hx(v) for k, v in f["extra"]), ob(f["gpgsig"]), ob(f["message"])])


def tag_tokens(f: dict) -> str:
    return " ".join([ob(f["object_sha"]), ob(f["object_type"]), ob(f["name"]), ob(f["tagger"]),
                     oi(f["tag_time"]), oi(f["tag_timezone"]), obool(f["tag_neg"]), ob(f["message"]),
                     ob(f["signature"])])


def build_tag(f: dict):
    """A live Tag with the given attribute values (public setters; the private neg-utc flag directly)."""
    from dulwich.objects import Tag, object_class
    t = Tag()
    cls = object_class(f["object_type"]) if f["object_type"] is not None else None
    t.object = (cls, f["object_sha"])
    t.name = f["name"]
    t.tagger = f["tagger"]
    t.tag_time = f["tag_time"]
    t.tag_timezone = f["tag_timezone"]
    t._tag_timezone_neg_utc = f["tag_neg"]
    t.message = f["message"]
    t.signature = f["signature"]
    return t


def build_commit(f: dict):
    from dulwich.objects import Commit, Tag
    c = Commit()
    c.tree = f["tree"]
    c.parents = list(f["parents"])
    c.author = f["author"]
    c.author_time = f["author_time"]
    c.author_timezone = f["author_timezone"]
    c._author_timezone_neg_utc = f["author_neg"]
    c.committer = f["committer"]
    c.commit_time = f["commit_time"]
    c.commit_timezone = f["commit_timezone"]
    c._commit_timezone_neg_utc = f["commit_neg"]
    c.encoding = f["encoding"]
    c.mergetag = [Tag.from_string(m) for m in f["mergetag"]]
    c._extra = list(f["extra"])
    c.gpgsig = f["gpgsig"]
    c.message = f["message"]
    return c


def tag_fields_of(t) -> dict:
    g = lambda n: getattr(t, n, None)
    cls = g("_object_class")
    return {"object_sha": g("_object_sha"), "object_type": None if cls is None else cls.type_name,
            "name": g("_name"), "tagger": g("_tagger"), "tag_time": g("_tag_time"),
            "tag_timezone": g("_tag_timezone"), "tag_neg": g("_tag_timezone_neg_utc"),
            "message": g("_message"), "signature": g("_signature")}


def commit_fields_of(c) -> dict:
    g = lambda n: getattr(c, n, None)
    return {"tree": g("_tree"), "parents": list(g("_parents") or []),
            "author": g("_author"), "author_time": g("_author_time"), "author_timezone": g("_author_timezone"),
            "author_neg": g("_author_timezone_neg_utc"),
            "committer": g("_committer"), "commit_time": g("_commit_time"), "commit_timezone": g("_commit_timezone"),
            "commit_neg": g("_commit_timezone_neg_utc"),
            "encoding": g("_encoding"), "mergetag": [m.as_raw_string() for m in (g("_mergetag") or [])],
            "extra": [(k, v) for k, v in (g("_extra") or [])], "gpgsig": g("_gpgsig"), "message": g("_message")}


def try_raw(obj) -> str:
    try:
        return "ok " + hx(obj.as_raw_string())
    except Exception as e:  # noqa: BLE001
        return "err " + _errname(e)


# ================================================================================================
# reference serialisers: git's object grammar written down independently of dulwich

def ref_tz(off: int, negzero: bool = False) -> bytes:
    """[+-]HHMM as git prints it; `-0000` when negzero."""
    assert off % 60 == 0
    sign = "-" if (off < 0 or (off == 0 and negzero)) else "+"
    a = abs(off) // 60
    return f"{sign}{a // 60:02d}{a % 60:02d}".encode()


def ref_fold(value: bytes) -> bytes:
    return value.replace(b"\n", b"\n ")


def ref_commit(f: dict) -> bytes:
    out = [b"tree " + f["tree"] + b"\n"]
    for p in f["parents"]:
        out.append(b"parent " + p + b"\n")
    out.append(b"author " + f["author"] + b" " + str(f["author_time"]).encode() + b" " +
               ref_tz(f["author_timezone"], bool(f["author_neg"])) + b"\n")
    out.append(b"committer " + f["committer"] + b" " + str(f["commit_time"]).encode() + b" " +
               ref_tz(f["commit_timezone"], bool(f["commit_neg"])) + b"\n")
    if f["encoding"]:
        out.append(b"encoding " + f["encoding"] + b"\n")
    for m in f["mergetag"]:
        # git (strbuf_add_lines) completes an unterminated last line instead of dropping a byte
        out.append(b"mergetag " + ref_fold(m[:-1] if m.endswith(b"\n") else m) + b"\n")
    for k, v in f["extra"]:
        out.append(k + b" " + ref_fold(v) + b"\n")
    if f["gpgsig"]:
        out.append(b"gpgsig " + ref_fold(f["gpgsig"]) + b"\n")
    out.append(b"\n")
    out.append(f["message"] or b"")
    return b"".join(out)


def ref_tag(f: dict) -> bytes:
    out = [b"object " + f["object_sha"] + b"\n", b"type " + f["object_type"] + b"\n", b"tag " + f["name"] + b"\n"]
    if f["tagger"]:
        out.append(b"tagger " + f["tagger"] + b" " + str(f["tag_time"]).encode() + b" " +
                   ref_tz(f["tag_timezone"], bool(f["tag_neg"])) + b"\n")
    out.append(b"\n")
    out.append((f["message"] or b"") + (f["signature"] or b""))
    return b"".join(out)


def git_name_cmp(a, b) -> int:
    """git's base_name_compare on (name, mode) pairs."""
    (n1, m1), (n2, m2) = a, b
    ln = min(len(n1), len(n2))
    if n1[:ln] != n2[:ln]:
        return -1 if n1[:ln] < n2[:ln] else 1
    c1 = n1[ln] if len(n1) > ln else (0x2F if (m1 & 0o170000) == 0o040000 else 0)
    c2 = n2[ln] if len(n2) > ln else (0x2F if (m2 & 0o170000) == 0o040000 else 0)
    return (c1 > c2) - (c1 < c2)


def ref_tree(entries) -> bytes:
    """entries: iterable of (name, mode, hexsha), unique names; git order, git mode spelling."""
    import functools
    es = sorted(entries, key=functools.cmp_to_key(lambda x, y: git_name_cmp((x[0], x[1]), (y[0], y[1]))))
    return b"".join(b"%o" % m + b" " + n + b"\0" + bytes.fromhex(h.decode()) for n, m, h in es)


# ================================================================================================
# generators

ODD_BYTES = [b"\xff", b"\xc3\xa9", b"\xe2\x80\xa8", b"\x80", b"\t", b"  ", b"'", b"\"", b"\\", b"\x7f", b"\x01", b"=",
             b":", b",", b".", b"-", b"+", b"~", b"\xc0\xaf", b"\r"]
MODES = [0o100644, 0o100755, 0o120000, 0o040000, 0o160000, 0o100664]
TZ_CANON = [0, 3600, -3600, 19800, 20700, -16200, 50400, -43200, 45900, 1800, -1800, 34200, 86340, -86340, 60, -60]
TIMES = [0, 1, 59, 1234567890, 2 ** 31 - 1, 2 ** 31, 2 ** 32 - 1, 2 ** 32, 2 ** 40, 2 ** 53, 2 ** 63 - 1, 10 ** 18]
NEG_TIMES = [-1, -2 ** 31, -2 ** 31 - 1, -10 ** 12, -2 ** 63]
HUGE_TIMES = [2 ** 63, 2 ** 64, 10 ** 30]


def gen_hex(rng, algo="sha1") -> bytes:
    n = 20 if algo == "sha1" else 32
    k = rng.random()
    if k < 0.1:
        return (b"00" * n)
    if k < 0.2:
        return (b"ff" * n)
    return rng.randbytes(n).hex().encode()


def gen_word(rng, lo=1, hi=8, alpha=b"abcXYZ019_") -> bytes:
    return bytes(rng.choice(alpha) for _ in range(rng.randint(lo, hi)))


def gen_ident(rng, git_clean=False) -> bytes:
    """`name <email>`; odd bytes but never LF/NUL/<> inside (git's ident grammar)."""
    def part(lo):
        out = b""
        for _ in range(rng.randint(lo, 3)):
            out += gen_word(rng) if rng.random() < 0.7 else rng.choice(ODD_BYTES)
            if rng.random() < 0.3:
                out += b" "
            if not git_clean and rng.random() < 0.06:
                out += rng.choice([b"> ", b">", b"<", b"> 1 +0000"])   # not git's grammar, still must round-trip
        return out
    name = part(1).strip(b" \t\r") or b"x"
    if git_clean:
        name = name.replace(b"\r", b"r").replace(b"\t", b"t")
    email = part(0).replace(b" ", b"").replace(b"\t", b"").replace(b"\r", b"")
    k = rng.random()
    if k < 0.05 and not git_clean:
        return b"<" + email + b">"           # empty name (old git allowed it)
    if k < 0.10:
        return name + b" <>"
    return name + b" <" + email + b">"


def gen_time(rng, level="canon") -> int:
    k = rng.random()
    if level == "git":
        return rng.choice([0, 1, 1234567890, 2 ** 31 - 1, 2 ** 31, 2 ** 32, 2 ** 40, rng.randrange(2 ** 33)])
    if k < 0.45:
        return rng.choice(TIMES)
    if k < 0.6:
        return rng.choice(NEG_TIMES)
    if k < 0.68:
        return rng.choice(HUGE_TIMES)
    return rng.randrange(-2 ** 34, 2 ** 34)


def gen_tz(rng, level="canon"):
    """(offset seconds, neg-utc flag).  canon/git: what git emits ([+-]HHMM, MM < 60, incl. -0000)."""
    k = rng.random()
    if k < 0.12:
        return 0, True
    if k < 0.5:
        return rng.choice(TZ_CANON), False
    hh = rng.choice([0, 1, 9, 10, 12, 14, 23, 24, 99]) if level != "git" else rng.choice([0, 1, 9, 10, 12, 14])
    mm = rng.choice([0, 15, 30, 45, 59, 1, rng.randrange(60)])
    off = (hh * 60 + mm) * 60
    return (off if rng.random() < 0.5 else -off), False


def gen_multiline(rng, git_clean=False) -> bytes:
    """A header value with embedded newlines, blank lines, leading spaces."""
    lines = []
    for _ in range(rng.randint(1, 5)):
        k = rng.random()
        if k < 0.15:
            lines.append(b"")
        elif k < 0.3:
            lines.append(b" " + gen_word(rng))
        elif k < 0.4 and not git_clean:
            lines.append(rng.choice(ODD_BYTES) + gen_word(rng))
        else:
            lines.append(gen_word(rng, 1, 20, b"abcdefghijklmnopqrstuvwxyz0123456789+/= "))
    if git_clean and lines and lines[0].strip() == b"":
        lines[0] = b"v"
    return b"\n".join(lines)


def gen_pgp(rng, kind=None) -> bytes:
    kind = kind or rng.choice(["PGP", "SSH"])
    body = [gen_word(rng, 10, 64, b"ABCDEFGHIJKLMNOPQRSTUVWXYZabcdefghijklmnopqrstuvwxyz0123456789+/") for _ in range(rng.randint(1, 4))]
    lines = [b"-----BEGIN " + kind.encode() + b" SIGNATURE-----"]
    if kind == "PGP" and rng.random() < 0.7:
        lines += [b"Version: GnuPG v1", b""]
    elif kind == "PGP":
        lines += [b""]
    lines += body + [b"=" + gen_word(rng, 4, 4, b"ABCDabcd0123")] if kind == "PGP" else body
    lines.append(b"-----END " + kind.encode() + b" SIGNATURE-----")
    return b"\n".join(lines)


def gen_message(rng, git_clean=False):
    k = rng.random()
    if k < 0.1:
        return b""
    if k < 0.2:
        return b"subject"                      # no trailing LF
    if k < 0.3:
        return b"\n\nleading blank lines\n"
    if k < 0.4 and not git_clean:
        return rng.randbytes(rng.randint(1, 40)).replace(b"\0", b"0")
    if k < 0.5:
        return b"subject\n\nbody with tree deadbeef\nauthor x\n \n continuation-looking\n"
    return gen_multiline(rng, git_clean) + b"\n"


def gen_tag_fields(rng, level="canon", algo="sha1", target=None) -> dict:
    git = level == "git"
    tz, neg = gen_tz(rng, level)
    f = {"object_sha": gen_hex(rng, algo), "object_type": rng.choice([b"commit", b"tree", b"blob", b"tag"]),
         "name": (gen_word(rng, 1, 1, b"abcv0123456789") + gen_word(rng, 0, 10, b"abcv0123456789-_")) if git else
                 (gen_word(rng, 1, 12, b"abcv0123456789.-_/") if rng.random() < 0.7 else gen_word(rng) + rng.choice(ODD_BYTES)),
         "tagger": gen_ident(rng, git), "tag_time": gen_time(rng, level), "tag_timezone": tz, "tag_neg": neg,
         "message": gen_message(rng, git), "signature": None}
    if target is not None:
        f["object_sha"], f["object_type"] = target
    k = rng.random()
    if k < 0.15 and not git:
        f["tagger"], f["tag_time"], f["tag_timezone"], f["tag_neg"] = None, None, None, False
    if rng.random() < 0.3:
        # signature appended to the message: message must end with LF for git's own tags; any split is
        # recoverable as long as the marker does not occur earlier
        if f["message"] and not f["message"].endswith(b"\n"):
            f["message"] += b"\n"
        f["signature"] = gen_pgp(rng) + b"\n"
    return f


def gen_commit_fields(rng, level="canon", algo="sha1") -> dict:
    git = level == "git"
    atz, aneg = gen_tz(rng, level)
    ctz, cneg = gen_tz(rng, level)
    f = {"tree": gen_hex(rng, algo),
         "parents": [gen_hex(rng, algo) for _ in range(rng.choice([0, 0, 1, 1, 1, 2, 2, 3, 8]))],
         "author": gen_ident(rng, git), "author_time": gen_time(rng, level), "author_timezone": atz, "author_neg": aneg,
         "committer": gen_ident(rng, git), "commit_time": gen_time(rng, level), "commit_timezone": ctz, "commit_neg": cneg,
         "encoding": None, "mergetag": [], "extra": [], "gpgsig": None, "message": gen_message(rng, git)}
    if rng.random() < 0.25:
        f["encoding"] = rng.choice([b"ISO-8859-1", b"latin1", b"UTF-8", b"x-odd enc"])
    if rng.random() < 0.2:
        for _ in range(rng.randint(1, 2)):
            tf = gen_tag_fields(rng, "git" if git else "canon", algo)
            tf["object_type"] = b"commit"
            if tf["tagger"] is None:
                tf["tagger"], tf["tag_time"], tf["tag_timezone"], tf["tag_neg"] = b"T <t@t>", 1, 0, False
            raw = ref_tag(tf)
            if not raw.endswith(b"\n") and (git or rng.random() < 0.5):
                raw += b"\n"
            f["mergetag"].append(raw)
    if rng.random() < 0.3:
        for _ in range(rng.randint(1, 3)):
            key = rng.choice([b"HG:extra", b"HG:rename-source", b"change-id", b"x-foo", b"gpgsig-sha256", b"kilroy",
                              gen_word(rng, 1, 6, b"abcdefXYZ-:")])
            val = rng.choice([gen_word(rng), gen_multiline(rng, git), b"", gen_multiline(rng, git) + b"\n" if not git else b"v"])
            f["extra"].append((key, val))
    if rng.random() < 0.25:
        f["gpgsig"] = gen_pgp(rng)
    return f


def gen_name(rng) -> bytes:
    k = rng.random()
    if k < 0.5:
        base = rng.choice([b"a", b"ab", b"a.b", b"a-", b"a0", b"a-b", b"a b", b"a\xff", b"a\x01", b"a/", b"A", b"b", b"a.", b"a+", b"a,"])
        return base
    if k < 0.7:
        return gen_word(rng, 1, 3, b"ab./-0")
    return gen_word(rng, 1, 10) + (rng.choice(ODD_BYTES) if rng.random() < 0.3 else b"")


def gen_tree_entries(rng, algo="sha1", n=None, git_clean=False):
    """dict-ordered list of unique-name (name, mode, hexsha); dir/file twins arise through prefix collisions."""
    n = rng.choice([0, 1, 2, 3, 5, 8, 12]) if n is None else n
    seen, out = set(), []
    for _ in range(n * 3):
        if len(out) >= n:
            break
        name = gen_name(rng)
        if git_clean:
            name = name.replace(b"/", b"_")
            if name in (b".", b"..", b".git", b""):
                continue
        if name in seen or b"\0" in name or name == b"":
            continue
        # slashes only as the single documented collision probe `a/`
        if b"/" in name and name != b"a/":
            continue
        seen.add(name)
        out.append((name, rng.choice(MODES), gen_hex(rng, algo)))
    return out


def mutate(rng, raw: bytes) -> bytes:
    """One or two structured/byte-level mutations of a serialised object."""
    b = bytearray(raw)
    for _ in range(rng.choice([1, 1, 2])):
        k = rng.random()
        if not b:
            b += rng.randbytes(rng.randint(1, 3))
        elif k < 0.25:
            b[rng.randrange(len(b))] = rng.choice([0, 10, 32, 43, 45, 48, 55, 56, 60, 62, 95, 111, 255, rng.randrange(256)])
        elif k < 0.45:
            del b[rng.randrange(len(b))]
        elif k < 0.6:
            p = rng.randrange(len(b) + 1)
            b[p:p] = rng.choice([b"\n", b" ", b"\n ", b"> ", b"-", b"+", b"_", b"0o", b"\0", b"\n\n", rng.randbytes(1)])
        elif k < 0.75:
            del b[rng.randrange(len(b)):]            # truncate
        elif k < 0.85:
            lines = bytes(b).split(b"\n")
            if len(lines) > 2:
                i = rng.randrange(len(lines) - 1)
                lines[i], lines[i + 1] = lines[i + 1], lines[i]
                b = bytearray(b"\n".join(lines))
        else:
            lines = bytes(b).split(b"\n")
            i = rng.randrange(len(lines))
            lines.insert(i, lines[i])
            b = bytearray(b"\n".join(lines))
    return bytes(b)


# ================================================================================================
# worker-side adapters (tree functions: pure-Python variant vs rebuilt Rust variant)

def _w_entries(tokens):
    return [(unhx(n), int(m), unhx(h)) for n, m, h in tokens]


def _w_one(op, a):
    import dulwich.objects as O
    from dulwich.object_format import SHA1, SHA256
    try:
        if op == "sort":
            d = {}
            for n, m, h in _w_entries(a["entries"]):
                d[n] = (m, h)
            return "ok " + lst(ent(e.path, e.mode, e.sha) for e in O.sorted_tree_items(d, bool(a.get("name_order"))))
        if op == "ser":
            t = O.Tree()
            for n, m, h in _w_entries(a["entries"]):
                t.add(n, m, h)
            return "ok " + hx(t.as_raw_string())
        if op == "parse":
            return "ok " + lst(ent(n, m, h) for n, m, h in O.parse_tree(unhx(a["raw"]), a["sha_len"]))
        if op == "deser":
            fmt = SHA1 if a["sha_len"] == 20 else SHA256
            t = O.ShaFile.from_raw_string(2, unhx(a["raw"]), object_format=fmt)
            return "ok " + lst(ent(n, m, h) for n, (m, h) in t._entries.items())
        if op == "roundtrip":
            # oracle: build from entries, serialise, parse again, touch, serialise again
            fmt = SHA1 if a["sha_len"] == 20 else SHA256
            t = O.Tree()
            t.object_format = fmt
            for n, m, h in _w_entries(a["entries"]):
                t.add(n, m, h)
            raw = t.as_raw_string()
            t2 = O.ShaFile.from_raw_string(2, raw, object_format=fmt)
            items2 = lst(ent(e.path, e.mode, e.sha) for e in t2.items())
            # touch: re-add the first entry with its own value (marks dirty, forces a re-serialisation)
            if a["entries"]:
                n, m, h = _w_entries(a["entries"])[0]
                t2[n] = (m, h)
            raw2 = t2.as_raw_string()
            return {"raw": hx(raw), "id": t.id.decode(), "id256": t.get_id(SHA256).decode(), "items2": items2,
                    "raw2": hx(raw2), "id2": t2.id.decode()}
        raise AssertionError(op)
    except Exception as e:  # noqa: BLE001
        return "err " + _errname(e)


def impl_batch(a):
    return [_w_one(op, x) for op, x in a]


def impl_which(a):
    import dulwich.objects as O
    return {"parse_tree": getattr(O.parse_tree, "__module__", None) or type(O.parse_tree).__name__,
            "sorted_tree_items": getattr(O.sorted_tree_items, "__module__", None) or type(O.sorted_tree_items).__name__,
            "file": O.__file__}


class Variants:
    def __init__(self, ctx):
        self.workers = {"py": core.Worker("py", mem_mb=2048)}
        ov = core.rust_overlay()
        if ov is not None:
            self.workers["rs"] = core.Worker("rs", overlay=ov, mem_mb=2048)
        else:
            ctx.notes.append("cargo build failed: Rust variant not exercised (see .cache/cargo.log)")
            ctx.disagree("rust.build", {}, "builds", "cargo build failed", "rs")

    def batch(self, variant, reqs, chunk=400):
        out = []
        for i in range(0, len(reqs), chunk):
            rep = self.workers[variant].ask({"mod": MOD, "op": "batch", "args": reqs[i:i + chunk]}, timeout=600)
            if "r" not in rep:
                raise core.InfraError(f"worker {variant} failed on a batch: {rep}")
            out += rep["r"]
        return out

    def close(self):
        for w in self.workers.values():
            w.close()


# ================================================================================================
# streams

def _cmp(ctx, stream, case, model, impl, variant="impl"):
    if model != impl:
        ctx.disagree(stream, case, model[:400] if isinstance(model, str) else model,
                     impl[:400] if isinstance(impl, str) else impl, variant)
        return False
    return True


def _stream_prims(ctx, V):
    """int()/str() of bytes, Rust octal parse, object_header, timezone and time-entry primitives."""
    import itertools
    import dulwich.objects as O
    rng = ctx.rng
    # --- int(bytes[, 8]) exhaustively over a small alphabet + random
    alpha = [b" ", b"\t", b"+", b"-", b"_", b"0", b"7", b"8", b"o", b"\n"]
    L = 4 if not ctx.thorough else 5
    cases = [b"".join(t) for n in range(0, L + 1) for t in itertools.product(alpha, repeat=n)]
    cases += [bytes([c]) + b"1" for c in range(256)] + [b"1" + bytes([c]) for c in range(256)]
    cases += [b"0o17", b"0O17", b"0o_17", b"0O_1_7", b"1_000", b"-0", b"+00012", b"\x0b12\x0c", b"12\r\n", b"0x1f", b"1e3", b"1.0",
              b"99999999999999999999999", b"-99999999999999999999999", b"0b1", b"00", b"07", b"08"]
    for _ in range(ctx.budget(1600)):
        cases.append(bytes(rng.choice(b"0123456789 +-_o\t") for _ in range(rng.randint(1, 8))))
    lines = [f"c01.pyint 8 {hx(c)}" for c in cases] + [f"c01.pyint 10 {hx(c)}" for c in cases]
    outs = ctx.driver.batch(lines)
    for i, c in enumerate(cases):
        for base, o in ((8, outs[i]), (10, outs[len(cases) + i])):
            try:
                real = str(int(c, base))
            except ValueError:
                real = "none"
            ctx.count("prim.pyint", (base, c), True, f"base{base}:" + ("ok" if real != "none" else "err"))
            _cmp(ctx, "prim.pyint", {"base": base, "text": hx(c)}, o, real)
    # --- str(int)
    ints = TIMES + NEG_TIMES + HUGE_TIMES + [9, 10, 11, 99, 100, 101, -9, -10, -100] + \
        [rng.randrange(-10 ** 20, 10 ** 20) for _ in range(ctx.budget(200))]
    outs = ctx.driver.batch([f"c01.dec {i}" for i in ints])
    for i, o in zip(ints, outs):
        ctx.count("prim.dec", i, True)
        _cmp(ctx, "prim.dec", {"int": i}, o, hx(str(i).encode()))
    # --- Rust / Python mode token through parse_tree on a one-entry tree
    toks = [b"".join(t) for n in range(0, 4) for t in itertools.product([b"+", b"-", b"0", b"7", b"8", b"_", b"o"], repeat=n)]
    toks += [b"37777777777", b"40000000000", b"100644", b"040000", b"40000", b"\xff7", b"7\xc3\xa9", b"0o7", b"+100644",
             b"00000000000000000000007", b"77777777777777777777777"]
    sha = bytes(range(1, 21))
    lines, metas = [], []
    for variant in V.workers:
        reps = V.batch(variant, [("parse", {"raw": hx(t + b" n\0" + sha), "sha_len": 20}) for t in toks])
        mo = ctx.driver.batch([f"c01.tree.parse {variant} 20 {hx(t + b' n' + bytes(1) + sha)}" for t in toks])
        for t, r, m in zip(toks, reps, mo):
            ctx.count("prim.modetoken", (variant, t), True, f"{variant}:{r[:3]}")
            _cmp(ctx, "prim.modetoken", {"variant": variant, "token": hx(t)}, m, r, variant)
    # --- object_header / hash input
    for num, name in ((1, "commit"), (2, "tree"), (3, "blob"), (4, "tag")):
        for ln in (0, 1, 9, 10, 99, 100, 12345, 2 ** 32):
            real = hx(O.object_header(num, ln))
            body = b"x" * min(ln, 200)
            o = ctx.driver.batch([f"c01.hashinput {num} {hx(body)}"])[0]
            ctx.count("prim.header", (num, ln), True)
            _cmp(ctx, "prim.header", {"num": num, "len": len(body)}, o, hx(O.object_header(num, len(body)) + body))
            # direct: header spelled as git does
            if O.object_header(num, ln) != name.encode() + b" " + str(ln).encode() + b"\0":
                ctx.oracle_fail("prim.header", {"num": num, "len": ln}, f"object_header gives {real}", None)


def _oracle_tz(ctx, o, n, stream=None):
    """what git emits for this zone ([+-]HHMM; the flag only means -0000), and back."""
    import dulwich.objects as O
    if not (o % 60 == 0 and abs(o) < 100 * 3600 and (not n or o == 0)):
        return
    rp = {"op": "tz", "offset": o, "neg": bool(n)}
    want = ref_tz(o, n)
    real = _try(O.format_timezone, o, n)
    if real != want:
        ctx.oracle_fail(stream or "tz.format", {"offset": o, "neg": n, "replay": rp}, f"format_timezone gives {real!r}, git spells {want!r}", None)
    back = _try(O.parse_timezone, want)
    if back != (o, n):
        ctx.oracle_fail(stream or "tz.parse", {"text": hx(want), "replay": rp}, f"parse_timezone({want!r}) = {back}, expected {(o, n)}", None)


def _oracle_te(ctx, p, t, z, n, stream=None):
    import dulwich.objects as O
    rp = {"op": "te", "person": hx(p), "time": t, "tz": z, "neg": bool(n)}
    raw = _try(O.format_time_entry, p, t, (z, n))
    want = p + b" " + str(t).encode() + b" " + ref_tz(z, n)
    if raw != want:
        ctx.oracle_fail(stream or "te.format", {"person": hx(p), "time": t, "tz": z, "neg": n, "replay": rp}, f"{raw!r} != {want!r}", None)
        return
    back = _try(O.parse_time_entry, raw)
    if back != (p, t, (z, n)):
        ctx.oracle_fail(stream or "te.roundtrip", {"raw": hx(raw), "replay": rp}, f"parse_time_entry gives {back}", None)


def _stream_tz(ctx):
    import dulwich.objects as O
    rng = ctx.rng
    # --- format_timezone: model vs real on canonical and non-canonical states
    cases = [(o, n) for o in TZ_CANON + [360000, -360000, 359940, 2 ** 40 * 60, 61, -61, 59, 1, -1, 30]
             for n in (False, True)]
    for _ in range(ctx.budget(1600)):
        tz, neg = gen_tz(rng, "canon")
        cases.append((tz, neg))
        cases.append((rng.randrange(-10 ** 6, 10 ** 6) * rng.choice([1, 60, 60, 3600]), rng.random() < 0.3))
    outs = ctx.driver.batch([f"c01.fmttz {o} {int(n)}" for o, n in cases])
    texts = []
    for (o, n), m in zip(cases, outs):
        try:
            real = "ok " + hx(O.format_timezone(o, n))
        except ValueError:
            real = "err format"
        ctx.count("tz.format", (o, n), True, "neg" if n else "plain")
        _cmp(ctx, "tz.format", {"offset": o, "neg": n}, m, real)
        if real.startswith("ok"):
            texts.append(unhx(real[3:]))
        _oracle_tz(ctx, o, n)
    # --- parse_timezone: model vs real on emitted texts, every canonical spelling, mutations
    texts += [s + b"%02d%02d" % (h, m) for s in (b"+", b"-") for h in (0, 1, 5, 9, 10, 12, 14, 23, 99) for m in (0, 1, 15, 30, 45, 59)]
    texts += [b"", b"+", b"-", b"0000", b"+0", b"-0", b"--700", b"--0", b"+-5", b"-+5", b"+ 100", b"+1_00", b"+0100 ", b"\t+0100",
              b"+10000", b"-99999999", b"+0o10", b"++100", b"+0575", b"+0060", b"-0060", b"+\xd9\xa0\xd9\xa1", b"+12a"]
    texts += [mutate(rng, rng.choice(texts[:40] or [b"+0100"])) for _ in range(ctx.budget(1200))]
    outs = ctx.driver.batch([f"c01.parsetz {hx(t)}" for t in texts])
    for t, m in zip(texts, outs):
        try:
            r = O.parse_timezone(t)
            real = f"ok {r[0]} {int(bool(r[1]))}"
        except Exception as e:  # noqa: BLE001
            real = "err " + _errname(e)
        ctx.count("tz.parse", t, True, real[:3])
        _cmp(ctx, "tz.parse", {"text": hx(t)}, m, real)
    # --- time entries
    ents = []
    for _ in range(ctx.budget(1600)):
        tz, neg = gen_tz(rng, "canon")
        ents.append((gen_ident(rng), gen_time(rng), tz, neg))
    outs = ctx.driver.batch([f"c01.fmtte {hx(p)} {t} {z} {int(n)}" for p, t, z, n in ents])
    raws = []
    for (p, t, z, n), m in zip(ents, outs):
        real = _try(lambda: "ok " + hx(O.format_time_entry(p, t, (z, n))))
        if isinstance(real, _Raised):
            real = "err " + _errname(real.e)
            ctx.oracle_fail("te.format", {"person": hx(p), "time": t, "tz": z, "neg": n}, "format_time_entry raised", None)
        ctx.count("te.format", (p, t, z, n), True)
        _cmp(ctx, "te.format", {"person": hx(p), "time": t, "tz": z, "neg": n}, m, real)
        if not real.startswith("ok "):
            continue
        raw = unhx(real[3:])
        raws.append(raw)
        _oracle_te(ctx, p, t, z, n)
    raws += [b"A <a@b>", b"A <a@b> ", b"A <a@b> 1", b"A <a@b> 1 ", b"A <a@b>  1 +0000", b"A <a@b> 1  +0000", b"> 1 +0000",
             b"A <a> b> 1 +0000", b"A <a@b> 1 2 +0000", b"A <a@b> +1 +0000", b"A <a@b> 1_0 +0000", b"no brackets 1 +0000",
             b"A <a@b> x +0000", b"A <a@b> 1 0000"]
    raws += [mutate(rng, rng.choice(raws[:50])) for _ in range(ctx.budget(1600))]
    outs = ctx.driver.batch([f"c01.parsete {hx(r)}" for r in raws])
    for r, m in zip(raws, outs):
        try:
            p, t, (z, n) = O.parse_time_entry(r)
            real = f"ok {ob(p)} {oi(t)} {oi(z)} {obool(n)}"
        except Exception as e:  # noqa: BLE001
            real = "err " + _errname(e)
        ctx.count("te.parse", r, True, real[:3])
        _cmp(ctx, "te.parse", {"raw": hx(r)}, m, real)


def gen_headers(rng):
    hs = []
    for _ in range(rng.randint(0, 5)):
        k = rng.choice([b"tree", b"parent", b"x", b"HG:extra", gen_word(rng, 1, 5), bytes([rng.choice(b"ab\xff\x01-:\t")])])
        kind = rng.random()
        if kind < 0.3:
            v = gen_word(rng)
        elif kind < 0.6:
            v = gen_multiline(rng)
        elif kind < 0.75:
            v = rng.choice([b"", b"\n", b"\n\n", b" ", b" \n ", b"a\n", b"\na", b"a\n\n", b"\n \n"])
        else:
            v = bytes(rng.choice(b"ab \n\n\xff\x00") for _ in range(rng.randint(0, 12)))
        hs.append((k, v))
    return hs


def _real_parse_message(raw: bytes):
    import dulwich.objects as O
    try:
        hs, body = [], "absent"
        for k, v in O._parse_message([raw]):
            if k is None:
                body = v
            else:
                hs.append((k, v))
        assert body != "absent"
        return "ok " + " ".join([ob(body)] + [x for k, v in hs for x in (hx(k), hx(v))]), hs, body
    except Exception as e:  # noqa: BLE001
        return "err " + _errname(e), None, None


def _oracle_msg(ctx, hs, body, stream="msg.roundtrip"):
    """parse(format(hs, body)) == (hs, body or b"") for well-formed field names, on the real code."""
    import dulwich.objects as O
    wf = all(k and b" " not in k and b"\n" not in k for k, _ in hs)
    if not wf:
        return
    real = _try(lambda: b"".join(O._format_message(hs, body)))
    _, phs, pbody = _real_parse_message(real) if not isinstance(real, _Raised) else (None, real, None)
    if phs != hs or pbody != (body or b""):
        ctx.oracle_fail(stream, {"headers": [(hx(k), hx(v)) for k, v in hs], "body": ob(body),
                                 "replay": {"op": "msg", "headers": [[hx(k), hx(v)] for k, v in hs], "body": ob(body)}},
                        f"_parse_message(_format_message(..)) = {phs}, {pbody!r}", None)


def _stream_msg(ctx):
    import dulwich.objects as O
    rng = ctx.rng
    cases = [([], None), ([], b""), ([], b"body"), ([(b"k", b"")], None), ([(b"k", b"\n")], b"\n"),
             ([(b"k", b"a\n b")], b" x"), ([(b"k", b"v"), (b"k", b"v2")], b"\n\n")]
    for _ in range(ctx.budget(3000)):
        cases.append((gen_headers(rng), rng.choice([None, b"", gen_message(rng), b" leading space\n", b"\nfoo"])))
    lines = ["c01.fmtmsg " + " ".join([ob(b)] + [x for k, v in hs for x in (hx(k), hx(v))]) for hs, b in cases]
    outs = ctx.driver.batch(lines)
    raws = []
    for (hs, body), m in zip(cases, outs):
        real = b"".join(O._format_message(hs, body))
        ctx.count("msg.format", (tuple(hs), body), True, f"h{len(hs)}")
        _cmp(ctx, "msg.format", {"headers": [(hx(k), hx(v)) for k, v in hs], "body": ob(body)}, m, hx(real))
        raws.append(real)
        _oracle_msg(ctx, hs, body)
    raws += [b"", b"\n", b"\n\n", b" \n", b" x", b"k", b"k\n", b"k v", b"k v\n", b"k v\n x", b"k v\n\n", b" c\nk v\n\nb", b"k v\n c\n",
             b"k v\n c\n\n", b"k  v\n", b"k \n", b"k v\nnospace\n\nb", b"\nk v\n", b"k v\r\n\r\nb"]
    raws += [mutate(rng, rng.choice(raws[:200])) for _ in range(ctx.budget(3000))]
    outs = ctx.driver.batch([f"c01.parsemsg {hx(r)}" for r in raws])
    for r, m in zip(raws, outs):
        real, _, _ = _real_parse_message(r)
        ctx.count("msg.parse", r, True, real[:3])
        _cmp(ctx, "msg.parse", {"raw": hx(r)}, m, real)


def _entries_tokens(es):
    return [(hx(n), m, hx(h)) for n, m, h in es]


def _legal_entries(es) -> bool:
    """entries git accepts: a legal mode, a non-empty name without `/` and NUL"""
    return all(m in MODES for _, m, _ in es) and all(nme and b"/" not in nme and b"\0" not in nme for nme, _, _ in es)


def _oracle_tree(ctx, case, es, rr, stream=None):
    """direct oracle (property words) on a worker's round-trip report: git order and spelling, lossless parse,
    id = hash, stable re-serialisation."""
    import functools
    raw = unhx(rr["raw"])
    legal = _legal_entries(es)
    if legal:
        want = ref_tree(es)
        if raw != want:
            ctx.oracle_fail(stream or "tree.bytes", case, f"Tree bytes differ from git's encoding/order: {rr['raw'][:120]} vs {hx(want)[:120]}", None)
        want_items = "ok " + lst(ent(*e) for e in sorted(
            es, key=functools.cmp_to_key(lambda x, y: git_name_cmp((x[0], x[1]), (y[0], y[1])))))
        if "ok " + rr["items2"] != want_items:
            ctx.oracle_fail(stream or "tree.roundtrip", case, "parse(serialise(entries)) does not return the entries in git order", None)
        if rr["raw2"] != rr["raw"] or rr["id2"] != rr["id"]:
            ctx.oracle_fail(stream or "tree.reserialise", case, "re-serialising the parsed tree after touching one entry changes bytes", None)
    if rr["id"] != sha_hex("sha1", "tree", raw).decode() or rr["id256"] != sha_hex("sha256", "tree", raw).decode():
        ctx.oracle_fail(stream or "tree.id", case, "Tree id is not the hash of header+bytes", None)


def _stream_tree(ctx, V):
    rng = ctx.rng
    n = ctx.budget(1200)
    cases = []
    # the prefix-collision family of the property, exhaustively as dir/file twins
    fam = [b"a", b"a.b", b"a/", b"a-", b"a0", b"a.", b"a-b", b"ab", b"a b", b"a\xff", b"a\x01", b"A"]
    h1 = b"11" * 20
    for nm in fam:
        for m1 in (0o100644, 0o040000):
            for nm2 in fam:
                for m2 in (0o100644, 0o040000, 0o160000):
                    if nm != nm2:
                        cases.append(("sha1", [(nm, m1, h1), (nm2, m2, h1)]))
    cases.append(("sha1", [(x, rng.choice([0o100644, 0o040000]), h1) for x in fam]))
    cases.append(("sha1", [(x, rng.choice([0o100644, 0o040000]), h1) for x in reversed(fam)]))
    for _ in range(n):
        algo = "sha256" if rng.random() < 0.25 else "sha1"
        cases.append((algo, gen_tree_entries(rng, algo)))
    # odd-but-serialisable modes for the model tie (not part of git's grammar)
    for m in (0, 1, 0o777, 0o7777, 0o4000, 0o140000, 2 ** 31, 2 ** 32 - 1, 2 ** 32, 2 ** 40, -1):
        cases.append(("sha1", [(b"m", m, h1), (b"m2", 0o100644, h1)]))
    # names with `/` and NUL: not legal in git, but the two sorts must still agree with the model (and each other)
    odd = [b"a", b"a/", b"a/b", b"a/c", b"a\0", b"a\0b", b"a//", b"a/\0", b"ab", b"a."]
    for _ in range(ctx.budget(60)):
        rng.shuffle(odd)
        cases.append(("sha1", [(x, rng.choice([0o100644, 0o040000, 0o160000]), h1) for x in odd[: rng.randint(2, 7)]]))
    for variant in V.workers:
        tag = "rs" if variant == "rs" else "py"
        sort_m = ctx.driver.batch([f"c01.tree.sort {tag} {lst(ent(*e) for e in es)}" for _, es in cases])
        ser_m = ctx.driver.batch([f"c01.tree.ser {tag} {lst(ent(*e) for e in es)}" for _, es in cases])
        reqs = []
        for algo, es in cases:
            reqs.append(("sort", {"entries": _entries_tokens(es)}))
            # a name with NUL cannot be parsed back: only the serialisation is compared for those
            reqs.append(("roundtrip" if all(b"\0" not in nme for nme, _, _ in es) else "ser",
                         {"entries": _entries_tokens(es), "sha_len": 20 if algo == "sha1" else 32}))
        reps = V.batch(variant, reqs)
        for i, (algo, es) in enumerate(cases):
            rs, rr = reps[2 * i], reps[2 * i + 1]
            case = {"variant": variant, "algo": algo, "entries": [(hx(a), b, hx(c)) for a, b, c in es],
                    "replay": {"op": "tree", "variant": variant, "algo": algo, "entries": [[hx(a), b, hx(c)] for a, b, c in es]}}
            twin = len({e[0].rstrip(b"/") for e in es}) < len(es) or any(
                a[0] != b[0] and (a[0].startswith(b[0]) or b[0].startswith(a[0])) for a in es for b in es)
            ctx.count("tree.sort", (variant, algo, tuple(es)), True, f"{variant}:n{min(len(es), 9)}" + (":collide" if twin else ""))
            _cmp(ctx, "tree.sort", case, sort_m[i], rs, variant)
            if isinstance(rr, str):
                _cmp(ctx, "tree.ser", case, ser_m[i], rr, variant)
                if _legal_entries(es):
                    ctx.oracle_fail("tree.roundtrip", case, f"a tree of legal entries cannot be serialised and parsed back: {rr}", None)
                continue
            _cmp(ctx, "tree.ser", case, ser_m[i], "ok " + rr["raw"], variant)
            _oracle_tree(ctx, case, es, rr)
    if cases:
        ctx.sample({"stream": "tree", "entries": [(a.decode("latin1"), oct(b)) for a, b, _ in cases[-1][1]][:6]})
    # ---- parse: canonical bytes (reference-serialised) and mutations, both variants, model vs real
    raws = []
    for algo, es in cases[-n:]:
        legal = _legal_entries(es)
        if legal:
            raws.append((20 if algo == "sha1" else 32, ref_tree(es)))
    raws += [(20, b""), (20, b"100644 a\0" + b"\1" * 19), (20, b"100644 a\0" + b"\1" * 21), (20, b"100644a\0" + b"\1" * 20),
             (20, b"100644 a" + b"\1" * 20), (20, b" a\0" + b"\1" * 20), (20, b"040000 a\0" + b"\1" * 20),
             (20, b"100644 \0" + b"\1" * 20), (20, b"100644 a b\0" + b"\1" * 20), (32, b"100644 a\0" + b"\1" * 20),
             (20, b"100644 a\0" + b"\1" * 20 + b"100644 a\0" + b"\2" * 20),          # duplicate name: dict keeps the last
             (20, b"100644 b\0" + b"\1" * 20 + b"100644 a\0" + b"\2" * 20)]          # unsorted input
    base = list(raws)
    for _ in range(ctx.budget(2400)):
        sl, r = rng.choice(base)
        raws.append((sl, mutate(rng, r)))
    for variant in V.workers:
        tag = "rs" if variant == "rs" else "py"
        pm = ctx.driver.batch([f"c01.tree.parse {tag} {sl} {hx(r)}" for sl, r in raws])
        dm = ctx.driver.batch([f"c01.tree.parse {tag}dict {sl} {hx(r)}" for sl, r in raws])
        reqs = []
        for sl, r in raws:
            reqs.append(("parse", {"raw": hx(r), "sha_len": sl}))
            reqs.append(("deser", {"raw": hx(r), "sha_len": sl}))
        reps = V.batch(variant, reqs)
        for i, (sl, r) in enumerate(raws):
            case = {"variant": variant, "sha_len": sl, "raw": hx(r)}
            ctx.count("tree.parse", (variant, sl, r), True, f"{variant}:{reps[2 * i][:3]}")
            _cmp(ctx, "tree.parse", case, pm[i], reps[2 * i], variant)
            _cmp(ctx, "tree.deser", case, dm[i], reps[2 * i + 1], variant)


# ------------------------------------------------------------------------------------------------
# tags and commits

def _norm_msg(f: dict, keys=("message",)) -> dict:
    g = dict(f)
    for k in keys:
        if g.get(k) is None:
            g[k] = b""          # message None and b"" are identified (DESIGN C01 Limits)
    if "mergetag" in g:
        # the header format cannot tell a mergetag text `foo` from `foo\n`: git (strbuf_add_lines) and dulwich both
        # complete the last line, so field values are compared up to that completion (no byte may be lost)
        g["mergetag"] = [m if m.endswith(b"\n") else m + b"\n" for m in g["mergetag"]]
    return g


def _real_deser(kind: str, raw: bytes):
    from dulwich.objects import Commit, Tag
    try:
        o = (Commit if kind == "commit" else Tag).from_string(raw)
        f = commit_fields_of(o) if kind == "commit" else tag_fields_of(o)
        return "ok " + (commit_tokens(f) if kind == "commit" else tag_tokens(f)), o, f
    except Exception as e:  # noqa: BLE001
        return "err " + _errname(e), None, None


TOUCH = {"commit": ["tree", "parents", "author", "committer", "message", "commit_time", "commit_timezone", "author_time",
                    "author_timezone", "encoding", "mergetag", "gpgsig"],
         "tag": ["name", "tagger", "tag_time", "tag_timezone", "message", "signature", "object"]}


def _stream_objects(ctx, kind: str):
    """fields -> bytes (model vs as_raw_string, vs git's grammar), bytes -> fields (model vs from_string),
    parse -> touch one field -> re-serialise, on canonical objects; model vs real on mutated bytes."""
    rng = ctx.rng
    gen = gen_commit_fields if kind == "commit" else gen_tag_fields
    tokens = commit_tokens if kind == "commit" else tag_tokens
    ref = ref_commit if kind == "commit" else ref_tag
    n = ctx.budget(3000) * BOOST
    cases = [gen(rng, "canon", "sha256" if rng.random() < 0.2 else "sha1") for _ in range(n)]
    outs = ctx.driver.batch([f"c01.{kind}.ser {tokens(f)}" for f in cases])
    raws = []
    for f, m in zip(cases, outs):
        if kind == "commit":
            shape = [f"p{min(len(f['parents']), 3)}"] + [k for k in ("encoding", "gpgsig") if f[k]] + \
                    (["mergetag"] if f["mergetag"] else []) + (["extra"] if f["extra"] else [])
        else:
            shape = [f["object_type"].decode()] + (["sig"] if f["signature"] else []) + ([] if f["tagger"] else ["notagger"])
        ctx.count(f"{kind}.ser", tokens(f), True, "+".join(shape))
        real, raw = _fields_oracle(ctx, kind, f)
        _cmp(ctx, f"{kind}.ser", {"kind": kind, "fields": {k: repr(v) for k, v in f.items()}}, m, real)
        if raw is not None:
            raws.append(raw)
    if raws:
        ctx.sample({"stream": f"{kind}.ser", "raw": raws[0][:160].decode("latin1")})
    # ---- canonical bytes written by the reference serialiser: parse, compare with model; touch one field
    canon = []
    for _ in range(ctx.budget(2400) * BOOST):
        f = gen(rng, "canon", "sha256" if rng.random() < 0.2 else "sha1")
        if kind == "commit":
            f["mergetag"] = [m if m.endswith(b"\n") else m + b"\n" for m in f["mergetag"]]
        raw = ref(f)
        if rng.random() < 0.08:
            # "missing message": git accepts an object that ends after its last header line (no blank line)
            f = dict(f)
            f["message"] = None
            if kind == "tag":
                f["signature"] = None
            raw = ref(f)[:-1]
        canon.append((f, raw))
    outs = ctx.driver.batch([f"c01.{kind}.deser {hx(r)}" for _, r in canon])
    for (f, raw), m in zip(canon, outs):
        case = {"kind": kind, "raw": hx(raw), "replay": {"op": "touch", "kind": kind, "raw": hx(raw)}}
        real, obj, back = _real_deser(kind, raw)
        ctx.count(f"{kind}.deser", raw, True, "canon" if f["message"] is not None else "canon-nomessage")
        _cmp(ctx, f"{kind}.deser", case, m, real)
        if obj is None:
            ctx.oracle_fail(f"{kind}.parse", case, f"a canonical {kind} is rejected: {real}", None)
            continue
        if _norm_msg(back) != _norm_msg(f):
            diff = [k for k in f if _norm_msg(back)[k] != _norm_msg(f)[k]]
            ctx.oracle_fail(f"{kind}.parse", case, f"from_string of canonical bytes gives other values for {diff}", None)
            continue
        _touch_oracle(ctx, kind, raw, rng)
    # ---- mutated bytes: model vs real only (no property claim on malformed input here)
    base = [r for _, r in canon] + raws
    muts = [mutate(rng, rng.choice(base)) for _ in range(ctx.budget(3000) * BOOST)] if base else []
    muts += _handwritten(kind)
    outs = ctx.driver.batch([f"c01.{kind}.deser {hx(r)}" for r in muts])
    outs2 = ctx.driver.batch([f"c01.{kind}.reser {hx(r)}" for r in muts])
    for r, m, m2 in zip(muts, outs, outs2):
        real, obj, back = _real_deser(kind, r)
        ctx.count(f"{kind}.deser", r, True, "mut:" + real[:3])
        _cmp(ctx, f"{kind}.deser", {"kind": kind, "raw": hx(r)}, m, real)
        if obj is not None:
            # force a re-serialisation from the parsed attribute values (what any setter triggers); error kinds are
            # compared coarsely (an attribute missing from the bytes is an unset slot in Python, `none` in the model)
            obj._needs_serialization = True
            rr = try_raw(obj)
            _cmp(ctx, f"{kind}.reser", {"kind": kind, "raw": hx(r)}, _coarse(m2), _coarse(rr))


def _handwritten(kind):
    if kind == "commit":
        t = b"tree " + b"a" * 40 + b"\n"
        a = b"author A <a@b> 1 +0000\n"
        c = b"committer C <c@d> 2 -0000\n"
        return [b"", b"\n", t, t + a + c, t + a + c + b"\n", t + a + c + b"\nmsg", t + c + a + b"\nm", a + c + t + b"\nm",
                t + a + c + b"encoding x\n\nm", t + a + c + b"x-a 1\nencoding x\n\nm", t + a + c + b"gpgsig s\nx-a 1\n\nm",
                t + a + c + b"mergetag object " + b"b" * 40 + b"\n type commit\n tag v\n tagger T <t@t> 1 +0000\n \n m\n\nmsg\n",
                t + a + c + b"mergetag bogus\n\nm", t + a + c + b"mergetag object x\n type nonsense\n\nm",
                t + b"author A <a@b> 1 --700\n" + c + b"\nm", t + b"author A <a@b> 1 +0000 \n" + c + b"\nm",
                t + b"author A <a@b>\n" + c + b"\nm", t + a + a + c + b"\nm", t + t + a + c + b"\nm",
                t + a + c + b" continuation first\n\nm", b" leading continuation\n" + t + a + c + b"\nm",
                t + b"parent " + b"c" * 40 + b"\n" + a + b"parent " + b"d" * 40 + b"\n" + c + b"\nm",
                # order of failures: the generator yields a header before it splits the next line
                t + b"author A <a@b> 1 \n+0000\n" + c + b"\nm", t + b"author A <a@b> x +0000\nnospace\n" + c + b"\nm",
                t + b"nospace\nauthor A <a@b> x +0000\n" + c + b"\nm", t + a + c + b"mergetag object x\n type bogus\nnospace\n\nm"]
    o = b"object " + b"a" * 40 + b"\n"
    return [b"", b"\n", o, o + b"type commit\ntag v\n", o + b"type commit\ntag v\n\n", o + b"type commit\ntag v\n\nmsg",
            o + b"type commit\ntag v\ntagger T <t@t> 1 +0000\n", o + b"type bogus\ntag v\n\nm", o + b"type commit\ntag v\nextra x\n\nm",
            b"type commit\n" + o + b"tag v\n\nm", o + b"type commit\ntag v\ntagger T <t@t>\n\nm",
            o + b"type commit\ntag v\ntagger T <t@t> 1 -0000\n\nm\n-----BEGIN PGP SIGNATURE-----\nx\n-----END PGP SIGNATURE-----\n",
            o + b"type commit\ntag v\n\n-----BEGIN SSH SIGNATURE-----\nx\n-----BEGIN PGP SIGNATURE-----\ny\n",
            o + b"type commit\ntag v\n\nm-----BEGIN PGP SIGNATURE-----", o + b"type commit\ntag\n\nm", o + b"type commit\ntag \n\nm",
            o + b"type commit\ntag v\ntagger T <t@t> 1 \n+0000\n\nm", o + b"type bogus\nnospace\n\nm", o + b"nospace\ntype bogus\n\nm",
            o + b"type commit\nunknown x\nnospace\n\nm"]


def _touch_oracle(ctx, kind, raw: bytes, rng, stream=None, attrs=None):
    try:
        _touch_oracle_inner(ctx, kind, raw, rng, stream, attrs)
    except Exception as e:  # noqa: BLE001
        ctx.oracle_fail(stream or f"{kind}.touch", {"kind": kind, "raw": hx(raw), "replay": {"op": "touch", "kind": kind, "raw": hx(raw)}},
                        f"real code raised on a canonical {kind}: {type(e).__name__}: {e}", None)


def _touch_oracle_inner(ctx, kind, raw: bytes, rng, stream=None, attrs=None):
    """"re-serialising a parsed well-formed object, unchanged or with one field changed, reproduces every
    other byte exactly": parse canonical bytes; (a) unchanged; (b) assign one attribute its own value
    (forces a re-serialisation, must reproduce every byte); (c) change one attribute: the result must be
    git's encoding of the changed values (for an object without blank line: the old bytes with only that
    header line changed)."""
    from dulwich.objects import Commit, Tag
    cls = Commit if kind == "commit" else Tag
    ref = ref_commit if kind == "commit" else ref_tag
    fields_of = commit_fields_of if kind == "commit" else tag_fields_of
    noblank = b"\n\n" not in raw and not raw.startswith(b"\n")
    klass = "missing-message-no-blank-line" if noblank else None
    o = cls.from_string(raw)
    case0 = {"kind": kind, "raw": hx(raw)}
    if o.as_raw_string() != raw or o.id != sha_hex("sha1", kind, raw):
        ctx.oracle_fail(stream or f"{kind}.unchanged", {**case0, "replay": {"op": "touch", "kind": kind, "raw": hx(raw)}},
                        "parsed object does not give back its bytes / id", None)
    attr = (attrs or [None])[0] or rng.choice(TOUCH[kind])
    case = {**case0, "attr": attr, "replay": {"op": "touch", "kind": kind, "raw": hx(raw), "attrs": [attr, None]}}
    o = cls.from_string(raw)
    setattr(o, attr, getattr(o, attr))
    got = try_raw(o)
    ctx.count(f"{kind}.touch", (raw, attr), True, attr + (":nomessage" if noblank else ""))
    if got != "ok " + hx(raw):
        ctx.oracle_fail(stream or f"{kind}.touch", case,
                        f"assigning {attr} its own value and re-serialising changes bytes: ...{unhx(got[3:])[-60:]!r} vs ...{raw[-60:]!r}"
                        if got.startswith("ok ") else f"assigning {attr} its own value: {got}", klass)
    # (c) a real change
    o = cls.from_string(raw)
    f = fields_of(o)
    attr = (attrs or [None, None])[1] or rng.choice(["message" if not noblank else ("author" if kind == "commit" else "name"),
                                                     "author" if kind == "commit" else "name",
                                                     "commit_time" if kind == "commit" else "tag_time"])
    newv = {"message": b"changed\n", "author": b"New <n@n>", "name": b"newname", "commit_time": 42, "tag_time": 42}[attr]
    if attr == "tag_time" and f["tagger"] is None:
        return
    case = {**case0, "attr": attr, "replay": {"op": "touch", "kind": kind, "raw": hx(raw), "attrs": [None, attr]}}
    setattr(o, attr, newv)
    f2 = dict(f)
    f2[attr] = newv
    want = ref(f2)
    if noblank:
        want = want[:-1]
    got = try_raw(o)
    if got != "ok " + hx(want):
        ctx.oracle_fail(stream or f"{kind}.edit", case, f"after changing {attr}: {got[:200]} expected {hx(want)[:200]}", klass)
    elif o.id != sha_hex("sha1", kind, want):
        ctx.oracle_fail(stream or f"{kind}.edit", case, "id after edit is not the hash of the new bytes", klass)


# ------------------------------------------------------------------------------------------------
# setter sequences on live objects (the cache state machine)

def _coarse(s: str) -> str:
    return "err" if s.startswith("err") else s


def _id_or_none(obj):
    try:
        return obj.id.decode()
    except Exception:  # noqa: BLE001
        return None


def _raw_or_none(obj):
    try:
        return obj.as_raw_string()
    except Exception:  # noqa: BLE001
        return None


def _edit_ops_commit(rng, f):
    """One random public-setter edit: (attr, value, updater on the field dict)."""
    attr = rng.choice(TOUCH["commit"])
    if attr == "tree":
        v = gen_hex(rng)
    elif attr == "parents":
        v = [gen_hex(rng) for _ in range(rng.randint(0, 3))]
    elif attr in ("author", "committer"):
        v = gen_ident(rng)
    elif attr == "message":
        v = gen_message(rng)
    elif attr in ("commit_time", "author_time"):
        v = gen_time(rng)
    elif attr in ("commit_timezone", "author_timezone"):
        v = rng.choice(TZ_CANON)
    elif attr == "encoding":
        v = rng.choice([None, b"latin1"])
    elif attr == "mergetag":
        v = [] if rng.random() < 0.5 else [ref_tag(gen_tag_fields(rng, "git"))]
        v = [m if (m.endswith(b"\n") or rng.random() < 0.5) else m + b"\n" for m in v]
    else:
        v = rng.choice([None, gen_pgp(rng)])
    return attr, v


def _edit_ops_tag(rng, f):
    attr = rng.choice(TOUCH["tag"])
    if attr == "name":
        v = gen_word(rng, 1, 10)
    elif attr == "tagger":
        v = gen_ident(rng)
    elif attr == "tag_time":
        v = gen_time(rng)
    elif attr == "tag_timezone":
        v = rng.choice(TZ_CANON)
    elif attr == "message":
        v = gen_message(rng)
        if f["signature"] and not v.endswith(b"\n"):
            v += b"\n"
    elif attr == "signature":
        v = rng.choice([None, gen_pgp(rng) + b"\n"])
    else:
        v = (rng.choice([b"commit", b"tree", b"blob", b"tag"]), gen_hex(rng))
    return attr, v


def _sticky_neg(kind, f) -> bool:
    if kind == "commit":
        return bool((f["author_neg"] and f["author_timezone"] != 0) or (f["commit_neg"] and f["commit_timezone"] != 0))
    if kind == "tag":
        return bool(f["tag_neg"] and f["tag_timezone"] not in (0, None))
    return False


def _logical(kind, f):
    """The logical values a user can express: the neg-utc flag only distinguishes -0000 from +0000."""
    g = dict(f)
    if kind == "commit":
        g["author_neg"] = bool(g["author_neg"]) and g["author_timezone"] == 0
        g["commit_neg"] = bool(g["commit_neg"]) and g["commit_timezone"] == 0
    elif kind == "tag":
        g["tag_neg"] = bool(g["tag_neg"]) and g["tag_timezone"] == 0
    return g


RAW_HOWS = ["string", "chunks", "verify", "sha", "rebind_string", "rebind_chunks"]


def _split_chunks(raw: bytes):
    """deterministic chunking of raw content (both live objects of a sequence must see the same call)"""
    if len(raw) < 2:
        return [raw]
    a, b = len(raw) // 3, (2 * len(raw)) // 3
    return [c for c in (raw[:a], raw[a:b], raw[b:]) if c or True]


def _raw_replace(kind, obj, raw: bytes, how: str):
    """Replace the whole content through one of the RAW paths of the public API.  Returns the live object (a new
    one for the from_raw_* paths)."""
    import dulwich.objects as O
    if how == "string":
        obj.set_raw_string(raw)
    elif how == "chunks":
        obj.set_raw_chunks(_split_chunks(raw))
    elif how == "verify":          # checked against the contents, then cached
        obj.set_raw_string(raw, verify_sha=sha_hex("sha1", kind, raw))
    elif how == "sha":             # trusted (and correct) id supplied by the caller, cached unchecked
        obj.set_raw_string(raw, sha_hex("sha1", kind, raw))
    elif how == "rebind_string":   # from_raw_string-then-replace: the sequence continues on the new object
        obj = O.ShaFile.from_raw_string(TYPE_NUM[kind], raw)
    elif how == "rebind_chunks":
        obj = O.ShaFile.from_raw_chunks(TYPE_NUM[kind], _split_chunks(raw))
    else:
        raise AssertionError(how)
    return obj


def _apply_op(kind, obj, f, op, ref):
    """Apply one op to the live object and to the field record.  Returns (obj, f, step record, mutation label,
    raw content if the op replaced the content through a raw path)."""
    import dulwich.objects as O
    what = op[0]
    if what == "set":
        _, attr, v = op
        if kind == "tag" and attr == "object":
            obj.object = (O.object_class(v[0]), v[1])
            f["object_type"], f["object_sha"] = v
        elif kind == "commit" and attr == "mergetag":
            obj.mergetag = [O.Tag.from_string(m) for m in v]
            f["mergetag"] = list(v)
        else:
            setattr(obj, attr, v)
            f[attr] = v
        return obj, f, ("S", type(obj).__name__, attr, dict(f)), "set:" + attr, None
    if what == "setraw":
        how = op[2] if len(op) > 2 else "string"
        if kind == "blob":
            f = raw = bytes(op[1])
        else:
            f = dict(op[1])
            raw = ref(f) if kind in ("commit", "tag") else ref_tree([(n, m, h) for n, (m, h) in f.items()])
        obj = _raw_replace(kind, obj, raw, how)
        return obj, f, ("W", raw), "setraw:" + how, raw
    if what in ("add", "setitem"):
        _, n, m, h = op
        if what == "add":
            obj.add(n, m, h)
        else:
            obj[n] = (m, h)
        f[n] = (m, h)
        return obj, f, ("S", "Tree", "add" if what == "add" else "__setitem__", dict(f)), what, None
    if what == "del":
        del obj[op[1]]
        del f[op[1]]
        return obj, f, ("S", "Tree", "__delitem__", dict(f)), "del", None
    if what == "data":
        obj.data = op[1]
        return obj, op[1], ("S", "Blob", "data", op[1]), "data", None
    if what == "chunked":
        obj.chunked = list(op[1])
        return obj, b"".join(op[1]), ("S", "Blob", "chunked", b"".join(op[1])), "chunked", None
    if what == "id":
        return obj, f, ("I", _id_or_none(obj)), None, None
    if what == "raw":
        return obj, f, ("R", _raw_or_none(obj)), None, None
    raise AssertionError(op)


# query disciplines of the oracle run: which ids are requested before / after every op
DISCIPLINES = ["id", "sha1-explicit", "sha256-before-after", "sha256-twice-then-sha1", "alternate", "sha-objects"]


def _ask(obj, which):
    """One id request: '.id', explicit get_id(fmt), or sha(fmt).hexdigest()."""
    from dulwich.object_format import SHA1, SHA256
    try:
        if which == "id":
            return "sha1", obj.id
        if which == "1":
            return "sha1", obj.get_id(SHA1)
        if which == "256":
            return "sha256", obj.get_id(SHA256)
        if which == "s1":
            return "sha1", obj.sha(SHA1).hexdigest().encode()
        if which == "s256":
            return "sha256", obj.sha(SHA256).hexdigest().encode()
        if which == "s":
            return "sha1", obj.sha().hexdigest().encode()
    except Exception as e:  # noqa: BLE001
        return which, _Raised(e)
    raise AssertionError(which)


def _queries(discipline: str, i: int):
    """(before, after) request lists for step i."""
    if discipline == "id":
        return [], ["id"]
    if discipline == "sha1-explicit":
        return ["1"], ["1"]
    if discipline == "sha256-before-after":
        return ["256"], ["256"]
    if discipline == "sha256-twice-then-sha1":
        return [], ["256", "256", "1"]
    if discipline == "alternate":
        return [], (["256"] if i % 2 == 0 else ["1"])
    if discipline == "sha-objects":
        return ["s256"], ["s256", "s256", "s"]
    raise AssertionError(discipline)


def _sequence_gen(ctx, kind, seq, stream="edits"):
    """(coroutine: yields lists of driver lines, receives their outputs)
    seq: {"init": fields, "ops": [...]}.  Ops: ["set", attr, value] | ["id"] | ["raw"] | ["setraw", fields]
    (blob: ["data", bytes] | ["chunked", [bytes]]; tree: ["add", n, m, h] | ["setitem", ...] | ["del", n]).
    Two live objects run the same ops: on the first only the generated id/raw reads happen and are compared
    with the model's machine; on the second the oracle looks after every step."""
    import dulwich.objects as O
    rs_sort = "built" in repr(O.sorted_tree_items)
    tokens = {"commit": commit_tokens, "tag": tag_tokens}.get(kind)
    build = {"commit": build_commit, "tag": build_tag}.get(kind)
    ref = {"commit": ref_commit, "tag": ref_tag}.get(kind)

    def new_obj():
        if kind == "blob":
            return O.Blob(), b""
        if kind == "tree":
            return O.Tree(), {}
        return build(seq["init"]), dict(seq["init"])

    def ser_line(f):
        if kind in ("commit", "tag"):
            return f"c01.{kind}.ser {tokens(f)}"
        return f"c01.tree.ser {'rs' if rs_sort else 'py'} {lst(ent(n, m, h) for n, (m, h) in f.items())}"

    def fresh(f):
        if kind in ("commit", "tag"):
            return build(_logical(kind, f))
        if kind == "tree":
            t = O.Tree()
            for n, (m, h) in sorted(f.items()):
                t.add(n, m, h)
            return t
        b = O.Blob()
        b.data = f
        return b

    # ---- run 2 (oracle after every step; ids requested per the sequence's query discipline, BEFORE as_raw_string)
    obj, f = new_obj()
    last_mut, setraw_content = "init", None
    discipline = seq.get("discipline") or "id"
    expect_raw = None      # what as_raw_string() returned after the previous step
    for i, op in enumerate(seq["ops"]):
        case = {"kind": kind, "init": seq.get("init_repr"), "discipline": discipline,
                "ops": [repr(o) for o in seq["ops"][: i + 1]],
                "replay": {"op": "seq", "kind": kind, "seq": _seq_to_json(seq, i + 1)}}
        before, after = _queries(discipline, i)
        bad = None
        for q in before:
            algo, got = _ask(obj, q)
            if expect_raw is not None and got != sha_hex(algo, kind, expect_raw):
                bad = f"before op {i} ({op[0]}): {q} request gives {got!r}, expected {sha_hex(algo, kind, expect_raw)!r}"
        try:
            obj, f, _, mut, rawc = _apply_op(kind, obj, f, op, ref)
        except Exception as e:  # noqa: BLE001
            ctx.oracle_fail(stream, case, f"operation with valid values raised {type(e).__name__}: {e}", None)
            return
        if mut is not None:
            last_mut, setraw_content = mut, rawc
        cls_ = None
        if kind == "blob" and last_mut == "chunked":
            cls_ = "blob-chunked-setter"
        elif isinstance(f, dict) and _sticky_neg(kind, f) and last_mut.endswith("timezone"):
            cls_ = "neg-utc-flag-kept-for-nonzero-timezone"
        if bad:
            ctx.oracle_fail(stream, case, bad, None)
            break
        asked = [_ask(obj, q) + (q,) for q in after]          # ids first: as_raw_string() must not be needed to refresh them
        got_raw = _raw_or_none(obj)
        if got_raw is None or any(isinstance(g, _Raised) for _, g, _ in asked):
            ctx.oracle_fail(stream, case, f"object with valid field values cannot be serialised / named after {last_mut}", None)
            break
        stale = [(q, g, sha_hex(a, kind, got_raw)) for a, g, q in asked if g != sha_hex(a, kind, got_raw)]
        if stale:
            q, g, w = stale[0]
            ctx.oracle_fail(stream, case, f"after {last_mut}: {q} request gives {g!r}, which is not the hash of "
                                          f"header+as_raw_string() ({w!r})", cls_)
            break
        try:
            fr = fresh(f) if setraw_content is None else O.ShaFile.from_raw_string(TYPE_NUM[kind], setraw_content)
            want_raw = fr.as_raw_string()
            fresh_ids = {"sha1": fr.id, "sha256": fr.get_id(__import__("dulwich.object_format", fromlist=["SHA256"]).SHA256)}
        except Exception as e:  # noqa: BLE001
            ctx.oracle_fail(stream, case, f"a fresh object with the same values cannot be built: {type(e).__name__}: {e}", None)
            break
        if got_raw != want_raw:
            ctx.oracle_fail(stream, case, f"after {last_mut}: bytes differ from a freshly built object with the same values: "
                                          f"{got_raw[:120]!r} vs {want_raw[:120]!r}", cls_)
            break
        diff = [(q, g) for a, g, q in asked if g != fresh_ids[a]]
        if diff:
            ctx.oracle_fail(stream, case, f"after {last_mut}: {diff[0][0]} request gives {diff[0][1]!r}, a freshly built object "
                                          f"with the same values is named differently", cls_)
            break
        expect_raw = got_raw
    # ---- run 1 (only the generated reads) against the model's machine
    obj, f = new_obj()
    steps = []
    if kind in ("commit", "tag"):
        steps.append(("S", type(obj).__name__, "message", dict(f)))     # the state after the initial setters
    for op in seq["ops"]:
        try:
            obj, f, st, _, _ = _apply_op(kind, obj, f, op, ref)
        except Exception:  # noqa: BLE001  (already reported by the oracle run above)
            return
        steps.append(st)
    ser_states = []
    for st in steps:
        if st[0] == "S" and kind != "blob":
            ser_states.append(ser_line(st[3]))
        elif st[0] == "W" and kind != "blob":
            ser_states.append(f"c01.{kind}.reser {hx(st[1])}" if kind != "tree" else
                              f"c01.tree.parse {'rs' if rs_sort else 'py'}dict 20 {hx(st[1])}")
    kinds_needed = sorted({(st[1], st[2]) for st in steps if st[0] == "S"})
    outs = yield ser_states + [f"c01.setterkind {c} {a}" for c, a in kinds_needed]
    kindmap = dict(zip(kinds_needed, outs[len(ser_states):]))
    outs = list(outs[: len(ser_states)])
    # second hop for trees: serialise the dict the model parsed out of set_raw_string's bytes
    hop = [i for i, st in enumerate([st for st in steps if st[0] in ("S", "W") and kind != "blob"])
           if st[0] == "W" and kind == "tree" and outs[i].startswith("ok ")]
    outs2 = yield [f"c01.tree.ser {'rs' if rs_sort else 'py'} {outs[i][3:]}" for i in hop]
    for i, o in zip(hop, outs2):
        outs[i] = o
    if kind == "tree":
        outs = [o if (o.startswith("ok ") or steps_kind != "W") else "perr" for o, steps_kind in
                zip(outs, [st[0] for st in steps if st[0] in ("S", "W")])]
    it = iter(outs)
    toks = []
    for st in steps:
        if st[0] == "S":
            k = kindmap[(st[1], st[2])]
            if k == "none":
                ctx.disagree(stream, {"setter": list(st[1:3])}, "setter not in the translator's table", "exists")
                return
            if kind == "blob":
                toks.append(f"S:{k}:{hx(st[3])}")
            else:
                o = next(it)
                toks.append(f"S:{k}:{o[3:] if o.startswith('ok ') else '~'}")
        elif st[0] == "W":
            if kind == "blob":
                toks.append(f"W:{hx(st[1])}:{hx(st[1])}")
            else:
                o = next(it)
                toks.append(f"W:{hx(st[1])}:" + (o[3:] if o.startswith("ok ") else ("!" if o.startswith("perr") else "~")))
        else:
            toks.append(st[0])
    mline = f"c01.machine {'blob' if kind == 'blob' else 'other'} {TYPE_NUM[kind]} " + " ".join(toks)
    mout = (yield [mline])[0]
    mvals = [] if mout == "." else mout.split(" ")
    obs = [st for st in steps if st[0] in ("I", "R")]
    case = {"kind": kind, "ops": [repr(o) for o in seq["ops"]][:14], "line": mline[:400]}
    if len(mvals) != len(obs):
        ctx.disagree(stream, case, mout[:200], f"{len(obs)} observations")
        return
    for mv, st in zip(mvals, obs):
        if st[0] == "I":
            m_id = None if mv == "~" else hashlib.sha1(unhx(mv)).hexdigest()
            if m_id != st[1]:
                ctx.disagree(stream, case, f"id {m_id}", f"id {st[1]}")
                return
        else:
            m_raw = None if mv == "~" else unhx(mv)
            if m_raw != st[1]:
                ctx.disagree(stream, case, f"raw {mv[:120]}", f"raw {ob(st[1])[:120]}")
                return


def _run_sequence(ctx, kind, seq, stream="edits"):
    _run_sequences(ctx, [(kind, seq)], stream)


def _run_sequences(ctx, items, stream="edits"):
    """Drive many `_sequence_gen` coroutines in lockstep so that the model is asked in three batches."""
    gens = []
    for kind, seq in items:
        g = _sequence_gen(ctx, kind, seq, stream)
        try:
            req = next(g)
            gens.append([g, req])
        except StopIteration:
            pass
    while gens:
        lines = [ln for _, req in gens for ln in req]
        outs = ctx.driver.batch(lines) if lines else []
        pos, nxt = 0, []
        for g, req in gens:
            part = outs[pos: pos + len(req)]
            pos += len(req)
            try:
                nxt.append([g, g.send(part)])
            except StopIteration:
                pass
        gens = nxt


def _j(v):
    """JSON-able encoding of op values (bytes -> {"b": hex})."""
    if isinstance(v, bytes):
        return {"b": v.hex()}
    if isinstance(v, (list, tuple)):
        return [_j(x) for x in v]
    if isinstance(v, dict):
        return {"d": [[_j(k), _j(x)] for k, x in v.items()]}
    return v


def _uj(v):
    if isinstance(v, dict) and "b" in v:
        return bytes.fromhex(v["b"])
    if isinstance(v, dict) and "d" in v:
        return {_uj(k) if not isinstance(_uj(k), list) else tuple(_uj(k)): (_uj(x) if not isinstance(_uj(x), list) else _uj(x))
                for k, x in v["d"]}
    if isinstance(v, list):
        return [_uj(x) for x in v]
    return v


def _seq_to_json(seq, upto=None):
    return {"init": _j(seq["init"]), "ops": [_j(o) for o in seq["ops"][:upto]], "discipline": seq.get("discipline")}


def _seq_from_json(kind, d):
    init = _uj(d["init"])
    ops = []
    for o in d["ops"]:
        o = _uj(o)
        if o[0] in ("add", "setitem"):
            o = [o[0], o[1], o[2], o[3]]
        if o[0] == "setraw" and kind == "tree":
            o = ["setraw", {k: tuple(v) for k, v in o[1].items()}] + list(o[2:])
        if o[0] == "set" and o[1] == "object":
            o = ["set", "object", tuple(o[2])]
        ops.append(o)
    if isinstance(init, dict) and "extra" in init:
        init["extra"] = [tuple(x) for x in init["extra"]]
    for o in ops:
        if o[0] == "setraw" and isinstance(o[1], dict) and "extra" in o[1]:
            o[1]["extra"] = [tuple(x) for x in o[1]["extra"]]
    return {"init": init, "init_repr": repr(init)[:200], "ops": ops, "discipline": d.get("discipline")}


def gen_sequence(rng, kind):
    """Random op sequence on one live object.  Besides the public setters the alphabet has, for every class, the
    RAW replacement paths (set_raw_string, set_raw_chunks, verify_sha=, trusted sha=, from_raw_string/from_raw_chunks
    then continue on the new object; for blobs also `data =`), and each sequence fixes a query discipline for ids."""
    ops = []
    n = rng.randint(2, 12)
    discipline = rng.choice(DISCIPLINES)
    how = lambda: rng.choice(RAW_HOWS)          # noqa: E731
    if kind == "blob":
        for _ in range(n):
            k = rng.random()
            if k < 0.2:
                ops.append(["data", rng.randbytes(rng.choice([0, 1, 5, 40]))])
            elif k < 0.4:
                data = rng.randbytes(rng.choice([0, 1, 5, 40]))
                cuts = sorted(rng.randrange(len(data) + 1) for _ in range(rng.randint(0, 3)))
                chunks = [data[a:b] for a, b in zip([0] + cuts, cuts + [len(data)])]
                ops.append(["chunked", chunks])
            elif k < 0.65:
                ops.append(["setraw", rng.randbytes(rng.choice([0, 1, 5, 40])), how()])
            elif k < 0.88:
                ops.append(["id"])
            else:
                ops.append(["raw"])
        return {"init": None, "init_repr": "Blob()", "ops": ops, "discipline": discipline}
    if kind == "tree":
        names = []
        for _ in range(n):
            k = rng.random()
            if k < 0.35 or not names:
                nm = gen_name(rng)
                if b"/" in nm or b"\0" in nm or not nm:
                    nm = b"n%d" % rng.randrange(5)
                ops.append([rng.choice(["add", "setitem"]), nm, rng.choice(MODES), gen_hex(rng)])
                if nm not in names:
                    names.append(nm)
            elif k < 0.45:
                nm = rng.choice(names)
                names.remove(nm)
                ops.append(["del", nm])
            elif k < 0.65:
                es = gen_tree_entries(rng, "sha1", git_clean=True)
                ops.append(["setraw", {a: (b, c) for a, b, c in es}, how()])
                names = [a for a, _, _ in es]
            elif k < 0.9:
                ops.append(["id"])
            else:
                ops.append(["raw"])
        return {"init": None, "init_repr": "Tree()", "ops": ops, "discipline": discipline}
    gen = gen_commit_fields if kind == "commit" else gen_tag_fields
    edit = _edit_ops_commit if kind == "commit" else _edit_ops_tag

    def full(g):
        if kind == "tag" and g["tagger"] is None:
            g["tagger"], g["tag_time"], g["tag_timezone"], g["tag_neg"] = b"T <t@t>", 1, 0, False
        return g
    f = full(gen(rng, "canon"))
    cur = dict(f)
    if rng.random() < 0.4:
        ops.append(["setraw", dict(f), how()])        # start from parsed canonical bytes instead of setters only
    for _ in range(n):
        k = rng.random()
        if k < 0.45:
            attr, v = edit(rng, cur)
            ops.append(["set", attr, v])
            if attr == "object":
                cur["object_type"], cur["object_sha"] = v
            else:
                cur[attr] = v
        elif k < 0.62:
            g = full(gen(rng, "canon"))
            ops.append(["setraw", g, how()])
            cur = dict(g)
        elif k < 0.9:
            ops.append(["id"])
        else:
            ops.append(["raw"])
    return {"init": f, "init_repr": {k: repr(v) for k, v in f.items()}, "ops": ops, "discipline": discipline}


# ------------------------------------------------------------------------------------------------
# one live object re-filled from new bytes

def _refill_pool(rng, kind):
    """Texts of one type covering all subsets of the optional parts: list of (fields | None, text)."""
    import itertools
    pool = []
    if kind == "tag":
        for tagger, negz, msg, sig in itertools.product([True, False], [False, True], ["text", "empty", "missing"], [None, "PGP", "SSH"]):
            if (negz and not tagger) or (sig and msg == "missing"):
                continue
            f = gen_tag_fields(rng, "git")
            f["signature"] = None
            f["object_sha"] = rng.randbytes(20).hex().encode()
            if tagger:
                f["tag_timezone"], f["tag_neg"] = (0, True) if negz else (rng.choice([3600, -16200, 0]), False)
            else:
                f["tagger"], f["tag_time"], f["tag_timezone"], f["tag_neg"] = None, None, None, False
            f["message"] = {"text": b"release notes\n", "empty": b"", "missing": None}[msg]
            if sig:
                f["signature"] = gen_pgp(rng, sig) + b"\n"
            text = ref_tag(f) if msg != "missing" else ref_tag(f)[:-1]
            pool.append((f, text))
    elif kind == "commit":
        for np, enc, mt, ex, sig, msg, negz in itertools.product([0, 1, 2], [False, True], [False, True], [False, True],
                                                                  [False, True], ["text", "empty", "missing"], [False, True]):
            if rng.random() < 0.6:
                continue                     # a random third of the 288 combinations per run
            f = gen_commit_fields(rng, "git")
            f["tree"] = rng.randbytes(20).hex().encode()
            f["parents"] = [rng.randbytes(20).hex().encode() for _ in range(np)]
            f["encoding"] = rng.choice([b"ISO-8859-1", b"latin1"]) if enc else None
            f["mergetag"] = [ref_tag(gen_tag_fields(rng, "git"))] if mt else []
            f["mergetag"] = [m if m.endswith(b"\n") else m + b"\n" for m in f["mergetag"]]
            f["extra"] = [(b"HG:extra", b"a\nb"), (b"x-foo", b"1")] if ex else []
            f["gpgsig"] = gen_pgp(rng, "PGP") if sig else None
            f["message"] = {"text": b"subject\n\nbody\n", "empty": b"", "missing": None}[msg]
            if negz:
                f["author_timezone"], f["author_neg"], f["commit_timezone"], f["commit_neg"] = 0, True, 0, True
            else:
                f["author_neg"] = f["commit_neg"] = False
                f["author_timezone"], f["commit_timezone"] = rng.choice([3600, 19800]), rng.choice([0, -25200])
            text = ref_commit(f) if msg != "missing" else ref_commit(f)[:-1]
            pool.append((f, text))
    elif kind == "tree":
        for n in (0, 1, 2, 5, 9):
            for _ in range(3):
                es = gen_tree_entries(rng, "sha1", n=n, git_clean=True)
                pool.append((es, ref_tree(es)))
    else:
        for n in (0, 1, 7, 300):
            for _ in range(3):
                d = rng.randbytes(n)
                pool.append((d, d))
    return pool


REFILL_HOWS = ["string", "chunks", "verify", "sha"]


def _obj_view(kind, o):
    """every value a caller can read from the object, incl. the private timezone-flag attributes"""
    if kind == "commit":
        v = commit_fields_of(o)
        v["getters"] = [repr(_try(getattr, o, a)) for a in TOUCH["commit"] if a != "mergetag"]
        return v
    if kind == "tag":
        v = tag_fields_of(o)
        v["getters"] = [repr(_try(getattr, o, a)) for a in TOUCH["tag"]]
        return v
    if kind == "tree":
        return {"entries": sorted(o._entries.items()), "items": [tuple(e) for e in o.items()], "len": len(o)}
    return {"data": o.data, "chunked": b"".join(o.chunked)}


def _refill_case(ctx, kind, t1: bytes, t2: bytes, f2, how, pre_edit, discipline, stream="refill"):
    """ONE live object parsed from t1 (getters read, maybe a field edited, ids asked), re-filled on the same instance
    from t2; the oracle is a FRESH object parsed from t2."""
    import dulwich.objects as O
    cls = {"commit": O.Commit, "tag": O.Tag, "tree": O.Tree, "blob": O.Blob}[kind]
    case = {"kind": kind, "t1": hx(t1), "t2": hx(t2), "how": how, "pre_edit": pre_edit, "discipline": discipline,
            "replay": {"op": "refill", "kind": kind, "t1": hx(t1), "t2": hx(t2), "how": how, "pre_edit": pre_edit,
                       "discipline": discipline}}
    edit_attr = {"commit": "author", "tag": "name"}.get(kind)
    try:
        o = cls.from_string(t1)
        _obj_view(kind, o)                                   # getters read
        if pre_edit and kind == "commit":
            o.encoding = b"x-pre-edit"
            o.gpgsig = b"-----BEGIN PGP SIGNATURE-----\npre\n-----END PGP SIGNATURE-----"
        elif pre_edit and kind == "tag":
            o.tagger, o.tag_time, o.tag_timezone = b"Pre Edit <p@e>", 7, 3600
            o.signature = b"-----BEGIN PGP SIGNATURE-----\npre\n-----END PGP SIGNATURE-----\n"
        elif pre_edit and kind == "tree":
            o.add(b"pre-edit", 0o100644, b"1" * 40)
        elif pre_edit:
            o.chunked = [b"pre", b"edit"]
        before, after = _queries(discipline, 0)
        for q in before + after:
            _ask(o, q)
        o = _raw_replace(kind, o, t2, how)                    # same instance for every how in REFILL_HOWS
        asked = [_ask(o, q) + (q,) for q in after]
        fresh = cls.from_string(t2)
        got, want = _obj_view(kind, o), _obj_view(kind, fresh)
        if got != want:
            diff = [k for k in want if got.get(k) != want[k]]
            ctx.oracle_fail(stream, case, f"after re-filling from new bytes the object differs from a fresh object parsed from the "
                                          f"same bytes in {diff}: {[(got.get(k), want[k]) for k in diff][:2]!r}"[:600], None)
            return None
        raw = o.as_raw_string()
        if raw != t2:
            ctx.oracle_fail(stream, case, f"as_raw_string() after the re-fill is not the new text: {raw[-80:]!r}", None)
            return None
        bad = [(q, g) for a, g, q in asked if g != sha_hex(a, kind, t2)] + \
              [(q, g) for q in after for a, g in [_ask(o, q)] if g != sha_hex(a, kind, t2)]
        if bad:
            ctx.oracle_fail(stream, case, f"id after the re-fill ({bad[0][0]} request) is {bad[0][1]!r}, not the hash of the new text", None)
            return None
        view = got
        # one field edit: only that field may differ from the new text
        if edit_attr:
            newv = b"Edited <e@d>" if kind == "commit" else b"edited-name"
            setattr(o, edit_attr, newv)
            setattr(fresh, edit_attr, newv)
            r1, r2 = o.as_raw_string(), fresh.as_raw_string()
            if r1 != r2:
                ctx.oracle_fail(stream, case, f"after editing {edit_attr} the re-filled object serialises differently from a fresh one: "
                                              f"{r1[:200]!r} vs {r2[:200]!r}", None)
                return None
            if f2 is not None and f2.get("message") is not None:
                g2 = dict(f2)
                g2[edit_attr] = newv
                want_raw = (ref_commit if kind == "commit" else ref_tag)(g2)
                if r1 != want_raw:
                    ctx.oracle_fail(stream, case, f"after editing {edit_attr} more than that field differs from the new text: "
                                                  f"{r1[:200]!r} vs {want_raw[:200]!r}", None)
                    return None
            if o.id != sha_hex("sha1", kind, r1):
                ctx.oracle_fail(stream, case, "id after the edit is not the hash of the bytes", None)
                return None
        return view
    except Exception as e:  # noqa: BLE001
        ctx.oracle_fail(stream, case, f"real code raised on well-formed texts: {type(e).__name__}: {e}", None)
        return None


def _stream_refill(ctx):
    rng = ctx.rng
    git_samples = {}
    for kind in ("tag", "commit", "tree", "blob"):
        pool = _refill_pool(rng, kind)
        n = ctx.budget(400 if kind in ("tag", "commit") else 80) * BOOST
        pairs = []
        if kind == "tag":                     # small pool: every ordered pair, systematically
            pairs = [(a, b) for a in pool for b in pool if a is not b]
            rng.shuffle(pairs)
            pairs = pairs[: max(n, 300)]
        else:
            for _ in range(n):
                pairs.append((rng.choice(pool), rng.choice(pool)))
        lines, meta = [], []
        for (f1, t1), (f2, t2) in pairs:
            how, pre_edit, disc = rng.choice(REFILL_HOWS), rng.random() < 0.4, rng.choice(DISCIPLINES)
            opt = lambda f: (("T" if f.get("tagger") else "-") + ("Z" if f.get("tag_neg") else "-") + ("S" if f.get("signature") else "-") +   # noqa: E731
                             ("m" if f.get("message") is None else "M")) if kind == "tag" else \
                (f"p{len(f['parents'])}" + "".join(c if f[k] else "-" for c, k in (("E", "encoding"), ("G", "mergetag"), ("X", "extra"), ("S", "gpgsig")))
                 + ("Z" if f["author_neg"] else "-") + ("m" if f["message"] is None else "M")) if kind == "commit" else "-"
            ctx.count("refill", (kind, t1, t2, how, pre_edit, disc), True,
                      f"{kind}:{opt(f1)}->{opt(f2)}" if kind == "tag" else f"{kind}:{how}")
            view = _refill_case(ctx, kind, t1, t2, f2 if isinstance(f2, dict) else None, how, pre_edit, disc)
            if view is not None and kind in ("tag", "commit") and not pre_edit:
                lines.append(f"c01.tag.refill {hx(t1)} {hx(t2)}" if kind == "tag" else f"c01.commit.deser {hx(t2)}")
                view = {k: v for k, v in view.items() if k != "getters"}
                meta.append((t1, t2, "ok " + (tag_tokens(view) if kind == "tag" else commit_tokens(view))))
            if view is not None and len(git_samples.setdefault(kind, [])) < 12:
                git_samples[kind].append(t2)
        for (t1, t2, real), m in zip(meta, ctx.driver.batch(lines)):
            _cmp(ctx, "refill.model", {"kind": kind, "t1": hx(t1), "t2": hx(t2)}, m, real)
    # C git names the new texts like the re-filled objects do (their ids were compared with hashlib above)
    repo = ctx.scratch / "git-refill"
    out, err = _git(ctx, ctx.scratch, ["init", "-q", str(repo)])
    if out is None:
        raise core.InfraError(f"git init failed: {err}")
    for kind, texts in git_samples.items():
        d = ctx.scratch / f"refill-{kind}"
        d.mkdir(exist_ok=True)
        files = []
        for i, t in enumerate(texts):
            (d / str(i)).write_bytes(t)
            files.append(str(d / str(i)))
        out, err = _git(ctx, repo, ["hash-object", "-t", kind, "--stdin-paths"], ("\n".join(files) + "\n").encode())
        ids = out.decode().split() if out is not None else None
        for t, gi in zip(texts, ids or []):
            ctx.count("refill.git", (kind, t), True, kind)
            if gi != sha_hex("sha1", kind, t).decode():
                ctx.oracle_fail("refill.git", {"kind": kind, "text": hx(t)}, f"git hash-object names the text {gi}", None)
        if ids is None:
            ctx.oracle_fail("refill.git", {"kind": kind}, f"git rejects a pool text: {err[:200]}", None)


def _stream_verify(ctx):
    """The paths of the public API that take an expected id (`verify_sha=` on set_raw_string / set_raw_chunks /
    from_raw_string, checked; `sha=`, trusted, checked later by check()): the right id is accepted and is the id
    afterwards, a wrong one is rejected — both algorithms, every class, also on a live object whose previous content
    had been named before (so that a stale cache would make the verification pass or fail wrongly)."""
    import dulwich.objects as O
    from dulwich.errors import ChecksumMismatch
    from dulwich.object_format import SHA1, SHA256
    rng = ctx.rng
    fmts = {"sha1": SHA1, "sha256": SHA256}

    def content(kind, algo):
        if kind == "blob":
            return rng.randbytes(rng.choice([0, 1, 20]))
        if kind == "tree":
            return ref_tree(gen_tree_entries(rng, algo, git_clean=True))
        if kind == "commit":
            return ref_commit(gen_commit_fields(rng, "git", algo))
        return ref_tag(gen_tag_fields(rng, "git", algo))

    def rejects(fn):
        try:
            fn()
        except ChecksumMismatch:
            return True
        except Exception as e:  # noqa: BLE001
            return _Raised(e)
        return False
    for i in range(ctx.budget(120)):
        kind = ("blob", "tree", "commit", "tag")[i % 4]
        algo = ("sha1", "sha256")[(i // 4) % 2]
        fmt = fmts[algo]
        old, new = content(kind, algo), content(kind, algo)
        right, wrong_old = sha_hex(algo, kind, new), sha_hex(algo, kind, old)
        wrong = wrong_old if old != new else (b"0" * len(right))
        tn = TYPE_NUM[kind]
        case = {"kind": kind, "algo": algo, "old": hx(old), "new": hx(new)}
        ctx.count("verify", (kind, algo, old, new), True, f"{kind}:{algo}")

        def live():
            """a live object holding `old`, already named in this format (twice) — then the content is replaced"""
            o = O.ShaFile.from_raw_string(tn, old, object_format=fmt)
            o.get_id(fmt), o.get_id(fmt), o.id
            return o
        problems = []
        # from_raw_string(verify_sha=)
        o = _try(O.ShaFile.from_raw_string, tn, new, object_format=fmt, verify_sha=right)
        if isinstance(o, _Raised) or o.get_id(fmt) != right or o.as_raw_string() != new:
            problems.append(f"from_raw_string(verify_sha=right) -> {o!r}")
        r = rejects(lambda: O.ShaFile.from_raw_string(tn, new, object_format=fmt, verify_sha=wrong))
        if r is not True:
            problems.append(f"from_raw_string(verify_sha=wrong) not rejected: {r!r}")
        # set_raw_chunks / set_raw_string(verify_sha=) on a live, already named object
        o = live()
        r = _try(o.set_raw_chunks, _split_chunks(new), object_format=fmt, verify_sha=right)
        if isinstance(r, _Raised) or o.get_id(fmt) != right or o.get_id(fmt) != right or o.as_raw_string() != new:
            problems.append(f"live.set_raw_chunks(verify_sha=right): {r!r}, id {o.get_id(fmt)!r}")
        o = live()
        r = rejects(lambda: o.set_raw_chunks(_split_chunks(new), object_format=fmt, verify_sha=wrong))
        if r is not True:
            problems.append(f"live.set_raw_chunks(verify_sha=<id of the previous content>) not rejected: {r!r}")
        o = live()
        r = _try(o.set_raw_string, new, verify_sha=right)      # object_format of the object (set by from_raw_string)
        if isinstance(r, _Raised) or o.get_id(fmt) != right:
            problems.append(f"live.set_raw_string(verify_sha=right): {r!r}, id {o.get_id(fmt)!r}")
        # trusted sha= (SHA-1 naming): right one is the id and passes check(); a wrong one is caught by check()
        if algo == "sha1":
            o = live()
            o.set_raw_string(new, right)
            if o.id != right or isinstance(_try(o.check), _Raised) and kind == "blob":
                problems.append("set_raw_string(sha=right): id differs or check() fails")
            o = live()
            o.set_raw_string(new, wrong)
            r = rejects(o.check)
            if r is False:
                problems.append("set_raw_string(sha=wrong) passes check()")
            # sha= and verify_sha= together are refused
            r = _try(live().set_raw_string, new, right, verify_sha=right)
            if not (isinstance(r, _Raised) and isinstance(r.e, ValueError)):
                problems.append("sha= together with verify_sha= is not refused")
        # after a plain raw replacement the explicit-format id is the new one, asked twice
        for how in RAW_HOWS:
            o = live()
            o2 = _try(_raw_replace, kind, o, new, how) if algo == "sha1" or how in ("string", "chunks") else None
            if o2 is None:
                continue
            if isinstance(o2, _Raised):
                problems.append(f"raw path {how} raised: {o2!r}")
                continue
            ids = [_try(o2.get_id, fmt), _try(o2.get_id, fmt)]
            if ids != [right, right]:
                problems.append(f"after raw path {how}: get_id({algo}) twice = {ids!r}, expected {right!r}")
        for pr in problems:
            ctx.oracle_fail("verify", case, pr, None)


def _stream_edits(ctx):
    rng = ctx.rng
    n = ctx.budget(4000) * BOOST
    items = []
    for i in range(n):
        kind = ("commit", "tag", "tree", "blob")[i % 4]
        seq = gen_sequence(rng, kind)
        ctx.count("edits", (kind, repr(seq["ops"])), True, f"{kind}:len{min(len(seq['ops']) // 4 * 4, 12)}")
        hd = ctx.hist.setdefault("edits.discipline", {})
        hd[seq["discipline"]] = hd.get(seq["discipline"], 0) + 1
        hr = ctx.hist.setdefault("edits.raw-paths", {})
        for o in seq["ops"]:
            if o[0] == "setraw":
                key = f"{kind}:{o[2]}"
                hr[key] = hr.get(key, 0) + 1
        items.append((kind, seq))
        if i < 2:
            ctx.sample({"stream": "edits", "kind": kind, "ops": [repr(o)[:60] for o in seq["ops"]][:8]})
    for i in range(0, len(items), 500):
        _run_sequences(ctx, items[i:i + 500])


# ------------------------------------------------------------------------------------------------
# blobs

def _stream_blob(ctx):
    import dulwich.objects as O
    from dulwich.object_format import SHA256
    rng = ctx.rng
    datas = [b"", b"\0", b"a", b"blob 1\0a", b"\n", b"x" * 1000, bytes(range(256))] + \
        [rng.randbytes(rng.choice([1, 2, 17, 100, 4096, 70000])) for _ in range(ctx.budget(300))]
    outs = ctx.driver.batch([f"c01.hashinput 3 {hx(d)}" for d in datas])
    for d, m in zip(datas, outs):
        cuts = sorted(rng.randrange(len(d) + 1) for _ in range(rng.randint(0, 4)))
        chunks = [d[a:b] for a, b in zip([0] + cuts, cuts + [len(d)])]
        objs = {"from_string": O.Blob.from_string(d), "data": O.Blob(), "chunked": O.Blob(),
                "raw_chunks": O.ShaFile.from_raw_chunks(3, chunks)}
        objs["data"].data = d
        objs["chunked"].chunked = chunks
        want1, want256 = sha_hex("sha1", "blob", d), sha_hex("sha256", "blob", d)
        ctx.count("blob.id", d, True, f"len{len(str(len(d)))}")
        if m == "~" or hashlib.sha1(unhx(m)).hexdigest().encode() != want1:
            ctx.disagree("blob.id", {"data": hx(d)[:80]}, m[:80], "header+data")
        for how, b in objs.items():
            if b.as_raw_string() != d or b.data != d or b"".join(b.chunked) != d:
                ctx.oracle_fail("blob.bytes", {"how": how, "data": hx(d)[:200]}, "blob content is not returned unchanged", None)
            if b.id != want1 or b.get_id(SHA256) != want256 or b.sha().hexdigest().encode() != want1:
                ctx.oracle_fail("blob.id", {"how": how, "data": hx(d)[:200], "chunks": [len(c) for c in chunks]},
                                f"blob id {b.id} is not the hash of 'blob <len>\\0'+data", None)


# ------------------------------------------------------------------------------------------------
# C git as a third party

class _Raised:
    def __init__(self, e):
        self.e = e

    def __repr__(self):
        return f"raised {type(self.e).__name__}: {self.e}"


def _try(fn, *a, **k):
    """Run real code; an exception becomes a value the oracle reports (never a harness crash)."""
    try:
        return fn(*a, **k)
    except Exception as e:  # noqa: BLE001
        return _Raised(e)


def _git(ctx, repo, args, inp=None, env=None, ok_codes=(0,)):
    p = subprocess.run(["git", "-C", str(repo)] + args, input=inp, stdout=subprocess.PIPE, stderr=subprocess.PIPE,
                       env=core.clean_env(env), timeout=300)
    if p.returncode not in ok_codes:
        return None, p.stderr.decode("latin1")
    return p.stdout, p.stderr.decode("latin1")


def _gitify(f: dict, kind: str) -> dict:
    """Keep a generated record inside what `git fsck --strict` accepts without any warning."""
    g = dict(f)
    for k in ("tree", "object_sha"):
        if k in g and set(g[k]) == {ord("0")}:
            g[k] = b"1" * len(g[k])
    if "parents" in g:
        g["parents"] = [p if set(p) != {ord("0")} else b"1" * len(p) for p in g["parents"]]
        g["parents"] = list(dict.fromkeys(g["parents"]))
    return g


def _stream_git(ctx):
    import dulwich.objects as O
    from dulwich.object_format import SHA1, SHA256
    rng = ctx.rng
    strict_modes = [m for m in MODES if m != 0o100664]
    for algo in ("sha1", "sha256"):
        fmt = SHA1 if algo == "sha1" else SHA256
        repo = ctx.scratch / f"git-{algo}"
        out, err = _git(ctx, ctx.scratch, ["init", "-q", f"--object-format={algo}", str(repo)])
        if out is None:
            raise core.InfraError(f"git init --object-format={algo} failed: {err}")
        gid = lambda o: o.id if algo == "sha1" else o.get_id(SHA256)   # noqa: E731
        written = {}      # id -> (kind, case) for everything dulwich serialised

        def hash_objects(kind, raws):
            files = []
            d = ctx.scratch / f"objs-{algo}-{kind}"
            d.mkdir(exist_ok=True)
            for i, r in enumerate(raws):
                (d / f"{i}").write_bytes(r)
                files.append(str(d / f"{i}"))
            out, err = _git(ctx, repo, ["hash-object", "-t", kind, "-w", "--stdin-paths"], ("\n".join(files) + "\n").encode())
            return (out.decode().split() if out is not None else None), err

        n = ctx.budget(70, mult=5)
        # ---- blobs
        blobs = [b"", b"a\n", rng.randbytes(300)] + [rng.randbytes(rng.randint(0, 50)) for _ in range(n // 4)]
        ids, err = hash_objects("blob", blobs)
        for d, gi in zip(blobs, ids or []):
            b = O.Blob.from_string(d)
            ctx.count("git.hash-object", (algo, "blob", d), True, f"{algo}:blob")
            if _try(lambda: gid(b).decode()) != gi:
                ctx.oracle_fail("git.hash-object", {"algo": algo, "kind": "blob", "data": hx(d)}, f"git names it {gi}, dulwich {gid(b)}", None)
        blob_id, empty_blob = (ids or [None, None])[1], (ids or [None])[0]
        # ---- trees: dulwich bytes -> hash-object; entries -> mktree
        tcases = [gen_tree_entries(rng, algo, git_clean=True) for _ in range(n)]
        tcases = [[(nm, m if m in strict_modes else 0o100644, h if set(h) != {ord("0")} else b"1" * len(h)) for nm, m, h in es]
                  for es in tcases]
        fam = [b"a", b"a.b", b"a-", b"a0", b"a.", b"a-b", b"ab", b"a b", b"a\xff", b"a\x01", b"A", b"a+"]
        tcases.append([(x, 0o040000 if i % 2 else 0o100644, gen_hex(rng, algo).replace(b"00" * 8, b"11" * 8)) for i, x in enumerate(fam)])
        tcases.append([(x, 0o100644 if i % 2 else 0o040000, gen_hex(rng, algo).replace(b"00" * 8, b"11" * 8)) for i, x in enumerate(fam)])
        traws = []

        def _mk_tree(es):
            t = O.Tree()
            t.object_format = fmt
            for nm, m, h in es:
                t.add(nm, m, h)
            return t.as_raw_string()
        for es in list(tcases):
            r = _try(_mk_tree, es)
            if isinstance(r, _Raised):
                ctx.oracle_fail("git.hash-object", {"algo": algo, "kind": "tree", "entries": [(hx(a), b, c.decode()) for a, b, c in es]},
                                f"legal entries do not serialise: {r}", None)
                tcases.remove(es)
            else:
                traws.append(r)
        ids, err = hash_objects("tree", traws)
        if ids is None:
            ctx.oracle_fail("git.hash-object", {"algo": algo, "kind": "tree"}, f"git rejects a dulwich tree: {err[:300]}", None)
        for es, raw, gi in zip(tcases, traws, ids or []):
            ctx.count("git.hash-object", (algo, "tree", raw), True, f"{algo}:tree")
            mine = sha_hex(algo, "tree", raw).decode()
            t = _try(O.ShaFile.from_raw_string, 2, raw, object_format=fmt)
            if isinstance(t, _Raised) or gi != mine or gid(t).decode() != gi:
                ctx.oracle_fail("git.hash-object", {"algo": algo, "kind": "tree", "raw": hx(raw)},
                                f"git names it {gi}, dulwich {t if isinstance(t, _Raised) else gid(t)}", None)
            written[gi] = ("tree", {"algo": algo, "raw": hx(raw)})
        for es, raw in list(zip(tcases, traws))[: max(6, n // 3)] + list(zip(tcases, traws))[-2:]:
            typ = lambda m: "tree" if m == 0o040000 else ("commit" if m == 0o160000 else "blob")   # noqa: E731
            inp = b"".join(b"%o %s %s\t%s\0" % (m, typ(m).encode(), h, nm) for nm, m, h in es)
            out, err = _git(ctx, repo, ["mktree", "-z", "--missing"], inp)
            ctx.count("git.mktree", (algo, raw), True, f"{algo}:n{min(len(es), 9)}")
            if out is None:
                ctx.notes.append(f"git mktree failed: {err[:200]}")
                continue
            gi = out.decode().strip()
            graw, _ = _git(ctx, repo, ["cat-file", "tree", gi])
            if graw != raw:
                ctx.oracle_fail("git.mktree", {"algo": algo, "entries": [(hx(a), b, c.decode()) for a, b, c in es]},
                                f"git mktree writes {hx(graw or b'')[:160]}, dulwich {hx(raw)[:160]}", None)
        empty_tree = hash_objects("tree", [b""])[0][0]
        # ---- commits: dulwich bytes -> hash-object (+fsck later); fields -> commit-tree
        ccases = []
        for _ in range(n):
            f = _gitify(gen_commit_fields(rng, "git", algo), "commit")
            f["tree"] = empty_tree.encode()
            f["parents"] = []
            ccases.append(f)
        craws = [_try(lambda f=f: build_commit(f).as_raw_string()) for f in ccases]
        for f, r in zip(ccases, craws):
            if isinstance(r, _Raised):
                ctx.oracle_fail("git.hash-object", {"algo": algo, "kind": "commit", "fields": {k: repr(v) for k, v in f.items()}},
                                f"canonical values do not serialise: {r}", None)
        ccases = [f for f, r in zip(ccases, craws) if not isinstance(r, _Raised)]
        craws = [r for r in craws if not isinstance(r, _Raised)]
        ids, err = hash_objects("commit", craws)
        if ids is None:
            ctx.oracle_fail("git.hash-object", {"algo": algo, "kind": "commit"}, f"git rejects a dulwich commit: {err[:300]}", None)
        commit_ids = []
        for f, raw, gi in zip(ccases, craws, ids or []):
            ctx.count("git.hash-object", (algo, "commit", raw), True, f"{algo}:commit")
            c = _try(O.Commit.from_string, raw)
            if isinstance(c, _Raised) or gid(c).decode() != gi:
                ctx.oracle_fail("git.hash-object", {"algo": algo, "kind": "commit", "raw": hx(raw)},
                                f"git names it {gi}, dulwich {c if isinstance(c, _Raised) else gid(c)}", None)
            written[gi] = ("commit", {"algo": algo, "raw": hx(raw)})
            commit_ids.append(gi)
        for i in range(max(5, n // 4)):
            f = _gitify(gen_commit_fields(rng, "git", algo), "commit")
            f["tree"] = empty_tree.encode()
            f["parents"] = [x.encode() for x in rng.sample(commit_ids, min(len(commit_ids), rng.choice([0, 1, 2, 3])))]
            f["encoding"], f["mergetag"], f["extra"], f["gpgsig"] = None, [], [], None
            f["author_neg"] = f["commit_neg"] = False
            nm = lambda ident: ident[: ident.index(b" <")] if b" <" in ident else b""     # noqa: E731
            em = lambda ident: ident[ident.index(b"<") + 1: -1]   # noqa: E731

            def simple(x):
                # git's ident clean-up (strbuf_addstr_without_crud): edges lose bytes <= 32 and .,:;<>"\'
                crud = lambda c: c <= 32 or c in b".,:;<>\"\\'"   # noqa: E731
                y = bytearray(x)
                while y and crud(y[0]):
                    del y[0]
                while y and crud(y[-1]):
                    del y[-1]
                return bytes(y) or b"x"
            def utf8(x):
                # git re-encodes a commit that is not valid UTF-8 as if it were latin-1 (verify_utf8): keep to UTF-8 here
                try:
                    x.decode("utf-8")
                    return x
                except UnicodeDecodeError:
                    return "Zo\u00eb \u2603".encode()
            an, cn = utf8(simple(nm(f["author"]))), utf8(simple(nm(f["committer"])))
            ae, ce = utf8(simple(em(f["author"]))), utf8(simple(em(f["committer"])))
            f["message"] = utf8(f["message"])
            if any(c in an + cn + ae + ce for c in b"<>\n"):
                continue
            f["author"], f["committer"] = an + b" <" + ae + b">", cn + b" <" + ce + b">"
            if not f["message"].endswith(b"\n") or b"\0" in f["message"]:
                f["message"] = b"msg\n"
            e = dict(core.clean_env())
            e.update({"GIT_AUTHOR_NAME": an, "GIT_AUTHOR_EMAIL": ae, "GIT_COMMITTER_NAME": cn, "GIT_COMMITTER_EMAIL": ce,
                      "GIT_AUTHOR_DATE": f"@{f['author_time']} {ref_tz(f['author_timezone']).decode()}",
                      "GIT_COMMITTER_DATE": f"@{f['commit_time']} {ref_tz(f['commit_timezone']).decode()}"})
            args = ["commit-tree", empty_tree] + [x for p in f["parents"] for x in ("-p", p.decode())]
            p = subprocess.run(["git", "-C", str(repo)] + args, input=f["message"],
                               stdout=subprocess.PIPE, stderr=subprocess.PIPE, env=e, timeout=120)
            ctx.count("git.commit-tree", (algo, i), True, f"{algo}:p{len(f['parents'])}")
            if p.returncode != 0:
                ctx.notes.append(f"git commit-tree failed: {p.stderr[:200]!r}")
                continue
            gi = p.stdout.decode().strip()
            graw, _ = _git(ctx, repo, ["cat-file", "commit", gi])
            c = build_commit(f)
            craw = _try(c.as_raw_string)
            if graw != craw or gid(c).decode() != gi:
                ctx.oracle_fail("git.commit-tree", {"algo": algo, "fields": {k: repr(v) for k, v in f.items()}},
                                f"git writes {graw!r}, dulwich {craw!r}", None)
            else:
                back = _try(lambda: commit_fields_of(O.Commit.from_string(graw)))
                if isinstance(back, _Raised) or _norm_msg(back) != _norm_msg(f):
                    ctx.oracle_fail("git.commit-tree", {"algo": algo, "raw": hx(graw)}, "dulwich parses git's commit into other values", None)
        # ---- tags: dulwich bytes -> mktag (git validates strictly) and hash-object
        targets = [(empty_tree.encode(), b"tree")] + [(c.encode(), b"commit") for c in commit_ids[:5]]
        if blob_id:
            targets.append((blob_id.encode(), b"blob"))
        tagcases = []
        for _ in range(n):
            f = _gitify(gen_tag_fields(rng, "git", algo, target=rng.choice(targets)), "tag")
            tagcases.append(f)
        tagraws = [_try(lambda f=f: build_tag(f).as_raw_string()) for f in tagcases]
        for f, r in zip(tagcases, tagraws):
            if isinstance(r, _Raised):
                ctx.oracle_fail("git.hash-object", {"algo": algo, "kind": "tag", "fields": {k: repr(v) for k, v in f.items()}},
                                f"canonical values do not serialise: {r}", None)
        tagcases = [f for f, r in zip(tagcases, tagraws) if not isinstance(r, _Raised)]
        tagraws = [r for r in tagraws if not isinstance(r, _Raised)]
        ids, err = hash_objects("tag", tagraws)
        if ids is None:
            ctx.oracle_fail("git.hash-object", {"algo": algo, "kind": "tag"}, f"git rejects a dulwich tag: {err[:300]}", None)
        for f, raw, gi in zip(tagcases, tagraws, ids or []):
            ctx.count("git.hash-object", (algo, "tag", raw), True, f"{algo}:tag")
            t = _try(O.Tag.from_string, raw)
            if isinstance(t, _Raised) or gid(t).decode() != gi:
                ctx.oracle_fail("git.hash-object", {"algo": algo, "kind": "tag", "raw": hx(raw)},
                                f"git names it {gi}, dulwich {t if isinstance(t, _Raised) else gid(t)}", None)
            written[gi] = ("tag", {"algo": algo, "raw": hx(raw)})
        for f, raw in list(zip(tagcases, tagraws))[: max(5, n // 4)]:
            out, err = _git(ctx, repo, ["mktag"], raw)
            ctx.count("git.mktag", (algo, raw), True, f"{algo}:{f['object_type'].decode()}")
            if out is None:
                ctx.oracle_fail("git.mktag", {"algo": algo, "raw": hx(raw)}, f"git mktag rejects a dulwich tag: {err[:300]}", None)
            elif out.decode().strip() != sha_hex(algo, "tag", raw).decode():
                ctx.oracle_fail("git.mktag", {"algo": algo, "raw": hx(raw)}, "git mktag names it differently", None)
        # ---- fsck --strict over everything written
        p = subprocess.run(["git", "-C", str(repo), "fsck", "--strict", "--no-dangling", "--no-progress"], stdout=subprocess.PIPE,
                           stderr=subprocess.STDOUT, env=core.clean_env(), timeout=600)
        bad = 0
        for line in p.stdout.decode("latin1").splitlines():
            m = re.match(r"(error|warning) in (\w+) ([0-9a-f]+): (\w+):", line)
            if m and m.group(3) in written:
                bad += 1
                kind, case = written[m.group(3)]
                ctx.oracle_fail("git.fsck", {**case, "kind": kind}, f"git fsck --strict: {line[:200]}", None)
        ctx.count("git.fsck", (algo, len(written)), True, f"{algo}:objects{len(written) // 10 * 10}")
        ctx.extra_cov.setdefault("git", {})[algo] = {"objects_written_and_fscked": len(written), "fsck_complaints": bad}


# ================================================================================================
# corpus, run, search, replay

def _run_corpus(ctx, V):
    d = core.VERIF / "corpus" / "C01"
    if not d.exists():
        return
    for fpath in sorted(d.glob("*.json")):
        c = json.loads(fpath.read_text())
        ctx.count("corpus", fpath.stem, True, fpath.stem)
        _replay_case(ctx, c, "corpus", V)


def _replay_case(ctx, c: dict, stream: str, V=None) -> bool:
    """Re-run the direct oracle on one recorded case.  False: this kind of case cannot be replayed alone."""
    op = c.get("op")
    if op == "seq":
        _run_sequence(ctx, c["kind"], _seq_from_json(c["kind"], c["seq"]), stream)
    elif op == "touch":
        _touch_oracle(ctx, c["kind"], unhx(c["raw"]), ctx.rng, stream=stream, attrs=c.get("attrs"))
    elif op == "fields":
        f = _uj(c["fields"])
        if "extra" in f:
            f["extra"] = [tuple(x) for x in f["extra"]]
        _fields_oracle(ctx, c["kind"], f, stream)
    elif op == "refill":
        _refill_case(ctx, c["kind"], unhx(c["t1"]), unhx(c["t2"]), None, c["how"], c["pre_edit"], c["discipline"], stream)
    elif op == "msg":
        _oracle_msg(ctx, [(unhx(k), unhx(v)) for k, v in c["headers"]], None if c["body"] == "~" else unhx(c["body"]), stream)
    elif op == "tz":
        _oracle_tz(ctx, c["offset"], c["neg"], stream)
    elif op == "te":
        _oracle_te(ctx, unhx(c["person"]), c["time"], c["tz"], c["neg"], stream)
    elif op == "tree":
        own = V is None
        V = V or Variants(ctx)
        try:
            es = [(unhx(a), b, unhx(h)) for a, b, h in c["entries"]]
            if c["variant"] in V.workers:
                rr = V.batch(c["variant"], [("roundtrip", {"entries": _entries_tokens(es), "sha_len": 20 if c["algo"] == "sha1" else 32})])[0]
                case = {"variant": c["variant"], "algo": c["algo"], "entries": c["entries"]}
                if isinstance(rr, str):
                    ctx.oracle_fail(stream, case, f"a tree of legal entries cannot be serialised and parsed back: {rr}", None)
                else:
                    _oracle_tree(ctx, case, es, rr, stream)
        finally:
            if own:
                V.close()
    else:
        return False
    return True


def _fields_oracle(ctx, kind, f, stream=None):
    """fields -> bytes -> fields on the real code, against git's grammar."""
    from dulwich.objects import Commit, Tag
    from dulwich.object_format import SHA256
    build = build_commit if kind == "commit" else build_tag
    ref = ref_commit if kind == "commit" else ref_tag
    fields_of = commit_fields_of if kind == "commit" else tag_fields_of
    cls = Commit if kind == "commit" else Tag
    case = {"kind": kind, "fields": {k: repr(v) for k, v in f.items()}, "replay": {"op": "fields", "kind": kind, "fields": _j(f)}}
    klass = _fields_class(kind, f)
    obj = _try(build, f)
    if isinstance(obj, _Raised):
        ctx.oracle_fail(stream or f"{kind}.ser", case, f"setting canonical field values raised: {obj}", klass)
        return "err other", None
    real = try_raw(obj)
    if not real.startswith("ok "):
        ctx.oracle_fail(stream or f"{kind}.ser", case, f"canonical field values do not serialise: {real}", klass)
        return real, None
    raw = unhx(real[3:])
    want = ref(f)
    if raw != want:
        ctx.oracle_fail(stream or f"{kind}.bytes", case, f"as_raw_string differs from git's encoding: {raw[-120:]!r} vs {want[-120:]!r}", klass)
    if _try(lambda: obj.id) != sha_hex("sha1", kind, raw) or _try(obj.get_id, SHA256) != sha_hex("sha256", kind, raw):
        ctx.oracle_fail(stream or f"{kind}.id", case, "id is not the hash of header+as_raw_string", klass)
    try:
        back = fields_of(cls.from_string(raw))
    except Exception as e:  # noqa: BLE001
        ctx.oracle_fail(stream or f"{kind}.roundtrip", case, f"own bytes are rejected: {type(e).__name__}: {e}", klass)
        return real, raw
    if _norm_msg(back) != _norm_msg(f):
        diff = [k for k in f if _norm_msg(back)[k] != _norm_msg(f)[k]]
        ctx.oracle_fail(stream or f"{kind}.roundtrip", case, f"from_string(as_raw_string) changes {diff}", klass)
    return real, raw


def _fields_class(kind, f):
    if kind == "commit" and any(not m.endswith(b"\n") for m in f["mergetag"]):
        return "mergetag-without-trailing-lf"
    return None


BOOST = 1


def run(ctx: core.Ctx):
    ctx.assumptions += [
        "the Lean driver returns the bytes (object header ++ body) an id is the hash of; SHA-1/SHA-256 themselves are "
        "computed by hashlib in the harness (the hash is an uninterpreted parameter of the theorems)",
        "float arithmetic in format_timezone/parse_timezone is modelled by integer division (exact below 2^53); "
        "CPython's 4300-digit int() limit is not modelled; neither is reached by the generators",
        "message=None and message=b'' are identified when comparing field values (both serialise to the same bytes)",
        "C git 2.39.5 on PATH is the third party (hash-object, mktree, commit-tree, mktag, cat-file, fsck --strict)",
    ]
    V = Variants(ctx)
    try:
        w = {k: v.ask({"mod": MOD, "op": "which"}).get("r") for k, v in V.workers.items()}
        ctx.extra_cov["variants"] = w
        _run_corpus(ctx, V)
        _stream_prims(ctx, V)
        _stream_tz(ctx)
        _stream_msg(ctx)
        _stream_tree(ctx, V)
        _stream_objects(ctx, "tag")
        _stream_objects(ctx, "commit")
        _stream_blob(ctx)
        _stream_edits(ctx)
        _stream_refill(ctx)
        _stream_verify(ctx)
        _stream_git(ctx)
    finally:
        V.close()


def search(ctx: core.Ctx):
    """Failing-input search after a broken obligation / correspondence: the direct oracles again on fresh cases with
    a boosted budget (the streams below carry the property's own round-trip / id / git-grammar oracles)."""
    global BOOST
    BOOST = 4
    V = Variants(ctx)
    try:
        _stream_refill(ctx)
        if ctx.oracle_failures:
            return
        _stream_edits(ctx)
        _stream_verify(ctx)
        if ctx.oracle_failures:
            return
        _stream_tz(ctx)
        _stream_msg(ctx)
        _stream_objects(ctx, "tag")
        _stream_objects(ctx, "commit")
        if ctx.oracle_failures:
            return
        _stream_tree(ctx, V)
        _stream_blob(ctx)
    finally:
        BOOST = 1
        V.close()


def replay(ctx: core.Ctx, data: dict) -> int:
    c = data.get("case", data)
    rp = c.get("replay", c)
    if not _replay_case(ctx, rp, "replay"):
        print("replay: this record carries no self-contained failing input (a model/implementation disagreement or a "
              f"broken proof obligation); re-run: VERIF_SEED={data.get('seed', 0)} ./check C01 --tier {data.get('tier', 'quick')}")
        return 2
    for f in ctx.oracle_failures:
        print("replay:", f["what"][:300])
    if ctx.oracle_failures:
        print(f"VIOLATION property=C01 replay={data.get('_path', '<replayed>')}")
        return 1
    if ctx.known_hit:
        for k, n in ctx.known_hit.items():
            print(f"KNOWN-FINDING: property=C01 {k} (hit {n}x)")
        return 0
    print("replay: property holds on this case")
    return 0
