"""C07 — lock files give mutual exclusion and all-or-nothing replacement.

Model: lean/DulwichModel/Model/Lock.lean (+ Model/LockFS.lean); theorems: Props/C07.lean.
Tie:
  * translate() re-derives the `_GitFile` *program* from the AST of dulwich/file.py on every run (open
    flags, order of the calls in close(), which of them sit inside `try … finally: self.abort()`,
    `_closed = True` after the rename, the guards, what abort() does, `__exit__`, `__del__`) and the
    error handler of `Index.write`; the Lean model interprets that generated program and the theorems
    are stated about it, so an edit of the protocol changes Gen/Lock.lean and breaks the proofs.
  * run() drives real `_GitFile` handles under the deterministic scheduler (harness/sched.py, extended
    here with write/flush yield points) along schedules (exhaustive <= 2 pre-emptions for 2 actors,
    samples for 3, random, corpus) and compares every step with the Lean transition system.
Direct oracle (independent of the model): a mutual-exclusion monitor over the observed system calls and
directory snapshots, and fault injection at every interposed call of every dulwich routine that writes
through the lock protocol.
"""
from __future__ import annotations

import ast
import errno
import gc
import itertools
import json
import os
import shutil
import sys
import threading
import traceback
import warnings
from pathlib import Path

from .. import core, sched, translate as T
from ..core import hx, unhx

MOD = "c07"


# ------------------------------------------------------------------------------------------------
# translator: the `_GitFile` program, read off the AST

def _is_self_attr(node, attr):
    return isinstance(node, ast.Attribute) and isinstance(node.value, ast.Name) and node.value.id == "self" \
        and node.attr == attr


def _call_name(call: ast.Call) -> str:
    """dotted name of the callee: os.replace, self._file.flush, adjust_shared_perm, ..."""
    parts = []
    f = call.func
    while isinstance(f, ast.Attribute):
        parts.append(f.attr)
        f = f.value
    if isinstance(f, ast.Name):
        parts.append(f.id)
    else:
        parts.append("?")
    return ".".join(reversed(parts))


def _is_closed_guard(st) -> bool:
    return isinstance(st, ast.If) and _is_self_attr(st.test, "_closed") and len(st.body) == 1 \
        and isinstance(st.body[0], ast.Return) and st.body[0].value is None and not st.orelse


def _is_set_closed(st) -> bool:
    return isinstance(st, ast.Assign) and len(st.targets) == 1 and _is_self_attr(st.targets[0], "_closed") \
        and isinstance(st.value, ast.Constant) and st.value.value is True


def _is_docstring(st) -> bool:
    return isinstance(st, ast.Expr) and isinstance(st.value, ast.Constant) and isinstance(st.value.value, str)


def _adjust_perm_calls(tree) -> list[str]:
    """The os.* calls adjust_shared_perm(path, perm) makes on `path`, in source order."""
    fn = T.find_def(tree, "adjust_shared_perm")
    out = []
    for n in ast.walk(fn):
        if isinstance(n, ast.Call):
            nm = _call_name(n)
            if nm.startswith("os.") and nm not in ("os.fspath",) and n.args and isinstance(n.args[0], ast.Name) \
                    and n.args[0].id == "path":
                out.append((n.lineno, n.col_offset, nm[3:]))
    calls = [c for _, _, c in sorted(out)]
    for c in calls:
        if c not in ("stat", "chmod"):
            raise T.TranslateError(f"adjust_shared_perm: unexpected call os.{c} on the path")
    if calls != ["stat", "chmod"]:
        raise T.TranslateError(f"adjust_shared_perm: expected os.stat then os.chmod, found {calls}")
    return calls


def _rename_stmt(st) -> bool:
    """`if getattr(os,'replace',None) is not None: os.replace(lock, f) else: os.rename/_fancy_rename(lock, f)`
    or a bare call of one of these with (self._lockfilename, self._filename)."""
    calls = [n for n in ast.walk(st) if isinstance(n, ast.Call) and _call_name(n) in
             ("os.replace", "os.rename", "_fancy_rename")]
    if not calls:
        return False
    for c in calls:
        if len(c.args) != 2 or not _is_self_attr(c.args[0], "_lockfilename") or not _is_self_attr(c.args[1], "_filename"):
            raise T.TranslateError("close(): rename with unexpected arguments")
    # no other effectful statement may hide in there
    for n in ast.walk(st):
        if isinstance(n, (ast.Assign, ast.AugAssign, ast.Return, ast.Raise, ast.Try)):
            raise T.TranslateError("close(): rename statement contains more than the rename")
        if isinstance(n, ast.Call) and _call_name(n) not in ("os.replace", "os.rename", "_fancy_rename", "getattr"):
            raise T.TranslateError(f"close(): unexpected call {_call_name(n)} in the rename statement")
    return True


def _scan_close(tree):
    fn = T.find_def(tree, "_GitFile.close")
    perm_calls = _adjust_perm_calls(tree)
    st = {"guard": False, "pre": [], "replace": False, "replace_in_try": False, "mark": False,
          "fsync_conditional": False}

    def walk(stmts, in_try):
        for s in stmts:
            if _is_docstring(s):
                continue
            if _is_closed_guard(s):
                if st["pre"] or st["replace"]:
                    raise T.TranslateError("close(): `_closed` guard is not the first statement")
                st["guard"] = True
                continue
            if st["replace"]:
                if _is_set_closed(s):
                    st["mark"] = True
                    continue
                raise T.TranslateError(f"close(): statement after the rename not understood (line {s.lineno})")
            if isinstance(s, ast.Expr) and isinstance(s.value, ast.Call):
                nm = _call_name(s.value)
                if nm == "self._file.flush":
                    st["pre"].append(("flush", in_try))
                    continue
                if nm == "self._file.close":
                    st["pre"].append(("fclose", in_try))
                    continue
                if nm == "os.fsync":
                    st["pre"].append(("fsync", in_try))
                    continue
                if nm == "adjust_shared_perm":
                    if not s.value.args or not _is_self_attr(s.value.args[0], "_lockfilename"):
                        raise T.TranslateError("close(): adjust_shared_perm is not applied to the lock file")
                    st["pre"] += [(c, in_try) for c in perm_calls]
                    continue
            if isinstance(s, ast.If) and _is_self_attr(s.test, "_fsync") and not s.orelse and len(s.body) == 1 \
                    and isinstance(s.body[0], ast.Expr) and isinstance(s.body[0].value, ast.Call) \
                    and _call_name(s.body[0].value) == "os.fsync":
                st["pre"].append(("fsync", in_try))
                st["fsync_conditional"] = True
                continue
            if isinstance(s, ast.Try):
                if s.handlers or s.orelse:
                    raise T.TranslateError("close(): try statement with except/else clauses")
                fin = s.finalbody
                aborts = len(fin) == 1 and isinstance(fin[0], ast.Expr) and isinstance(fin[0].value, ast.Call) \
                    and _call_name(fin[0].value) == "self.abort"
                if fin and not aborts:
                    raise T.TranslateError("close(): finally clause is not `self.abort()`")
                walk(s.body, in_try or aborts)
                continue
            if _rename_stmt(s):
                st["replace"] = True
                st["replace_in_try"] = in_try
                continue
            raise T.TranslateError(f"close(): statement not understood (line {s.lineno}): {ast.dump(s)[:100]}")

    walk(fn.body, False)
    if not st["replace"]:
        raise T.TranslateError("close(): no rename of the lock file onto the target found")
    return st


def _scan_abort(tree):
    fn = T.find_def(tree, "_GitFile.abort")
    body = [s for s in fn.body if not _is_docstring(s)]
    guard = bool(body) and _is_closed_guard(body[0])
    if guard:
        body = body[1:]
    if not body or not (isinstance(body[0], ast.Expr) and isinstance(body[0].value, ast.Call)
                        and _call_name(body[0].value) == "self._file.close"):
        raise T.TranslateError("abort(): does not start by closing the file object")
    body = body[1:]
    removes = False
    for n in ast.walk(fn):
        if isinstance(n, ast.Call) and _call_name(n) in ("os.remove", "os.unlink"):
            if len(n.args) != 1 or not _is_self_attr(n.args[0], "_lockfilename"):
                raise T.TranslateError("abort(): removes something other than the lock file")
            removes = True
    if removes:
        if len(body) != 1 or not isinstance(body[0], ast.Try):
            raise T.TranslateError("abort(): expected `try: os.remove(lock); self._closed = True except FileNotFoundError`")
        tr = body[0]
        ok = len(tr.body) == 2 and isinstance(tr.body[0], ast.Expr) and isinstance(tr.body[0].value, ast.Call) \
            and _call_name(tr.body[0].value) in ("os.remove", "os.unlink") and _is_set_closed(tr.body[1]) \
            and len(tr.handlers) == 1 and isinstance(tr.handlers[0].type, ast.Name) \
            and tr.handlers[0].type.id == "FileNotFoundError" and len(tr.handlers[0].body) == 1 \
            and _is_set_closed(tr.handlers[0].body[0]) and not tr.orelse and not tr.finalbody
        if not ok:
            raise T.TranslateError("abort(): try/except around os.remove has an unexpected shape")
    else:
        # without the unlink the only thing abort() may do is mark the handle closed
        if not all(_is_set_closed(s) for s in body):
            raise T.TranslateError("abort(): body not understood")
    return {"guard": guard, "removes": removes}


def _scan_init(tree):
    fn = T.find_def(tree, "_GitFile.__init__")
    opens = [n for n in ast.walk(fn) if isinstance(n, ast.Call) and _call_name(n) == "os.open"]
    if len(opens) != 1:
        raise T.TranslateError(f"_GitFile.__init__: expected one os.open, found {len(opens)}")
    c = opens[0]
    if not c.args or not _is_self_attr(c.args[0], "_lockfilename"):
        raise T.TranslateError("_GitFile.__init__: os.open is not applied to the lock file name")
    flags = set()
    if len(c.args) > 1:
        for n in ast.walk(c.args[1]):
            if isinstance(n, ast.Attribute) and isinstance(n.value, ast.Name) and n.value.id == "os" \
                    and n.attr.startswith("O_"):
                flags.add(n.attr)
    locked = False
    for n in ast.walk(fn):
        if isinstance(n, ast.Try) and any(x is c for x in ast.walk(n)):
            for h in n.handlers:
                if isinstance(h.type, ast.Name) and h.type.id == "FileExistsError":
                    for r in ast.walk(h):
                        if isinstance(r, ast.Raise) and isinstance(r.exc, ast.Call) and _call_name(r.exc) == "FileLocked":
                            locked = True
    if not locked:
        raise T.TranslateError("_GitFile.__init__: FileExistsError is not turned into FileLocked")
    suffix = None
    for n in ast.walk(fn):
        if isinstance(n, ast.BinOp) and isinstance(n.op, ast.Add) and _is_self_attr(n.left, "_filename") \
                and isinstance(n.right, ast.Constant) and isinstance(n.right.value, str):
            suffix = n.right.value
    if suffix is None:
        raise T.TranslateError("_GitFile.__init__: lock file suffix not found")
    return {"flags": flags, "suffix": suffix}


def _scan_exit_del(tree):
    ex = T.find_def(tree, "_GitFile.__exit__")
    body = [s for s in ex.body if not _is_docstring(s)]
    ok = len(body) == 1 and isinstance(body[0], ast.If) and isinstance(body[0].test, ast.Compare) \
        and isinstance(body[0].test.left, ast.Name) and body[0].test.left.id == "exc_type" \
        and isinstance(body[0].test.ops[0], ast.IsNot)

    def only_call(stmts):
        if len(stmts) == 1 and isinstance(stmts[0], ast.Expr) and isinstance(stmts[0].value, ast.Call):
            return _call_name(stmts[0].value)
        return None
    if not ok:
        raise T.TranslateError("_GitFile.__exit__: expected `if exc_type is not None: … else: …`")
    on_exc, normal = only_call(body[0].body), only_call(body[0].orelse)
    if on_exc not in ("self.abort", "self.close") or normal not in ("self.abort", "self.close"):
        raise T.TranslateError(f"_GitFile.__exit__: branches {on_exc}/{normal} not understood")
    de = T.find_def(tree, "_GitFile.__del__")
    del_aborts = any(isinstance(n, ast.Call) and _call_name(n) == "self.abort" for n in ast.walk(de))
    return {"exit_aborts_on_exc": on_exc == "self.abort", "exit_closes_normally": normal == "self.close",
            "del_aborts": del_aborts}


def _scan_index_write(repo: Path):
    tree = T.module_ast(repo / "dulwich" / "index.py")
    fn = T.find_def(tree, "Index.write")
    for n in ast.walk(fn):
        if isinstance(n, ast.Try) and n.handlers:
            for h in n.handlers:
                calls = [_call_name(c) for c in ast.walk(h) if isinstance(c, ast.Call)]
                if "f.close" in calls and "f.abort" not in calls:
                    return True
                if "f.abort" in calls:
                    return False
    # no handler at all (e.g. rewritten as `with`): the handle's __exit__ decides
    return False


def scan_program(repo: Path) -> dict:
    tree = T.module_ast(repo / "dulwich" / "file.py")
    init, close, abort, ed = _scan_init(tree), _scan_close(tree), _scan_abort(tree), _scan_exit_del(tree)
    return {"init": init, "close": close, "abort": abort, "exit_del": ed,
            "index_write_err_closes": _scan_index_write(repo)}


def _lb(b: bool) -> str:
    return "true" if b else "false"


def translate(repo: Path) -> dict:
    p = scan_program(repo)
    pre = ", ".join(f"(.{c}, {_lb(t)})" for c, t in p["close"]["pre"])
    fl = p["init"]["flags"]
    src = T.lean_header("dulwich/file.py: _GitFile.__init__ / close / abort / __exit__ / __del__, adjust_shared_perm; "
                        "dulwich/index.py: Index.write error handler") + f"""import DulwichModel.Model.LockFS

namespace Dulwich.Gen.Lock
open Dulwich.Lock
/-- `os.open(self._lockfilename, FLAGS, mask)`: O_CREAT / O_EXCL among the flags -/
def openCreat : Bool := {_lb("O_CREAT" in fl)}
def openExcl : Bool := {_lb("O_EXCL" in fl)}
/-- flags of that call, for the record -/
def openFlags : List String := [{", ".join('"' + f + '"' for f in sorted(fl))}]
/-- lock file name = target name ++ this -/
def lockSuffix : String := "{p["init"]["suffix"]}"
/-- close(): `if self._closed: return` comes first -/
def guardClose : Bool := {_lb(p["close"]["guard"])}
/-- close(): the calls before the rename, in source order; the flag says whether the call sits inside
the `try … finally: self.abort()` (a failure there is followed by abort()) -/
def closePre : List (PreCall × Bool) := [{pre}]
/-- close(): `if self._fsync:` guards the fsync -/
def fsyncConditional : Bool := {_lb(p["close"]["fsync_conditional"])}
/-- close(): the rename sits inside `try … finally: self.abort()` -/
def finallyAbort : Bool := {_lb(p["close"]["replace_in_try"])}
/-- close(): `self._closed = True` directly after the rename -/
def markClosedOnReplace : Bool := {_lb(p["close"]["mark"])}
/-- abort(): `if self._closed: return` comes first -/
def guardAbort : Bool := {_lb(p["abort"]["guard"])}
/-- abort(): `try: os.remove(self._lockfilename); self._closed = True  except FileNotFoundError: self._closed = True` -/
def abortRemoves : Bool := {_lb(p["abort"]["removes"])}
/-- `__exit__`: abort() when an exception is in flight, close() otherwise -/
def exitAbortsOnException : Bool := {_lb(p["exit_del"]["exit_aborts_on_exc"])}
def exitClosesNormally : Bool := {_lb(p["exit_del"]["exit_closes_normally"])}
/-- `__del__` calls abort() on a handle that was never closed -/
def delAborts : Bool := {_lb(p["exit_del"]["del_aborts"])}
/-- `Index.write`: the `except:` handler calls f.close() (renames) rather than f.abort() -/
def indexWriteErrCloses : Bool := {_lb(p["index_write_err_closes"])}
end Dulwich.Gen.Lock
"""
    return {"Lock": src}
